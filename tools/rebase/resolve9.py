import re,sys,subprocess,os,json
sys.path.insert(0,'/tmp')
from carry_d34 import carry_core
seed=sys.argv[1]
patch=sys.argv[2] if len(sys.argv)>2 else '/verif/seeded/%s/patch.diff'%seed
demo=sys.argv[3] if len(sys.argv)>3 else '/verif/seeded/%s/demo.py'%seed
kind=sys.argv[4] if len(sys.argv)>4 else json.load(open('/verif/seeded/%s/meta.json'%seed)).get('kind')
outp=sys.argv[5] if len(sys.argv)>5 else patch
def sh(c,cwd,**k): return subprocess.run(c,shell=True,cwd=cwd,capture_output=True,text=True,**k)
new='/tmp/rb_%s'%seed; old='/tmp/rbo_%s'%seed
for d,rev in ((new,'02f93f2'),(old,'2c34de8')):
    if not os.path.isdir(d): sh('git -C /repo worktree add -q --detach %s %s'%(d,rev),'/tmp')
    sh('git reset -q --hard; git clean -fdq', d)
def done():
    for d in (new, old):
        sh('git -C /repo worktree remove --force %s'%d, '/tmp')
if sh('git apply --check %s'%patch, new).returncode==0:
    print(seed,'applies'); done(); sys.exit(0)
notes=[]
EDITS={}

if sh('git apply --check %s'%patch, old).returncode!=0:
    r=sh('patch -p1 -s -i %s'%patch, new)
    sh("find . -name '*.orig' -delete; find . -name '*.rej' -delete", new)
    if r.returncode: print(seed,'CANNOT APPLY', r.stdout[-300:]); done(); sys.exit(1)
    mode='refresh'
else:
    sh('git apply %s'%patch, old); mode='rebase'
    touched=[l.split(' b/')[1].strip() for l in open(patch) if l.startswith('diff --git ')]
    for f in touched:
        src=os.path.join(old,f); dst=os.path.join(new,f)
        if not os.path.exists(src):
            if os.path.exists(dst): os.remove(dst)
            continue
        s=open(src).read()
        if f=='cincoconfig/core.py':
            s,n=carry_core(s); notes+=n
        for ef, eo, en in EDITS.get(seed, []):
            if ef == f:
                assert eo in s, (seed, ef, eo[:40])
                s = s.replace(eo, en, 1)
                notes[:] = [n_ for n_ in notes if not n_.startswith('list:')]
        os.makedirs(os.path.dirname(dst),exist_ok=True); open(dst,'w').write(s)
if seed in EDITS: notes=[n_ for n_ in notes if not n_.startswith('list:')]
sh('git add -N .', new)
d=sh('git diff', new).stdout
t=sh('/venv/bin/python -m pytest -q -p no:cacheprovider 2>&1 | tail -1', new).stdout.strip()
os.makedirs('/tmp/rb_home',exist_ok=True)
dr=sh('/venv/bin/python %s'%demo, new, env=dict(os.environ, PYTHONPATH=new, HOME='/tmp/rb_home'))
good = ('477 passed' in t) and ((kind=='benign' and dr.returncode==0) or (kind!='benign' and dr.returncode!=0))
open('/tmp/rb7_%s.diff'%seed,'w').write(d)
print(seed, mode, kind, '| tests:', t[-34:], '| demo exit:', dr.returncode, 'OK' if good and not notes else 'CHECK', notes)
if good and not notes:
    if outp==patch and os.path.exists(patch) and patch.startswith('/verif/'):
        keep=os.path.join(os.path.dirname(patch),'patch.orig-2c34de8.diff')
        if not os.path.exists(keep): open(keep,'w').write(open(patch).read())
    open(outp,'w').write(d)
done()
