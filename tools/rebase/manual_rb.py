import subprocess, sys, os, json
def sh(c, cwd): return subprocess.run(c, shell=True, cwd=cwd, capture_output=True, text=True)
def rebase(seed, edits):
    wt = "/tmp/mrb_%s" % seed
    sh("git -C /repo worktree add -q --detach %s 02f93f2" % wt, "/tmp")
    for f, old, new in edits:
        p = os.path.join(wt, f); s = open(p).read(); assert old in s, (seed, old[:50]); open(p, "w").write(s.replace(old, new, 1))
    d = sh("git diff", wt).stdout
    t = sh("/venv/bin/python -m pytest -q -p no:cacheprovider 2>&1 | tail -1", wt).stdout.strip()
    os.makedirs("/tmp/rb_home", exist_ok=True)
    dr = sh("/venv/bin/python /verif/seeded/%s/demo.py" % seed, wt + "").returncode if False else subprocess.run(
        ["/venv/bin/python", "/verif/seeded/%s/demo.py" % seed], cwd=wt, env=dict(os.environ, PYTHONPATH=wt, HOME="/tmp/rb_home"), capture_output=True).returncode
    print(seed, t[-30:], "demo", dr)
    if "477 passed" in t and dr != 0:
        pth = "/verif/seeded/%s/patch.diff" % seed
        keep = "/verif/seeded/%s/patch.orig-2c34de8.diff" % seed
        if not os.path.exists(keep): open(keep, "w").write(open(pth).read())
        open(pth, "w").write(d)
    sh("git -C /repo worktree remove --force %s" % wt, "/tmp")
rebase("C03-R4A", [("cincoconfig/core.py",
  "        if previous.__keyfile and not self.__keyfile:\n            self.__keyfile = previous.__keyfile\n",
  "        if previous._keyfile and not self.__keyfile:\n            self.__keyfile = previous._keyfile\n")])
rebase("C12-R2A", [("cincoconfig/core.py",
  "            # both Schema and ConfigTypeField implement __call__, which will return a Config object\n            cfg = field(self)\n            cfg._key = key\n            previous = self._data.get(key)\n            if isinstance(previous, Config):\n                # the sub-configuration being replaced (or one below it) named its own key file:\n                # its secrets were encrypted with that key, so the new one keeps using it\n                cfg._adopt_keyfiles(previous)\n",
  "            # both Schema and ConfigTypeField implement __setdefault__, which installs a pristine\n            # sub-configuration (parent and key already wired up) that the tree is loaded on top of\n            field.__setdefault__(self)\n            cfg = self._data[key]\n")])
