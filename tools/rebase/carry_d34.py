"""Re-apply fix D34 (02f93f2) in a seed's own version of core.py."""
import ast

METHOD = '''    def _adopt_keyfiles(self, previous: "Config") -> None:
        """
        Take over the key files named by the configuration that this configuration replaces, at
        every depth: a nested configuration that is about to be replaced in turn (loading a tree
        builds new sub-configurations level by level) hands its key file on the same way.

        :param previous: the configuration being replaced
        """
        if previous.__keyfile and not self.__keyfile:
            self.__keyfile = previous.__keyfile

        for key, old in previous._data.items():
            new = self._data.get(key)
            if isinstance(old, Config) and isinstance(new, Config):
                new._adopt_keyfiles(old)

'''

def carry_core(s):
    notes = []
    tree = ast.parse(s)
    cfgcls = [n for n in tree.body if isinstance(n, ast.ClassDef) and n.name == "Config"]
    if not cfgcls:
        return s, ["no Config class"]
    lines = s.split("\n")
    hits = []
    for n in ast.walk(cfgcls[0]):
        if isinstance(n, ast.If) and any(isinstance(x, ast.Attribute) and x.attr == "__keyfile" for x in ast.walk(n.test)):
            for st in n.body:
                if isinstance(st, ast.Assign) and len(st.targets) == 1 and isinstance(st.targets[0], ast.Attribute) and st.targets[0].attr == "__keyfile" \
                        and isinstance(st.value, ast.Attribute) and st.value.attr == "__keyfile" and isinstance(st.targets[0].value, ast.Name) \
                        and isinstance(st.value.value, ast.Name) and not n.orelse and len(n.body) == 1:
                    hits.append((n, st.targets[0].value.id, st.value.value.id))
    # not the take-over inside _adopt_keyfiles itself
    hits = [(n, x, y) for n, x, y in hits if not (x == "self" and y == "previous" and "_adopt_keyfiles" in s)]
    if not hits:
        notes.append("core: key file take-over not found")
    for n, x, y in sorted(hits, key=lambda h: -h[0].lineno):
        ind = " " * n.col_offset
        new = [ind + "if isinstance(%s, Config):" % y,
               ind + "    # the sub-configuration being replaced (or one below it) named its own key file:",
               ind + "    # its secrets were encrypted with that key, so the new one keeps using it",
               ind + "    %s._adopt_keyfiles(%s)" % (x, y)]
        lines[n.lineno - 1:n.end_lineno] = new
    s = "\n".join(lines)
    if "def _adopt_keyfiles(" not in s:
        anchor = "    def __setattr__(self, name"
        import re as _re
        mcls = _re.search(r"^class Config\b\s*[:(]", s, _re.M)
        i = s.find(anchor, mcls.start()) if mcls else -1
        if i < 0:
            notes.append("core: no place for the method")
        else:
            s = s[:i] + METHOD + s[i:]
    return s, notes
