#!/bin/bash
# usage: revalidate.sh <seed>   -> prints: seed kind demo_on_head demo_with_patch
s=$1
wt=$(mktemp -d /tmp/reval-XXXXXX); rmdir $wt
git -C /repo worktree add -q --detach $wt HEAD 2>/dev/null || { echo "$s WORKTREE-FAIL"; exit; }
home=$(mktemp -d /tmp/revalhome-XXXXXX)
kind=$(python3 -c "import json;print(json.load(open('/verif/seeded/$s/meta.json')).get('kind') or 'breaking')")
cd $wt
HOME=$home PYTHONPATH=$wt timeout 600 /venv/bin/python /verif/seeded/$s/demo.py >/dev/null 2>&1; a=$?
if git apply /verif/seeded/$s/patch.diff 2>/dev/null; then
  HOME=$home PYTHONPATH=$wt timeout 600 /venv/bin/python /verif/seeded/$s/demo.py >/dev/null 2>&1; b=$?
else b=APPLYFAIL; fi
verdict=ok
if [ "$a" != 0 ]; then verdict=DEMO-FAILS-ON-HEAD; fi
if [ "$kind" = benign ] && [ "$b" != 0 ]; then verdict="$verdict BENIGN-DEMO-FAILS"; fi
if [ "$kind" != benign ] && [ "$b" = 0 ]; then verdict="$verdict BREAKING-DEMO-PASSES"; fi
echo "$s $kind head=$a patched=$b $verdict"
cd /tmp; git -C /repo worktree remove --force $wt 2>/dev/null; rm -rf $home
