#!/usr/bin/env python3
"""
Systematic AST mutation sweep: a way to find blind spots of the rules (exploration tool, not a
check).  For every function in the files a property is anchored in, apply small mutation
operators, run that property's check on a scratch copy, and -- for mutants no rule reports -- run
the pinned test suite, so that what is left is exactly "compiles, tests green, not reported": the
candidates worth a human look.

usage: tools/mutation_sweep.py PID [--max N] [--jobs 16] [--tests] [--out FILE]
"""
from __future__ import annotations

import ast
import copy
import io
import json
import os
import shutil
import subprocess
import sys
import tempfile
from concurrent.futures import ProcessPoolExecutor

HERE = os.path.dirname(os.path.dirname(os.path.abspath(__file__)))
sys.path.insert(0, HERE)
REPO = os.environ.get("REPO", "/repo")

CMP_SWAP = {ast.Lt: ast.LtE, ast.LtE: ast.Lt, ast.Gt: ast.GtE, ast.GtE: ast.Gt, ast.Eq: ast.NotEq, ast.NotEq: ast.Eq,
            ast.Is: ast.IsNot, ast.IsNot: ast.Is, ast.In: ast.NotIn, ast.NotIn: ast.In}


def is_docstring(st):
    return isinstance(st, ast.Expr) and isinstance(st.value, ast.Constant) and isinstance(st.value.value, str)


ONLY_LINES = None   # optional set of (start, end) line ranges of the functions to mutate


def mutants_of(tree: ast.Module):
    """yield (description, lineno, mutated tree)"""
    fns = [n for n in ast.walk(tree) if isinstance(n, (ast.FunctionDef, ast.AsyncFunctionDef))]
    if ONLY_LINES is not None:
        fns = [f for f in fns if (f.lineno, f.end_lineno) in ONLY_LINES]
    idx = 0
    for fn in fns:
        for node in ast.walk(fn):
            # statement-level
            for field in ("body", "orelse", "finalbody"):
                body = getattr(node, field, None)
                if not isinstance(body, list) or not body or not isinstance(body[0], ast.stmt):
                    continue
                for i, st in enumerate(body):
                    if is_docstring(st) or isinstance(st, (ast.FunctionDef, ast.ClassDef, ast.Import, ast.ImportFrom, ast.Pass)):
                        continue
                    yield ("delete %s" % type(st).__name__, st.lineno, ("del", id(node), field, i))
            if isinstance(node, ast.If):
                yield ("negate if", node.lineno, ("neg", id(node)))
            if isinstance(node, ast.Compare) and len(node.ops) == 1 and type(node.ops[0]) in CMP_SWAP:
                yield ("cmp %s->%s" % (type(node.ops[0]).__name__, CMP_SWAP[type(node.ops[0])].__name__), node.lineno, ("cmp", id(node)))
            if isinstance(node, ast.BoolOp):
                yield ("and<->or", node.lineno, ("bool", id(node)))
            if isinstance(node, ast.Call):
                if node.keywords:
                    for k in range(len(node.keywords)):
                        if node.keywords[k].arg:
                            yield ("drop kw %s" % node.keywords[k].arg, node.lineno, ("kw", id(node), k))
                if len(node.args) >= 2 and not any(isinstance(a, ast.Starred) for a in node.args):
                    yield ("swap args", node.lineno, ("swap", id(node)))
                if len(node.args) >= 1 and not any(isinstance(a, ast.Starred) for a in node.args):
                    yield ("drop last arg", node.lineno, ("droparg", id(node)))
            if isinstance(node, ast.Constant) and isinstance(node.value, int) and not isinstance(node.value, bool):
                yield ("int %r->%r" % (node.value, node.value + 1), node.lineno, ("int", id(node)))
            if isinstance(node, ast.Constant) and isinstance(node.value, bool):
                yield ("bool %r->%r" % (node.value, not node.value), node.lineno, ("boolc", id(node)))
            if isinstance(node, ast.Return) and node.value is not None and not (isinstance(node.value, ast.Constant) and node.value.value is None):
                yield ("return None", node.lineno, ("retnone", id(node)))
            if isinstance(node, ast.UnaryOp) and isinstance(node.op, ast.Not):
                yield ("drop not", node.lineno, ("dropnot", id(node)))


def apply(tree: ast.Module, spec):
    """apply mutation spec to a deep copy of tree; node identity is tracked through a parallel walk"""
    new = copy.deepcopy(tree)
    mapping = {}
    for a, b in zip(ast.walk(tree), ast.walk(new)):
        mapping[id(a)] = b
    kind = spec[0]
    node = mapping[spec[1]]
    if kind == "del":
        body = getattr(node, spec[2])
        st = body[spec[3]]
        body[spec[3]] = ast.copy_location(ast.Pass(), st)
    elif kind == "neg":
        node.test = ast.copy_location(ast.UnaryOp(op=ast.Not(), operand=node.test), node.test)
    elif kind == "cmp":
        node.ops = [CMP_SWAP[type(node.ops[0])]()]
    elif kind == "bool":
        node.op = ast.Or() if isinstance(node.op, ast.And) else ast.And()
    elif kind == "kw":
        del node.keywords[spec[2]]
    elif kind == "swap":
        node.args[0], node.args[1] = node.args[1], node.args[0]
    elif kind == "droparg":
        node.args.pop()
    elif kind == "int":
        node.value = node.value + 1
    elif kind == "boolc":
        node.value = not node.value
    elif kind == "retnone":
        node.value = ast.copy_location(ast.Constant(value=None), node.value)
    elif kind == "dropnot":
        # replace `not x` by `x` in the parent: emulate with double negation removal
        node.op = ast.UAdd() if False else node.op
        return None
    ast.fix_missing_locations(new)
    return new


def run_one(args):
    global ONLY_LINES
    pid, relfile, desc, lineno, spec_key, src_path, with_tests, only = args
    ONLY_LINES = only
    from engine.report import run_property
    from engine.model import AnalysisError
    from rules import registry
    tree = ast.parse(open(src_path, encoding="utf-8").read())
    spec = None
    for d, ln, sp in mutants_of(tree):
        if (d, ln, _key(sp, tree)) == (desc, lineno, spec_key):
            spec = sp
            break
    if spec is None:
        return None
    new = apply(tree, spec)
    if new is None:
        return None
    try:
        text = ast.unparse(new)
        compile(text, relfile, "exec")
    except Exception:
        return None
    tmp = tempfile.mkdtemp(prefix="cinco-mut-")
    try:
        shutil.copytree(os.path.join(REPO, "cincoconfig"), os.path.join(tmp, "cincoconfig"), ignore=shutil.ignore_patterns("__pycache__"))
        with open(os.path.join(tmp, relfile), "w", encoding="utf-8") as fp:
            fp.write(text)
        reg = registry()
        res = {"file": relfile, "line": lineno, "mutation": desc, "status": None}
        try:
            code, ctx, ev = run_property(pid, reg[pid].check, reg[pid].META, "quick", tmp, write_evidence=False, quiet=True, out=io.StringIO())
            res["status"] = "reported" if code == 1 else "silent"
            if code == 1:
                res["rules"] = sorted({o.rule for o in ctx.obligations if not o.ok and not o.known})[:4]
        except AnalysisError as err:
            res["status"] = "analysis-error"
            res["detail"] = str(err)[:100]
        except Exception as err:    # noqa
            res["status"] = "crash"
            res["detail"] = repr(err)[:200]
        if res["status"] == "silent" and with_tests:
            # tests need the rest of the repository: copy tests next to the mutated package
            shutil.copytree(os.path.join(REPO, "tests"), os.path.join(tmp, "tests"), ignore=shutil.ignore_patterns("__pycache__"))
            home = tempfile.mkdtemp(prefix="cinco-muthome-")
            try:
                r = subprocess.run("timeout -k 2 90 /venv/bin/python -m pytest -q -x -p no:cacheprovider --timeout=15 "
                                   "--deselect tests/test_schema.py::TestSchema::test_setattr_field 2>&1 | tail -1",
                                   shell=True, cwd=tmp, capture_output=True, text=True, env=dict(os.environ, HOME=home), timeout=120)
                out = r.stdout
            except subprocess.TimeoutExpired:
                out = "timeout"
            shutil.rmtree(home, ignore_errors=True)
            res["tests"] = "green" if " passed" in out and "failed" not in out and "error" not in out else "red"
        return res
    finally:
        shutil.rmtree(tmp, ignore_errors=True)


def _key(spec, tree):
    # stable key of a spec: kind + position of the node in walk order
    order = {id(n): i for i, n in enumerate(ast.walk(tree))}
    return (spec[0], order.get(spec[1]),) + tuple(spec[2:])


def main():
    import argparse
    ap = argparse.ArgumentParser()
    ap.add_argument("pid")
    ap.add_argument("--max", type=int, default=0)
    ap.add_argument("--jobs", type=int, default=16)
    ap.add_argument("--tests", action="store_true")
    ap.add_argument("--out")
    ap.add_argument("--files", nargs="*")
    ap.add_argument("--all-functions", action="store_true")
    a = ap.parse_args()
    props = {json.loads(l)["id"]: json.loads(l) for l in open(os.path.join(HERE, "properties.jsonl"))}
    files = a.files or [f for f in props[a.pid]["anchors"]["files"] if f.endswith(".py")]
    global ONLY_LINES
    # functions the property's rules actually look at: qualnames of the obligations in its evidence
    focus = None
    evp = os.path.join(HERE, "evidence", "%s.json" % a.pid)
    if not a.all_functions and os.path.exists(evp):
        ev = json.load(open(evp))
        quals = {smp["qualname"] for smp in ev["coverage"]["samples"]}
        from engine.model import Model
        model = Model(REPO)
        focus = {}
        for f in model.functions:
            top = f
            while top.parent is not None:
                top = top.parent
            if f.qualname in quals or top.qualname in quals or (f.cls is not None and f.cls.name in quals):
                if not isinstance(f.node, ast.Lambda):
                    focus.setdefault(f.module.relpath, set()).add((f.node.lineno, f.node.end_lineno))
        files = sorted(focus)
    jobs = []
    for rel in files:
        path = os.path.join(REPO, rel)
        if not os.path.exists(path):
            continue
        tree = ast.parse(open(path, encoding="utf-8").read())
        only = frozenset(focus[rel]) if focus is not None else None
        ONLY_LINES = only
        for desc, ln, spec in mutants_of(tree):
            jobs.append((a.pid, rel, desc, ln, _key(spec, tree), path, a.tests, only))
    ONLY_LINES = None
    if a.max and len(jobs) > a.max:
        import random
        random.Random(int(os.environ.get("VERIF_SEED", "0") or 0)).shuffle(jobs)
        jobs = jobs[:a.max]
    results = []
    with ProcessPoolExecutor(max_workers=a.jobs) as ex:
        for r in ex.map(run_one, jobs, chunksize=4):
            if r is not None:
                results.append(r)
    summary = {}
    for r in results:
        k = r["status"] + ("/" + r["tests"] if "tests" in r else "")
        summary[k] = summary.get(k, 0) + 1
    print(json.dumps({"property": a.pid, "mutants": len(results), "summary": summary}))
    cands = [r for r in results if r["status"] == "silent" and r.get("tests") == "green"]
    for r in sorted(cands, key=lambda r: (r["file"], r["line"])):
        print("SURVIVOR %s:%s %s" % (r["file"], r["line"], r["mutation"]))
    for r in results:
        if r["status"] in ("crash",):
            print("CRASH %s:%s %s %s" % (r["file"], r["line"], r["mutation"], r.get("detail")))
    if a.out:
        json.dump(results, open(a.out, "w"), indent=1)


if __name__ == "__main__":
    main()
