#!/usr/bin/env python3
"""Regenerate MANIFEST.json from the rule registry (rules/cXX.py META) and properties.jsonl."""
import json
import os
import sys

HERE = os.path.dirname(os.path.dirname(os.path.abspath(__file__)))
sys.path.insert(0, HERE)
from rules import registry  # noqa: E402

props = [json.loads(l) for l in open(os.path.join(HERE, "properties.jsonl"))]
reg = registry()
NA = {}
na_path = os.path.join(HERE, "tools", "not_applicable.json")
if os.path.exists(na_path):
    NA = json.load(open(na_path))

checks = []
not_app = []
for p in props:
    pid = p["id"]
    if pid in reg:
        meta = reg[pid].META
        checks.append({
            "property_id": pid,
            "quick_cmd": "./check %s" % pid,
            "thorough_cmd": "./check %s --tier thorough" % pid,
            "evidence_file": "/verif/evidence/%s.json" % pid,
            "replay_cmd_template": "./check %s --replay {path}" % pid,
            "engine": "static-engine",
            "technique": meta.get("technique", "static analysis: interprocedural event/ordering rules over a CFG + class-hierarchy call graph built from /repo's ast"),
            "level_claimed": {
                "category": "other",
                "text": ("Static, clause-level: decides for ALL inputs the structural clauses listed (each a necessary "
                         "condition of the property, exhaustively enumerated from the parsed source on every run); does NOT "
                         "decide the value-level remainder. Decided: " + "; ".join(meta["decided"]) +
                         ". Not decided: " + "; ".join(meta["not_decided"]) + "."),
                "design_ref": "DESIGN.md section 4 (%s)" % pid,
            },
            "level_note": "Assumptions A1-A5 of DESIGN.md 2.4 (Python semantics as modelled, no monkey-patching / user callables "
                          "outside, primitive container ops do not raise, documented behaviour of externals, CHA over-approximates "
                          "dispatch). Trusted base: CPython ast + /verif/engine.",
        })
    else:
        not_app.append({"property_id": pid, "reason": NA.get(pid, "check not built yet; planned structural clauses in DESIGN.md section 4")})

manifest = {
    "version": 1,
    "setup_cmd": "true",
    "hooks": {
        "guard": "AMEILY_CINCOCONFIG_VERIF",
        "enable": "none needed: checks are static, parse /repo/cincoconfig on every run and never import or execute it",
        "baseline_off_cmd": "cd /repo && /venv/bin/python -m pytest -ra -q -p no:cacheprovider --timeout=900 --continue-on-collection-errors",
        "source_commits": [],
        "add_only": True,
    },
    "engines": [{
        "name": "static-engine",
        "path": "/verif/engine",
        "serves_properties": [c["property_id"] for c in checks],
        "kind_free_text": "custom static analyser for cincoconfig: ast program model (C3 MRO, name mangling, constants), hand-built "
                          "CFG with exception edges, flow-sensitive annotation-driven typing + CHA call resolution, reaching "
                          "definitions, typed exception-escape analysis, access-path event summaries, ORDER/DOM/AGREE/OVERRIDE/"
                          "DISPATCH rule kinds; per-property rule tables in /verif/rules",
    }],
    "checks": checks,
    "not_applicable": not_app,
    "notes": "Every check re-parses /repo/cincoconfig; exit 0 holds / 1 VIOLATION / 2 ANALYSIS-ERROR. Known findings in KNOWN_FINDINGS.txt.",
}
json.dump(manifest, open(os.path.join(HERE, "MANIFEST.json"), "w"), indent=1)
print("checks:", [c["property_id"] for c in checks], "n/a:", [n["property_id"] for n in not_app])
