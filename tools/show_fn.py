#!/usr/bin/env python3
"""Print the normalised source of functions (after the inlining pass) of /repo or of /repo + patch.
usage: tools/show_fn.py [--patch P] Qual.name ..."""
import ast, os, shutil, subprocess, sys, tempfile
HERE = os.path.dirname(os.path.dirname(os.path.abspath(__file__)))
sys.path.insert(0, HERE)
from engine.selftest import package_part
from engine.model import Model
args = sys.argv[1:]
patch = None
if args and args[0] == "--patch":
    patch = os.path.abspath(args[1]); args = args[2:]
tmp = tempfile.mkdtemp(prefix="cinco-show-")
try:
    shutil.copytree("/repo/cincoconfig", os.path.join(tmp, "cincoconfig"), ignore=shutil.ignore_patterns("__pycache__"))
    if patch:
        subprocess.run(["patch", "-p1", "-s"], input=package_part(patch), text=True, cwd=tmp, check=True)
    m = Model(tmp)
    for q in args:
        for fn in m.functions:
            if fn.qualname == q or fn.qualname.endswith("." + q):
                print("#", fn.qualname); print(ast.unparse(fn.node)); print()
finally:
    shutil.rmtree(tmp, ignore_errors=True)
