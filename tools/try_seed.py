#!/usr/bin/env python3
"""Apply a patch to a scratch copy of /repo's package and run the checks against it.

usage: tools/try_seed.py <patch.diff> [PID ...]      (default: all properties)
Prints, per property, the exit status and the violated rule instances.  The scratch copy lives in
a mkdtemp directory and is removed afterwards; /repo is never touched.
"""
import io
import os
import shutil
import subprocess
import sys
import tempfile

HERE = os.path.dirname(os.path.dirname(os.path.abspath(__file__)))
sys.path.insert(0, HERE)
from engine.selftest import package_part


def main():
    patch = os.path.abspath(sys.argv[1])
    pids = [p.upper() for p in sys.argv[2:]]
    repo = os.environ.get("REPO", "/repo")
    tmp = tempfile.mkdtemp(prefix="cinco-seed-")
    try:
        shutil.copytree(os.path.join(repo, "cincoconfig"), os.path.join(tmp, "cincoconfig"),
                        ignore=shutil.ignore_patterns("__pycache__"))
        r = subprocess.run(["patch", "-p1", "-s"], input=package_part(patch), cwd=tmp, capture_output=True, text=True)
        if r.returncode != 0:
            print("PATCH-FAILED", r.stdout, r.stderr)
            return 3
        from engine.report import run_property
        from engine.model import AnalysisError
        from rules import registry
        reg = registry()
        fired = {}
        for pid in (pids or sorted(reg)):
            buf = io.StringIO()
            try:
                code, ctx, ev = run_property(pid, reg[pid].check, reg[pid].META, "quick", tmp, write_evidence=False, quiet=True, out=buf)
            except AnalysisError as err:
                print("%s ANALYSIS-ERROR %s" % (pid, err))
                fired[pid] = "error"
                continue
            except Exception as err:    # noqa
                import traceback
                traceback.print_exc()
                print("%s CRASH %s" % (pid, err))
                fired[pid] = "crash"
                continue
            if code == 1:
                fired[pid] = [o for o in ctx.obligations if not o.ok and not o.known]
                for o in fired[pid]:
                    print("%s VIOLATION %s @ %s (%s): %s" % (pid, o.rule, o.qualname, o.site, o.why[:160]))
        print("FIRED:", sorted(fired) if fired else "none")
        return 0
    finally:
        shutil.rmtree(tmp, ignore_errors=True)


if __name__ == "__main__":
    sys.exit(main())
