#!/bin/bash
# usage: tools/tab_benign.sh <pattern>   -- run all checks on the matching benign seeds, print alarms
cd "$(dirname "$0")/.."
ls seeded | grep -E "$1" | xargs -P 12 -I{} sh -c '/venv/bin/python -B tools/try_seed.py seeded/{}/patch.diff 2>&1 | grep "VIOLATION\|ANALYSIS-ERROR\|CRASH" | sed -E "s/ \(cincoconfig[^)]*\)//" | cut -c1-170 | sed "s/^/{} /"'
