#!/usr/bin/env python3
"""Re-run every check against every stored seeded change and record the current outcome in its meta.json
(fields `now`: fired properties / rules today; the first-run fields are left as they were)."""
import json, os, subprocess, sys
from concurrent.futures import ThreadPoolExecutor
HERE = os.path.dirname(os.path.dirname(os.path.abspath(__file__)))


def one(name):
    d = os.path.join(HERE, "seeded", name)
    r = subprocess.run(["/venv/bin/python", "-B", os.path.join(HERE, "tools", "try_seed.py"), os.path.join(d, "patch.diff")],
                       capture_output=True, text=True)
    lines = [l for l in r.stdout.splitlines() if " VIOLATION " in l or "ANALYSIS-ERROR" in l or "CRASH" in l]
    meta = json.load(open(os.path.join(d, "meta.json")))
    own = meta.get("breaks_property") or meta.get("exercises_property")
    fired = sorted({l.split()[0] for l in lines})
    meta["now"] = {"fired_properties": fired,
                   "own_property_rules": sorted({l.split()[2] for l in lines if l.startswith(own + " VIOLATION")}),
                   "own_property_reports": own in fired and any(l.startswith(own + " VIOLATION") for l in lines)}
    if meta.get("kind") == "benign":
        meta["now"]["silent"] = not fired
    json.dump(meta, open(os.path.join(d, "meta.json"), "w"), indent=1)
    return name, own, fired


def main():
    names = sorted(n for n in os.listdir(os.path.join(HERE, "seeded")) if os.path.exists(os.path.join(HERE, "seeded", n, "patch.diff")))
    with ThreadPoolExecutor(12) as ex:
        for name, own, fired in ex.map(one, names):
            print(name, own, fired)


if __name__ == "__main__":
    main()
