#!/bin/bash
# usage: tools/store_round.sh <seed dir root> <round tag> <Cxx> <letter> [--benign]
# confirms one seeded change with tools/eval_seed.py and stores it as seeded/<Cxx>-<tag><letter>
root=$1; tag=$2; p=$3; l=$4; shift 4
d=$root/$p
needs=$(python3 - "$d/$l.md" <<'PY'
import re,sys
try:
    t=open(sys.argv[1]).read()
except OSError:
    t=""
m=re.search(r"Needs to manifest:?\s*(.*?)(?:\n\S+:|\n\n|\Z)", t, re.S|re.I)
print(" ".join((m.group(1) if m else "").split())[:400])
PY
)
cd "$(dirname "$0")/.."
/venv/bin/python -B tools/eval_seed.py $p $d/$l.diff $d/${l}_demo.py --keep $p-$tag$l "$@" --needs "$needs" > $d/$l.eval.json 2>&1
python3 - "$d/$l.eval.json" "$p" "$l" <<'PY'
import json,sys,re
t=open(sys.argv[1]).read()
try:
    j=json.loads(t[t.index("{"):t.rindex("}")+1])
    print(sys.argv[2], sys.argv[3], "confirmed" if j.get("confirmed") else "NOT-CONFIRMED", "tests=%s" % j.get("tests"), "demo0=%s demo1=%s" % (j.get("demo_unchanged_exit"), j.get("demo_changed_exit")), "fired=%s" % j.get("fired_properties"))
except Exception as e:
    print(sys.argv[2], sys.argv[3], "EVAL-ERROR", t[-300:])
PY
