#!/usr/bin/env python3
"""usage: tools/dbg_seed.py <patch> <python expression over (an, model, STATE, CALLS)>"""
import os, shutil, subprocess, sys, tempfile, ast
HERE = os.path.dirname(os.path.dirname(os.path.abspath(__file__)))
sys.path.insert(0, HERE)
from engine.selftest import package_part
tmp = tempfile.mkdtemp(prefix="cinco-dbg-")
try:
    shutil.copytree("/repo/cincoconfig", os.path.join(tmp, "cincoconfig"), ignore=shutil.ignore_patterns("__pycache__"))
    if sys.argv[1] != "-":
        subprocess.run(["patch", "-p1", "-s"], input=package_part(os.path.abspath(sys.argv[1])), text=True, cwd=tmp, check=True)
    from engine.model import Model
    from engine.effects import Analysis
    from rules.common import STATE, CALLS
    from engine.defuse import value_sources, reaching_defs
    model = Model(tmp); an = Analysis(model)
    exec(open(sys.argv[2]).read() if os.path.exists(sys.argv[2]) else sys.argv[2])
finally:
    shutil.rmtree(tmp, ignore_errors=True)
