#!/usr/bin/env python3
"""Confirm a seeded change and run the checks against it.

usage: tools/eval_seed.py <PID> <patch.diff> <demo.py> [--keep NAME]

1. creates a scratch git worktree of /repo (outside /repo and /verif), 2. runs the demo on the
unchanged tree (must exit 0), 3. applies the patch, runs the pinned test suite (must be the baseline:
1 failed / 477 passed) and the demo (must exit non-zero), 4. runs every check against the patched
tree, 5. removes the worktree.  With --keep the patch, demo and a meta.json are stored under
/verif/seeded/<NAME>/.
"""
import json
import os
import re
import shutil
import subprocess
import sys
import tempfile

HERE = os.path.dirname(os.path.dirname(os.path.abspath(__file__)))


def sh(cmd, cwd=None, env=None, timeout=600):
    e = dict(os.environ)
    e.update(env or {})
    r = subprocess.run(cmd, shell=True, cwd=cwd, env=e, capture_output=True, text=True, timeout=timeout)
    return r.returncode, (r.stdout + r.stderr)


def main():
    pid, patch, demo = sys.argv[1], os.path.abspath(sys.argv[2]), os.path.abspath(sys.argv[3])
    keep = sys.argv[sys.argv.index("--keep") + 1] if "--keep" in sys.argv else None
    needs = sys.argv[sys.argv.index("--needs") + 1] if "--needs" in sys.argv else ""
    benign = "--benign" in sys.argv
    wt = tempfile.mkdtemp(prefix="cinco-evalwt-")
    os.rmdir(wt)
    home = tempfile.mkdtemp(prefix="cinco-home-")
    res = {"property": pid, "patch": os.path.basename(patch), "demo": os.path.basename(demo)}
    try:
        rc, out = sh("git -C /repo worktree add -q --detach %s HEAD" % wt)
        if rc:
            print(out)
            return 2
        res["base_commit"] = sh("git -C /repo rev-parse --short HEAD")[1].strip()
        rc0, out0 = sh("/venv/bin/python %s" % demo, cwd=wt, env={"HOME": home, "PYTHONPATH": wt})
        res["demo_unchanged_exit"] = rc0
        rca, outa = sh("git apply %s" % patch, cwd=wt)
        if rca:
            # written against an older HEAD: three-way merge, and keep the re-based diff
            rca, outa = sh("git apply --3way %s" % patch, cwd=wt)
            if rca == 0:
                sh("git reset -q", cwd=wt)
                _, rebased = sh("git diff", cwd=wt)
                patch_rebased = patch + ".rebased"
                open(patch_rebased, "w").write(rebased)
                res["rebased"] = True
                patch = patch_rebased
        res["apply_exit"] = rca
        if rca:
            print("patch does not apply:", outa)
        rct, outt = sh("/venv/bin/python -m pytest -q -p no:cacheprovider 2>&1 | tail -3", cwd=wt, env={"HOME": home})
        m = re.search(r"(\d+) failed, (\d+) passed", outt)
        res["tests"] = m.group(0) if m else outt.strip()[-200:]
        rc1, out1 = sh("/venv/bin/python %s" % demo, cwd=wt, env={"HOME": home, "PYTHONPATH": wt})
        res["demo_changed_exit"] = rc1
        res["demo_changed_tail"] = out1.strip()[-300:]
        rcc, outc = sh("/venv/bin/python -B %s/tools/try_seed.py %s" % (HERE, patch))
        fired = [l for l in outc.splitlines() if " VIOLATION " in l or "ANALYSIS-ERROR" in l or "CRASH" in l]
        res["checks_fired"] = fired
        res["fired_properties"] = sorted({l.split()[0] for l in fired})
        if benign:
            res["confirmed"] = (rc0 == 0 and rca == 0 and rc1 == 0 and res["tests"] == "1 failed, 477 passed")
        else:
            res["confirmed"] = (rc0 == 0 and rca == 0 and rc1 != 0 and res["tests"] == "1 failed, 477 passed")
        res["kind"] = "benign" if benign else "breaking"
        res["detected_by_own_property"] = pid in res["fired_properties"]
        print(json.dumps(res, indent=1))
        if keep and res["confirmed"]:
            d = os.path.join(HERE, "seeded", keep)
            os.makedirs(d, exist_ok=True)
            shutil.copy(patch, os.path.join(d, "patch.diff"))
            shutil.copy(demo, os.path.join(d, "demo.py"))
            md = patch.replace(".rebased", "")[:-5] + ".md"
            if os.path.exists(md):
                shutil.copy(md, os.path.join(d, "notes.md"))
            meta = {
                "id": keep, "kind": "benign" if benign else "breaking",
                ("exercises_property" if benign else "breaks_property"): pid, "needs_to_manifest": needs,
                "source": "independent sub-agent given only the property text and a scratch worktree",
                "base_commit": res["base_commit"],
                "what_was_run": {
                    "demo on unchanged tree": "exit %d" % rc0,
                    "pinned test suite with the change": res["tests"],
                    "demo with the change": "exit %d" % rc1,
                    "checks against the patched tree (tools/try_seed.py)": res["fired_properties"] or "none fired",
                },
                "detected": bool(res["fired_properties"]),
                "expected": "silent (behaviour-preserving refactor)" if benign else "reported",
                "detected_by": fired,
            }
            json.dump(meta, open(os.path.join(d, "meta.json"), "w"), indent=1)
        return 0
    finally:
        sh("git -C /repo worktree remove --force %s" % wt)
        shutil.rmtree(wt, ignore_errors=True)
        shutil.rmtree(home, ignore_errors=True)


if __name__ == "__main__":
    sys.exit(main())
