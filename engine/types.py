"""
Annotation-driven, flow-sensitive local type inference and callee resolution (class-hierarchy
analysis).  Deliberately small: it knows the idioms this package uses and says "unknown" (ANY)
for everything else, which rules then treat conservatively.

Types are frozensets of *atoms* or the string ``ANY``.  Atoms:
    'Config', 'dict', 'NoneType', ...          class names (package or builtin)
    ('dict', K, V) ('list', E) ('set', E) ('iter', E) ('tuple', (T, ...))    containers
    ('type', 'Config')                           the class object itself (and subclasses)
    ('func', FunctionInfo)                       a package function object
    ('bound', FunctionInfo)                      bound method object
    ('callable', R)                              opaque callable returning R
    ('module', dotted) / ('ext', dotted)         modules / external objects
"""
from __future__ import annotations

import ast
from typing import Dict, FrozenSet, Iterable, List, Optional, Set, Tuple, Union

from .cfg import CFG, Node, build_cfg
from .model import (AnalysisError, BUILTIN_CLASSES, ClassInfo, FunctionInfo, Model, ModuleInfo,
                    builtin_ancestors)

ANY = "ANY"
NONE = "NoneType"


def T(*atoms):
    return frozenset(atoms)


def join(a, b):
    if a == ANY or b == ANY:
        return ANY
    return a | b


def join_all(ts):
    out = frozenset()
    for t in ts:
        out = join(out, t)
        if out == ANY:
            return ANY
    return out


def atom_base(atom) -> Optional[str]:
    if isinstance(atom, str):
        return atom
    if isinstance(atom, tuple) and atom[0] in ("dict", "list", "set", "tuple", "iter"):
        return atom[0] if atom[0] != "iter" else None
    return None


# distinctive names: defined by the package and not a method of builtin containers / str / files,
# so a name-based fallback on an untyped receiver is meaningful
COLLIDING = set(dir(list)) | set(dir(dict)) | set(dir(str)) | set(dir(bytes)) | set(dir(set)) | {
    "read", "write", "close", "decode", "encode", "match", "search", "group", "digest",
    "hexdigest", "finalize", "update", "get", "items", "values", "keys",
}


class Target:
    """A resolved callee."""
    __slots__ = ("kind", "fn", "name", "cls", "via")

    def __init__(self, kind, fn=None, name=None, cls=None, via=None):
        self.kind = kind    # 'fn' | 'ctor' | 'ext' | 'builtin_method' | 'user' | 'unknown'
        self.fn: Optional[FunctionInfo] = fn
        self.name: Optional[str] = name
        self.cls = cls
        self.via = via

    def __repr__(self):
        if self.kind == "fn":
            return "fn:%s" % self.fn.qualname
        if self.kind == "ctor":
            return "ctor:%s" % (self.cls.name if isinstance(self.cls, ClassInfo) else self.cls)
        return "%s:%s" % (self.kind, self.name)

    def key(self):
        return (self.kind, id(self.fn) if self.fn else None, self.name,
                self.cls.name if isinstance(self.cls, ClassInfo) else self.cls)


EXT_RETURNS = {
    "builtins.len": T("int"), "builtins.str": T("str"), "builtins.int": T("int"),
    "builtins.float": T("float"), "builtins.bool": T("bool"), "builtins.bytes": T("bytes"),
    "builtins.bytearray": T("bytearray"), "builtins.isinstance": T("bool"),
    "builtins.issubclass": T("bool"), "builtins.callable": T("bool"),
    "builtins.repr": T("str"), "builtins.all": T("bool"), "builtins.any": T("bool"),
    "builtins.open": T("file"), "os.urandom": T("bytes"), "os.path.expanduser": T("str"),
    "os.path.join": T("str"), "os.path.abspath": T("str"), "os.path.exists": T("bool"),
    "os.path.isabs": T("bool"), "os.path.isdir": T("bool"), "os.path.isfile": T("bool"),
    "base64.b64encode": T("bytes"), "base64.b64decode": T("bytes"),
    "builtins.bytes.fromhex": T("bytes"), "json.dumps": T("str"), "pickle.dumps": T("bytes"),
    "builtins.type": ANY, "builtins.vars": T(("dict", T("str"), ANY)),
    "builtins.reversed": T(("iter", ANY)), "builtins.zip": T(("iter", ANY)),
    "builtins.range": T(("iter", T("int"))), "builtins.enumerate": T(("iter", ANY)),
    "inspect.isclass": T("bool"), "argparse.ArgumentParser": T("ArgumentParser"),
    "collections.OrderedDict": T(("dict", ANY, ANY)),
    "builtins.OrderedDict": T(("dict", ANY, ANY)),
    "builtins.set": T(("set", ANY)),
}

BUILTIN_VALUE_TYPES = {"str", "bytes", "int", "float", "bool", "file", "bytearray", "tuple"}

BUILTIN_METHOD_RETURNS = {
    ("str", "strip"): T("str"), ("str", "lower"): T("str"), ("str", "upper"): T("str"),
    ("str", "encode"): T("bytes"), ("bytes", "decode"): T("str"), ("str", "replace"): T("str"),
    ("str", "join"): T("str"), ("bytes", "hex"): T("str"), ("str", "format"): T("str"),
    ("str", "startswith"): T("bool"), ("str", "endswith"): T("bool"),
    ("file", "read"): T("bytes", "str"),
}


class Types:
    def __init__(self, model: Model):
        self.model = model
        self._fn: Dict[int, "FnTypes"] = {}
        self._attr_cache: Dict[Tuple[str, str], object] = {}
        self._ret_cache: Dict[int, object] = {}
        self._in_progress: Set = set()
        self.stats = {"calls": 0, "resolved": 0, "external": 0, "user": 0, "unknown": 0,
                      "fallback_by_name": 0}
        self.unknown_calls: List[str] = []

    def of(self, fn: FunctionInfo) -> "FnTypes":
        ft = self._fn.get(id(fn))
        if ft is None:
            ft = FnTypes(self, fn)
            self._fn[id(fn)] = ft
            ft.run()
        return ft

    # ------------------------------------------------------------- class relations
    def cls_atom(self, name: str):
        return name

    def is_sub(self, a: str, b: str) -> bool:
        """class-name a is a (non-strict) subclass of class-name b"""
        if a == b or b == "object":
            return True
        ca = self.model.classes.get(a)
        if ca is not None:
            for k in ca.mro:
                kn = k.name if isinstance(k, ClassInfo) else k
                if kn == b:
                    return True
            return False
        return b in builtin_ancestors(a)

    def have_common_subclass(self, a: str, b: str) -> bool:
        for c in self.model.classes.values():
            if self.is_sub(c.name, a) and self.is_sub(c.name, b):
                return True
        return False

    # ------------------------------------------------------------- annotations
    def ann(self, module: ModuleInfo, node: Optional[ast.expr], _depth=0):
        """Annotation AST -> type."""
        if node is None or _depth > 8:
            return ANY
        if isinstance(node, ast.Constant):
            if node.value is None:
                return T(NONE)
            if isinstance(node.value, str):
                try:
                    sub = ast.parse(node.value, mode="eval").body
                except SyntaxError:
                    return ANY
                return self.ann(module, sub, _depth + 1)
            return ANY
        if isinstance(node, ast.Name):
            n = node.id
            if n == "Any":
                return ANY
            if n in ("Callable",):
                return T(("callable", ANY))
            if n in ("List", "list"):
                return T(("list", ANY))
            if n in ("Dict", "dict", "OrderedDict"):
                return T(("dict", ANY, ANY))
            if n in ("Set", "set"):
                return T(("set", ANY))
            if n in ("Tuple", "tuple"):
                return T(("tuple", None))
            if n in ("Iterable", "Iterator", "Sequence"):
                return T(("iter", ANY))
            if n == "Type" or n == "type":
                return T(("type", "object"))
            r = self.model.resolve_name(module, n)
            if r is None:
                return ANY
            if r[0] == "class":
                return T(r[1].name)
            if r[0] == "builtin":
                return T(r[1])
            if r[0] == "const":
                # type alias: X = Union[...]/Callable[...]
                sts = r[1].assigns.get(r[2], [])
                for st in sts:
                    if isinstance(st, ast.Assign):
                        return self.ann(r[1], st.value, _depth + 1)
                return ANY
            if r[0] == "ext":
                last = r[1].split(".")[-1]
                if last in ("ArgumentParser", "Namespace"):
                    return T(last)
                return ANY
            return ANY
        if isinstance(node, ast.Attribute):
            r = self.model.resolve_expr_static(module, node)
            if r and r[0] == "class":
                return T(r[1].name)
            return ANY
        if isinstance(node, ast.Subscript):
            head = node.value
            hn = head.id if isinstance(head, ast.Name) else (head.attr if isinstance(head, ast.Attribute) else None)
            args = node.slice.elts if isinstance(node.slice, ast.Tuple) else [node.slice]
            if hn == "Optional":
                return join(self.ann(module, args[0], _depth + 1), T(NONE))
            if hn == "Union":
                return join_all(self.ann(module, a, _depth + 1) for a in args)
            if hn in ("List", "list", "Sequence"):
                return T(("list", self.ann(module, args[0], _depth + 1)))
            if hn in ("Set", "set"):
                return T(("set", self.ann(module, args[0], _depth + 1)))
            if hn in ("Iterable", "Iterator"):
                return T(("iter", self.ann(module, args[0], _depth + 1)))
            if hn in ("Dict", "dict", "OrderedDict"):
                if len(args) == 2:
                    return T(("dict", self.ann(module, args[0], _depth + 1),
                              self.ann(module, args[1], _depth + 1)))
                return T(("dict", ANY, ANY))
            if hn in ("Tuple", "tuple"):
                if len(args) == 2 and isinstance(args[1], ast.Constant) and args[1].value is Ellipsis:
                    return T(("tuple", None))
                return T(("tuple", tuple(self.ann(module, a, _depth + 1) for a in args)))
            if hn in ("Type", "type"):
                inner = self.ann(module, args[0], _depth + 1)
                if inner == ANY:
                    return T(("type", "object"))
                return frozenset(("type", a) for a in inner if isinstance(a, str))
            if hn == "Callable":
                ret = self.ann(module, args[-1], _depth + 1) if args else ANY
                return T(("callable", ret))
            if hn == "ClassVar":
                return self.ann(module, args[0], _depth + 1)
            return ANY
        return ANY

    # ------------------------------------------------------------- attribute types
    def attr_type(self, clsname: str, attr: str):
        """Type of ``<instance of clsname>.attr`` (not narrowed)."""
        key = (clsname, attr)
        if key in self._attr_cache:
            return self._attr_cache[key]
        if key in self._in_progress:
            return ANY
        self._in_progress.add(key)
        try:
            t = self._attr_type(clsname, attr)
        finally:
            self._in_progress.discard(key)
        self._attr_cache[key] = t
        return t

    def _attr_type(self, clsname, attr):
        c = self.model.classes.get(clsname)
        if c is None:
            return ANY
        if c.namedtuple_fields is not None and attr in c.namedtuple_fields:
            return ANY
        found = []
        # look in this class and its bases; also in subclasses' stores (an attribute first
        # assigned in a subclass is visible on a receiver typed as the base)
        for k in c.package_mro():
            if attr in k.methods:
                fn = k.methods[attr]
                if fn.is_property:
                    return self.return_type(fn)
                return T(("bound", fn))
            if attr in k.class_annotations:
                found.append(self.ann(k.module, k.class_annotations[attr]))
                break
            if attr in k.class_attrs:
                try:
                    v = self.model.const_eval(k.module, k.class_attrs[attr], k)
                    found.append(self.type_of_const(v))
                except ValueError:
                    found.append(ANY)
                # instance stores may shadow the class attribute: keep looking at stores too
            stores = self.instance_stores(k, attr)
            if stores:
                found.extend(stores)
                break
        if not found:
            for b in c.builtin_bases():
                if b in ("list", "dict") and attr in dir({"list": list, "dict": dict}[b]):
                    return T(("cmethod", (b, ANY, ANY) if b == "dict" else (b, ANY), attr))
        if not found:
            for k in c.subclasses(strict=True):
                stores = self.instance_stores(k, attr)
                found.extend(stores)
            if not found and c.namedtuple_fields is None:
                for k in c.package_mro():
                    if k.namedtuple_fields and attr in k.namedtuple_fields:
                        return ANY
        if not found:
            return ANY
        return join_all(found)

    def instance_stores(self, k: ClassInfo, attr: str):
        out = []
        mang = k.mangle(attr) if attr.startswith("__") else attr
        for fn in list(k.methods.values()) + list(k.setters.values()):
            sn = fn.self_name
            if sn is None:
                continue
            for n in ast.walk(fn.node):
                tgt = None
                val = None
                ann = None
                if isinstance(n, ast.Assign):
                    for t in n.targets:
                        if (isinstance(t, ast.Attribute) and isinstance(t.value, ast.Name)
                                and t.value.id == sn and t.attr == attr):
                            tgt, val = t, n.value
                        # chained: a = self.x = v
                elif isinstance(n, ast.AnnAssign):
                    t = n.target
                    if (isinstance(t, ast.Attribute) and isinstance(t.value, ast.Name)
                            and t.value.id == sn and t.attr == attr):
                        tgt, val, ann = t, n.value, n.annotation
                if tgt is None:
                    continue
                if ann is not None:
                    out.append(self.ann(fn.module, ann))
                    continue
                # type comment "# type: Optional[KeyFile]" is not visible in the AST; use value
                ft = self.of(fn) if id(fn) in self._fn else None
                if ft is None:
                    # avoid running full inference recursively: evaluate in the entry env
                    ft = FnTypes(self, fn)
                    env = ft.initial_env()
                    out.append(ft.type_of(val, env))
                else:
                    nodes = ft.cfg.nodes_for(n)
                    env = ft.env_in.get(nodes[0], {}) if nodes else ft.initial_env()
                    out.append(ft.type_of(val, env))
        return out

    def type_of_const(self, v):
        if v is None:
            return T(NONE)
        if isinstance(v, bool):
            return T("bool")
        if isinstance(v, int):
            return T("int")
        if isinstance(v, float):
            return T("float")
        if isinstance(v, str):
            return T("str")
        if isinstance(v, bytes):
            return T("bytes")
        if isinstance(v, tuple):
            return T(("tuple", None))
        if isinstance(v, list):
            return T(("list", ANY))
        if isinstance(v, dict):
            return T(("dict", ANY, ANY))
        return ANY

    # ------------------------------------------------------------- return types
    def return_type(self, fn: FunctionInfo):
        key = id(fn)
        if key in self._ret_cache:
            return self._ret_cache[key]
        if ("ret", key) in self._in_progress:
            return ANY
        self._in_progress.add(("ret", key))
        try:
            node = fn.node
            t = None
            if not isinstance(node, ast.Lambda) and node.returns is not None:
                t = self.ann(fn.module, node.returns)
            if t is None or t == ANY:
                ft = self.of(fn)
                rets = []
                for n in ft.cfg.nodes:
                    if n.kind == "return":
                        if n.ast.value is None:
                            rets.append(T(NONE))
                        else:
                            rets.append(ft.type_at(n, n.ast.value))
                if any(p.kind not in ("return",) for p in ft.cfg.exit.pred):
                    rets.append(T(NONE))
                t = join_all(rets) if rets else T(NONE)
        finally:
            self._in_progress.discard(("ret", key))
        self._ret_cache[key] = t
        return t

    # ------------------------------------------------------------- CHA
    def cha(self, clsname: str, meth: str) -> List[FunctionInfo]:
        """Definitions a call ``x.meth()`` may dispatch to when x: clsname (or a subclass)."""
        c = self.model.classes.get(clsname)
        if c is None:
            return []
        out = []
        top = c.lookup(meth)
        if top is not None:
            out.append(top)
        for k in c.subclasses(strict=True):
            f = k.methods.get(meth)
            if f is not None and f not in out:
                out.append(f)
            else:
                # a subclass may inherit the method from another branch (mixins)
                f2 = k.lookup(meth)
                if f2 is not None and f2 not in out:
                    out.append(f2)
        return out

    def by_name(self, meth: str) -> List[FunctionInfo]:
        out = []
        for c in self.model.classes.values():
            f = c.methods.get(meth)
            if f is not None:
                out.append(f)
        return out


class FnTypes:
    """Flow-sensitive type environments for one function."""

    def __init__(self, types: Types, fn: FunctionInfo):
        self.types = types
        self.model = types.model
        self.fn = fn
        self.cfg: CFG = build_cfg(fn)
        self.env_in: Dict[Node, Dict[str, object]] = {}
        self._call_cache: Dict[int, List[Target]] = {}

    # ------------------------------------------------------------- environments
    def initial_env(self) -> Dict[str, object]:
        env: Dict[str, object] = {}
        fn = self.fn
        if fn.parent is not None:
            pt = self.types.of(fn.parent) if id(fn.parent) in self.types._fn else None
            if pt is None:
                p = FnTypes(self.types, fn.parent)
                env.update(p.initial_env())
            else:
                merged: Dict[str, object] = {}
                for e in pt.env_in.values():
                    for k, v in e.items():
                        merged[k] = join(merged[k], v) if k in merged else v
                env.update(merged)
        if isinstance(fn.node, ast.Lambda):
            for a in fn.params:
                env[a.arg] = ANY
            return env
        args = fn.node.args
        for a in fn.params:
            env[a.arg] = self.types.ann(fn.module, a.annotation) if a.annotation is not None else ANY
        if args.vararg:
            env[args.vararg.arg] = T(("tuple", None))
        if args.kwarg:
            env[args.kwarg.arg] = T(("dict", T("str"), ANY))
        # parameters with a None default are Optional
        pos = list(args.posonlyargs) + list(args.args)
        for a, d in zip(pos[len(pos) - len(args.defaults):], args.defaults):
            if isinstance(d, ast.Constant) and d.value is None and env.get(a.arg, ANY) != ANY:
                env[a.arg] = join(env[a.arg], T(NONE))
        for a, d in zip(args.kwonlyargs, args.kw_defaults):
            if d is not None and isinstance(d, ast.Constant) and d.value is None and env.get(a.arg, ANY) != ANY:
                env[a.arg] = join(env[a.arg], T(NONE))
        sn = fn.self_name
        if sn is not None and fn.cls is not None:
            if fn.is_classmethod:
                env[sn] = T(("type", fn.cls.name))
            else:
                env[sn] = T(fn.cls.name)
        return env

    def run(self):
        g = self.cfg
        self.env_in = {g.entry: self.initial_env()}
        work = [g.entry]
        count = 0
        while work:
            n = work.pop()
            count += 1
            if count > 200000:
                raise AnalysisError("type inference does not converge in %s" % self.fn.qualname)
            env = self.env_in[n]
            outs = self.transfer(n, env)
            for s, lbl in g.edges(n):
                out = outs.get(lbl, outs.get(None, env))
                if lbl == "exc":
                    out = self.exc_env(n, env)
                old = self.env_in.get(s)
                if old is None:
                    self.env_in[s] = dict(out)
                    work.append(s)
                else:
                    changed = False
                    for k, v in out.items():
                        if k in old:
                            nv = join(old[k], v)
                            if nv != old[k]:
                                old[k] = nv
                                changed = True
                        else:
                            # defined on one path only: keep (unknown on the other)
                            old[k] = v
                            changed = True
                    if changed:
                        work.append(s)

    def exc_env(self, n, env):
        return env

    # ------------------------------------------------------------- transfer
    def transfer(self, n: Node, env) -> Dict[object, Dict[str, object]]:
        k = n.kind
        if k == "assign":
            return {None: self.t_assign(n.ast, env)}
        if k == "bind":
            return {None: self.t_bind(n, env)}
        if k == "test":
            return {True: self.narrow(n.ast, env, True, n), False: self.narrow(n.ast, env, False, n)}
        return {None: env}

    @staticmethod
    def path_key(e: ast.expr) -> Optional[str]:
        parts = []
        while isinstance(e, ast.Attribute):
            parts.append(e.attr)
            e = e.value
        if isinstance(e, ast.Name):
            parts.append(e.id)
            return ".".join(reversed(parts))
        return None

    def kill(self, env, key: str):
        pref = key + "."
        for k in [k for k in env if k == key or k.startswith(pref)]:
            del env[k]

    def bind_target(self, env, target: ast.expr, t):
        if isinstance(target, ast.Name):
            self.kill(env, target.id)
            env[target.id] = t
        elif isinstance(target, ast.Attribute):
            key = self.path_key(target)
            if key:
                self.kill(env, key)
                env[key] = t
        elif isinstance(target, (ast.Tuple, ast.List)):
            elts = target.elts
            parts = None
            if t != ANY:
                cands = []
                for a in t:
                    if isinstance(a, tuple) and a[0] == "tuple" and a[1] is not None and len(a[1]) == len(elts):
                        cands.append(a[1])
                    else:
                        cands = None
                        break
                if cands:
                    parts = [join_all(c[i] for c in cands) for i in range(len(elts))]
            for i, e in enumerate(elts):
                self.bind_target(env, e, parts[i] if parts else ANY)
        elif isinstance(target, ast.Starred):
            self.bind_target(env, target.value, T(("list", ANY)))

    def t_assign(self, st, env):
        env = dict(env)
        if isinstance(st, ast.Assign):
            t = self.type_of(st.value, env)
            for tgt in st.targets:
                self.bind_target(env, tgt, t)
        elif isinstance(st, ast.AnnAssign):
            t = self.types.ann(self.fn.module, st.annotation)
            if t == ANY and st.value is not None:
                t = self.type_of(st.value, env)
            self.bind_target(env, st.target, t)
        elif isinstance(st, ast.AugAssign):
            t = self.type_of(st.target, env) if not isinstance(st.target, ast.Subscript) else ANY
            if not isinstance(st.target, ast.Subscript):
                self.bind_target(env, st.target, t)
        elif isinstance(st, ast.NamedExpr):
            self.bind_target(env, st.target, self.type_of(st.value, env))
        return env

    def elem_type(self, t):
        if t == ANY:
            return ANY
        out = []
        for a in t:
            if isinstance(a, tuple):
                if a[0] in ("list", "set", "iter"):
                    out.append(a[1])
                elif a[0] == "dict":
                    out.append(a[1])
                elif a[0] == "tuple":
                    out.append(join_all(a[1]) if a[1] else ANY)
                else:
                    out.append(ANY)
            elif a == "str":
                out.append(T("str"))
            elif a == "bytes":
                out.append(T("int"))
            elif a in self.model.classes:
                c = self.model.classes[a]
                if c.is_subclass_of("list") or c.is_subclass_of("dict"):
                    out.append(ANY)
                else:
                    it = c.lookup("__iter__")
                    if it is not None:
                        out.append(self.elem_type(self.types.return_type(it)))
                    else:
                        out.append(ANY)
            else:
                out.append(ANY)
        return join_all(out) if out else ANY

    def t_bind(self, n: Node, env):
        env = dict(env)
        kind = n.extra[0] if isinstance(n.extra, tuple) else None
        if kind == "for":
            it = self.type_of(n.extra[1], env)
            self.bind_target(env, n.ast, self.elem_type(it))
        elif kind == "with":
            ct = self.type_of(n.extra[1], env)
            res = []
            if ct == ANY:
                res.append(ANY)
            else:
                for a in ct:
                    if a == "file":
                        res.append(T("file"))
                    elif isinstance(a, str) and a in self.model.classes:
                        f = self.model.classes[a].lookup("__enter__")
                        res.append(self.types.return_type(f) if f else ANY)
                    else:
                        res.append(ANY)
            self.bind_target(env, n.ast, join_all(res) if res else ANY)
        elif kind == "except":
            h = n.ast
            t = ANY
            if h.type is not None:
                names = h.type.elts if isinstance(h.type, ast.Tuple) else [h.type]
                ts = []
                for nm in names:
                    r = self.model.resolve_expr_static(self.fn.module, nm)
                    if r and r[0] == "class":
                        ts.append(T(r[1].name))
                    elif r and r[0] == "builtin":
                        ts.append(T(r[1]))
                    elif r and r[0] == "ext":
                        ts.append(T(r[1]))
                    else:
                        ts.append(ANY)
                t = join_all(ts)
            self.kill(env, h.name)
            env[h.name] = t
        elif isinstance(n.ast, (ast.FunctionDef, ast.AsyncFunctionDef)):
            sub = self.model.fn_of_node(n.ast)
            env[n.ast.name] = T(("func", sub)) if sub is not None else ANY
        return env

    # ------------------------------------------------------------- narrowing
    def class_spec(self, e: ast.expr, env) -> Optional[List[str]]:
        """isinstance() second argument -> list of class names, None if unknown"""
        if isinstance(e, ast.Call) and isinstance(e.func, ast.Name) and e.func.id == "type" and len(e.args) == 1 and not e.keywords \
                and isinstance(e.args[0], ast.Constant) and e.args[0].value is None:
            return ["NoneType"]
        if isinstance(e, ast.Tuple):
            out = []
            for x in e.elts:
                r = self.class_spec(x, env)
                if r is None:
                    return None
                out += r
            return out
        if isinstance(e, ast.Name) and e.id in env and env[e.id] != ANY:
            t = env[e.id]
            names = [a[1] for a in t if isinstance(a, tuple) and a[0] == "type"]
            if names and len(names) == len(t):
                return names
            # a local tuple of classes: look at its single assignment
            return self.local_class_tuple(e.id)
        if isinstance(e, ast.Name) and e.id not in env:
            pass
        r = self.model.resolve_expr_static(self.fn.module, e)
        if r is None and isinstance(e, ast.Name) and not self.local_class_tuple(e.id):
            # a global of another module of the package that came along with an inlined helper of that module
            for m2 in self.model.modules.values():
                if m2 is not self.fn.module:
                    r = self.model.resolve_expr_static(m2, e)
                    if r is not None and r[0] in ("class", "builtin", "ext"):
                        break
                    r = None
        if r is None:
            if isinstance(e, ast.Name):
                return self.local_class_tuple(e.id) or self._const_class_tuple(e)
            return self._const_class_tuple(e)
        if r[0] == "class":
            return [r[1].name]
        if r[0] == "builtin":
            return [r[1]]
        if r[0] == "ext":
            return [r[1]]
        return self._const_class_tuple(e)

    def _const_class_tuple(self, e: ast.expr) -> Optional[List[str]]:
        """a module-level or class-level constant holding a tuple of classes (`_SKIPPED = (A, B)`, `self._SKIPPED`)"""
        try:
            cv = self.model.const_eval(self.fn.module, e, self.fn.cls)
        except (ValueError, KeyError, AttributeError):
            return None
        if isinstance(cv, (tuple, list)) and cv and all(hasattr(x, "kind") and getattr(x, "kind") in ("class", "builtin", "ext") for x in cv):
            return [str(x.name).split(".")[-1] for x in cv]
        # a single class held by a constant (`container_type = list` ... `isinstance(x, self.container_type)`)
        if hasattr(cv, "kind") and getattr(cv, "kind") in ("class", "builtin", "ext") and not isinstance(e, ast.Name):
            return [str(cv.name).split(".")[-1]]
        return None

    def local_class_tuple(self, name: str) -> Optional[List[str]]:
        found = None
        for n in ast.walk(self.fn.node):
            if isinstance(n, ast.Assign) and any(isinstance(t, ast.Name) and t.id == name for t in n.targets):
                if found is not None:
                    return None
                found = n.value
        if found is None or not isinstance(found, ast.Tuple):
            return None
        out = []
        for x in found.elts:
            r = self.model.resolve_expr_static(self.fn.module, x)
            if r and r[0] == "class":
                out.append(r[1].name)
            elif r and r[0] == "builtin":
                out.append(r[1])
            else:
                return None
        return out

    _NORM = {"dict": ("dict", ANY, ANY), "list": ("list", ANY), "tuple": ("tuple", None),
             "set": ("set", ANY)}

    def narrow_isinstance(self, t, specs: List[str], truth: bool):
        ty = self.types
        if truth:
            if t == ANY:
                return frozenset(self._NORM.get(s, s) for s in specs)
            out = set()
            for a in t:
                base = atom_base(a)
                if base is None:
                    continue
                for s in specs:
                    if ty.is_sub(base, s):
                        out.add(a)
                    elif ty.is_sub(s, base):
                        out.add(self._NORM.get(s, s))
                    elif (base in self.model.classes and s in self.model.classes
                          and ty.have_common_subclass(base, s)):
                        out.add(s)
            return frozenset(out)
        else:
            if t == ANY:
                return ANY
            out = set()
            for a in t:
                base = atom_base(a)
                if base is not None and any(ty.is_sub(base, s) for s in specs):
                    continue
                out.add(a)
            return frozenset(out)

    def _flag_expr(self, name: ast.Name, node):
        """the expression a local boolean flag stands for (`is_field = isinstance(field, Field)`), if it still means the same
        at *node*: one reaching definition, and every name it mentions has the same definitions there as here"""
        from .defuse import reaching_defs
        if node is None:
            return None
        rd = reaching_defs(self.fn)
        defs = rd.reaching(node, name.id)
        if len(defs) != 1 or defs[0].kind != "assign" or defs[0].value is None or defs[0].node is None:
            return None
        v = defs[0].value
        ok_shape = lambda e: isinstance(e, (ast.Compare, ast.BoolOp)) or (isinstance(e, ast.Call) and isinstance(e.func, ast.Name)
                                                                         and e.func.id in ("isinstance", "isconfigtype", "bool")) \
            or (isinstance(e, ast.UnaryOp) and isinstance(e.op, ast.Not))
        if isinstance(v, ast.Call) and isinstance(v.func, ast.Name) and v.func.id == "bool" and len(v.args) == 1:
            v = v.args[0]
        if not ok_shape(v):
            return None
        for x in ast.walk(v):
            if isinstance(x, ast.Name) and isinstance(x.ctx, ast.Load):
                a = {id(d) for d in rd.reaching(defs[0].node, x.id)}
                b = {id(d) for d in rd.reaching(node, x.id)}
                if a != b:
                    return None
        return v

    def narrow(self, test: ast.expr, env, truth: bool, node=None, _depth=0):
        if _depth < 4:
            if isinstance(test, ast.Name):
                fe = self._flag_expr(test, node)
                if fe is not None:
                    return self.narrow(fe, env, truth, node, _depth + 1)
            if isinstance(test, ast.UnaryOp) and isinstance(test.op, ast.Not):
                return self.narrow(test.operand, env, not truth, node, _depth + 1)
            if isinstance(test, ast.BoolOp):
                if (isinstance(test.op, ast.And) and truth) or (isinstance(test.op, ast.Or) and not truth):
                    for v in test.values:
                        env = self.narrow(v, env, truth, node, _depth + 1)
                    return env
                return env
        env2 = None

        def setk(key, t):
            nonlocal env2
            if env2 is None:
                env2 = dict(env)
            env2[key] = t

        e = test
        if isinstance(e, ast.Call) and isinstance(e.func, ast.Name) and e.func.id == "isinstance" and len(e.args) == 2:
            key = self.path_key(e.args[0])
            specs = self.class_spec(e.args[1], env)
            if key and specs:
                cur = self.type_of(e.args[0], env)
                setk(key, self.narrow_isinstance(cur, specs, truth))
        elif isinstance(e, ast.Call) and isinstance(e.func, ast.Name) and e.func.id == "isconfigtype" and len(e.args) == 1:
            key = self.path_key(e.args[0])
            if key:
                cur = self.type_of(e.args[0], env)
                if truth:
                    setk(key, T(("type", "ConfigType")))
                elif cur != ANY:
                    setk(key, frozenset(a for a in cur if not (isinstance(a, tuple) and a[0] == "type")))
        elif isinstance(e, ast.Call) and isinstance(e.func, ast.Attribute) and e.func.attr == "isclass" and len(e.args) == 1:
            key = self.path_key(e.args[0])
            if key and truth:
                cur = self.type_of(e.args[0], env)
                if cur != ANY:
                    kept = frozenset(a for a in cur if isinstance(a, tuple) and a[0] == "type")
                    setk(key, kept or T(("type", "object")))
        elif isinstance(e, ast.Compare) and len(e.ops) == 1 and isinstance(e.ops[0], (ast.Is, ast.IsNot)):
            right = e.comparators[0]
            key = self.path_key(e.left)
            if key and isinstance(right, ast.Constant) and right.value is None:
                cur = self.type_of(e.left, env)
                is_none = isinstance(e.ops[0], ast.Is) == truth
                if is_none:
                    setk(key, T(NONE))
                elif cur != ANY:
                    setk(key, cur - T(NONE))
            elif key and isinstance(right, ast.Constant) and isinstance(right.value, bool):
                same = isinstance(e.ops[0], ast.Is) == truth
                cur = self.type_of(e.left, env)
                if same:
                    setk(key, T("bool"))
                elif cur != ANY:
                    pass
        else:
            key = self.path_key(e) if isinstance(e, (ast.Name, ast.Attribute)) else None
            if key:
                cur = self.type_of(e, env)
                if truth and cur != ANY:
                    setk(key, cur - T(NONE))
        return env2 if env2 is not None else env

    # ------------------------------------------------------------- expression types
    def type_at(self, node: Node, expr: ast.expr):
        env = self.env_in.get(node)
        if env is None:
            env = self.initial_env()
        return self.type_of(expr, env)

    def env_for(self, astnode) -> Dict[str, object]:
        """Environment in force where *astnode* (any sub-expression) is evaluated."""
        n = astnode
        while n is not None:
            nodes = self.cfg.nodes_for(n)
            if nodes:
                return self.env_in.get(nodes[0]) or {}
            n = getattr(n, "_parent", None)
            if n is self.fn.node:
                break
        return self.initial_env()

    def type_of(self, e: ast.expr, env):
        ty = self.types
        if e is None:
            return T(NONE)
        if isinstance(e, ast.Constant):
            return ty.type_of_const(e.value)
        if isinstance(e, ast.Name):
            if e.id in env:
                return env[e.id]
            r = self.model.resolve_name(self.fn.module, e.id)
            return self.static_type(r)
        if isinstance(e, ast.Attribute):
            key = self.path_key(e)
            if key and key in env:
                return env[key]
            r = self.model.resolve_expr_static(self.fn.module, e) if self.is_static_base(e, env) else None
            if r is not None:
                return self.static_type(r)
            bt = self.type_of(e.value, env)
            return self.attr_of(bt, e.attr)
        if isinstance(e, ast.Call):
            return self.call_type(e, env)
        if isinstance(e, ast.BoolOp):
            ts = [self.type_of(v, env) for v in e.values]
            if isinstance(e.op, ast.Or):
                ts = [(t - T(NONE)) if (t != ANY and i < len(ts) - 1) else t for i, t in enumerate(ts)]
            return join_all(ts)
        if isinstance(e, ast.IfExp):
            return join(self.type_of(e.body, env), self.type_of(e.orelse, env))
        if isinstance(e, (ast.List, ast.ListComp)):
            if isinstance(e, ast.List):
                return T(("list", join_all(self.type_of(x, env) for x in e.elts) if e.elts else ANY))
            return T(("list", ANY))
        if isinstance(e, (ast.Dict, ast.DictComp)):
            return T(("dict", ANY, ANY))
        if isinstance(e, (ast.Set, ast.SetComp)):
            return T(("set", ANY))
        if isinstance(e, ast.Tuple):
            return T(("tuple", tuple(self.type_of(x, env) for x in e.elts)))
        if isinstance(e, ast.GeneratorExp):
            return T(("iter", ANY))
        if isinstance(e, ast.JoinedStr):
            return T("str")
        if isinstance(e, ast.Compare):
            return T("bool")
        if isinstance(e, ast.UnaryOp) and isinstance(e.op, ast.Not):
            return T("bool")
        if isinstance(e, ast.BinOp):
            lt = self.type_of(e.left, env)
            if isinstance(e.op, ast.Mod) and lt == T("str"):
                return T("str")
            rt = self.type_of(e.right, env)
            if lt == rt and lt != ANY and all(isinstance(a, str) for a in lt):
                return lt
            return ANY
        if isinstance(e, ast.Subscript):
            bt = self.type_of(e.value, env)
            if bt == ANY:
                return ANY
            out = []
            for a in bt:
                if isinstance(a, tuple) and a[0] == "dict":
                    out.append(a[2])
                elif isinstance(a, tuple) and a[0] in ("list",):
                    out.append(T(a) if isinstance(e.slice, ast.Slice) else a[1])
                elif isinstance(a, tuple) and a[0] == "tuple":
                    if a[1] and isinstance(e.slice, ast.Constant) and isinstance(e.slice.value, int) \
                            and -len(a[1]) <= e.slice.value < len(a[1]):
                        out.append(a[1][e.slice.value])
                    else:
                        out.append(ANY)
                elif a in ("str", "bytes") and isinstance(e.slice, ast.Slice):
                    out.append(T(a))
                elif isinstance(a, str) and a in self.model.classes:
                    f = self.model.classes[a].lookup("__getitem__")
                    out.append(ty.return_type(f) if f else ANY)
                else:
                    out.append(ANY)
            return join_all(out) if out else ANY
        if isinstance(e, ast.Lambda):
            sub = self.model.fn_of_node(e)
            return T(("func", sub)) if sub else T(("callable", ANY))
        if isinstance(e, ast.NamedExpr):
            return self.type_of(e.value, env)
        if isinstance(e, ast.Starred):
            return ANY
        return ANY

    def is_static_base(self, e: ast.Attribute, env) -> bool:
        b = e
        while isinstance(b, ast.Attribute):
            b = b.value
        return isinstance(b, ast.Name) and b.id not in env

    def static_type(self, r):
        if r is None:
            return ANY
        if r[0] == "class":
            return T(("type", r[1].name))
        if r[0] == "func":
            return T(("func", r[1]))
        if r[0] == "builtin":
            if r[1] in BUILTIN_CLASSES or r[1] in ("str", "int"):
                return T(("type", r[1]))
            return T(("ext", "builtins." + r[1]))
        if r[0] in ("ext", "extmod"):
            return T(("ext", r[1]))
        if r[0] == "module":
            return T(("module", r[1].name))
        if r[0] == "const":
            try:
                return self.types.type_of_const(self.model.module_const(r[1], r[2]))
            except ValueError:
                return ANY
        if r[0] == "classconst":
            try:
                return self.types.type_of_const(
                    self.model.const_eval(r[1].module, r[1].class_attrs[r[2]], r[1]))
            except ValueError:
                return ANY
        return ANY

    def attr_of(self, bt, attr: str):
        if bt == ANY:
            return ANY
        out = []
        for a in bt:
            if isinstance(a, str):
                if a in self.model.classes:
                    out.append(self.types.attr_type(a, attr))
                elif a == NONE:
                    continue
                elif a in BUILTIN_VALUE_TYPES:
                    out.append(T(("bmethod", a, attr)))
                else:
                    out.append(T(("ext", "%s.%s" % (a, attr))))
            elif isinstance(a, tuple) and a[0] == "type":
                c = self.model.classes.get(a[1])
                if c is not None:
                    f = c.lookup(attr)
                    if f is not None:
                        out.append(T(("func", f)) if not f.is_classmethod else T(("bound", f)))
                        continue
                    got = False
                    for k in c.package_mro():
                        if attr in k.class_annotations:
                            out.append(self.types.ann(k.module, k.class_annotations[attr]))
                            got = True
                            break
                        if attr in k.class_attrs:
                            try:
                                out.append(self.types.type_of_const(
                                    self.model.const_eval(k.module, k.class_attrs[attr], k)))
                            except ValueError:
                                out.append(ANY)
                            got = True
                            break
                    if not got:
                        out.append(ANY)
                else:
                    out.append(T(("ext", "%s.%s" % (a[1], attr))))
            elif isinstance(a, tuple) and a[0] in ("dict", "list", "set", "tuple"):
                out.append(T(("cmethod", a, attr)))
            elif isinstance(a, tuple) and a[0] == "ext":
                out.append(T(("ext", "%s.%s" % (a[1], attr))))
            elif isinstance(a, tuple) and a[0] == "module":
                m = self.model.modules.get(a[1])
                out.append(self.static_type(self.model.resolve_name(m, attr)) if m else ANY)
            else:
                out.append(ANY)
        return join_all(out) if out else ANY

    def call_type(self, e: ast.Call, env):
        # type(x)(...) and x.__class__(...) build another instance of x's class
        f0 = e.func
        inner = None
        if isinstance(f0, ast.Call) and isinstance(f0.func, ast.Name) and f0.func.id == "type" and len(f0.args) == 1:
            inner = f0.args[0]
        elif isinstance(f0, ast.Attribute) and f0.attr == "__class__":
            inner = f0.value
        if inner is not None:
            t = self.type_of(inner, env)
            if t != ANY and t and all(isinstance(a, str) for a in t):
                return t
        if isinstance(e.func, ast.Name) and e.func.id == "partial" and e.args:
            r = self.model.resolve_name(self.fn.module, "partial")
            if r and r[0] == "ext" and r[1] == "functools.partial":
                inner = self.type_of(e.args[0], env)
                if inner != ANY:
                    outp = [("partial", a[1]) for a in inner
                            if isinstance(a, tuple) and a[0] in ("func", "bound")]
                    if outp:
                        return frozenset(outp)
        ft = self.type_of(e.func, env) if not self.is_super_call(e.func) else None
        if ft is None:
            tg = self.resolve_call(e, env)
            return join_all(self.target_ret(t) for t in tg) if tg else ANY
        if ft == ANY:
            return ANY
        out = []
        for a in ft:
            if isinstance(a, tuple):
                if a[0] == "type":
                    if a[1] in ("dict", "OrderedDict"):
                        out.append(T(("dict", ANY, ANY)))
                    elif a[1] == "list":
                        out.append(T(("list", ANY)))
                    elif a[1] == "set":
                        out.append(T(("set", ANY)))
                    elif a[1] == "tuple":
                        out.append(T(("tuple", None)))
                    else:
                        out.append(T(a[1]))
                elif a[0] in ("func", "bound"):
                    out.append(self._filter_narrow(a[1], e, self.types.return_type(a[1]), env, bound=a[0] == "bound"))
                elif a[0] == "callable":
                    out.append(a[1])
                elif a[0] == "cmethod":
                    out.append(self.container_method_ret(a[1], a[2]))
                elif a[0] == "bmethod":
                    out.append(BUILTIN_METHOD_RETURNS.get((a[1], a[2]), ANY))
                elif a[0] == "partial":
                    out.append(self.types.return_type(a[1]))
                elif a[0] == "ext":
                    out.append(EXT_RETURNS.get(a[1], ANY))
                else:
                    out.append(ANY)
            elif isinstance(a, str) and a in self.model.classes:
                f = self.model.classes[a].lookup("__call__")
                outs = [self.types.return_type(g) for g in self.types.cha(a, "__call__")]
                out.append(join_all(outs) if outs else ANY)
            else:
                out.append(ANY)
        return join_all(out) if out else ANY

    def _filter_narrow(self, callee, call: ast.Call, ret, env, bound=False):
        """A callee that filters what it returns by `isinstance(x, <its parameter p>)` and is given a class for p
        (`get_all_fields(schema, Field)`) returns only instances of that class: the class atoms of the declared return type that
        are base classes of it are narrowed."""
        if ret == ANY or isinstance(getattr(callee, "node", None), ast.Lambda) or callee is None or callee.node is None:
            return ret
        node = callee.node
        pnames = [a.arg for a in node.args.args]
        if bound and pnames:
            pnames = pnames[1:]
        filt = {x.args[1].id for x in ast.walk(node) if isinstance(x, ast.Call) and isinstance(x.func, ast.Name) and x.func.id == "isinstance"
                and len(x.args) == 2 and isinstance(x.args[1], ast.Name) and x.args[1].id in pnames}
        if not filt:
            return ret
        classes = []
        for p in filt:
            actual = None
            idx = pnames.index(p)
            if idx < len(call.args) and not any(isinstance(a, ast.Starred) for a in call.args[:idx + 1]):
                actual = call.args[idx]
            for kw in call.keywords:
                if kw.arg == p:
                    actual = kw.value
            if actual is None or (isinstance(actual, ast.Constant) and actual.value is None):
                continue
            spec = self.class_spec(actual, env)
            if spec and all(s_ in self.model.classes for s_ in spec):
                classes += spec
        if not classes:
            return ret

        def narrow(t, depth=0):
            if t == ANY or depth > 4:
                return t
            out = set()
            for a in t:
                if isinstance(a, str) and a in self.model.classes and any(self.types.is_sub(c, a) and c != a for c in classes):
                    out |= {c for c in classes if self.types.is_sub(c, a)}
                elif isinstance(a, tuple) and a[0] in ("list", "set", "iter") and len(a) == 2:
                    out.add((a[0], narrow(a[1], depth + 1)))
                elif isinstance(a, tuple) and a[0] == "tuple" and len(a) == 2 and isinstance(a[1], tuple):
                    out.add(("tuple", tuple(narrow(x, depth + 1) for x in a[1])))
                else:
                    out.add(a)
            return frozenset(out)
        try:
            return narrow(ret)
        except TypeError:
            return ret

    def container_method_ret(self, cont, meth):
        if cont[0] == "dict":
            K, V = cont[1], cont[2]
            if meth == "items":
                return T(("iter", T(("tuple", (K, V)))))
            if meth == "values":
                return T(("iter", V))
            if meth == "keys":
                return T(("iter", K))
            if meth in ("get", "pop", "setdefault"):
                return join(V, T(NONE)) if V != ANY else ANY
            if meth == "copy":
                return T(cont)
        if cont[0] == "list":
            if meth in ("pop",):
                return cont[1]
            if meth == "copy":
                return T(cont)
            if meth == "index":
                return T("int")
        return ANY

    def target_ret(self, t: Target):
        if t.kind == "fn":
            return self.types.return_type(t.fn)
        if t.kind == "ctor":
            return T(t.cls.name) if isinstance(t.cls, ClassInfo) else T(t.cls)
        if t.kind == "ext":
            return EXT_RETURNS.get(t.name, ANY)
        return ANY

    # ------------------------------------------------------------- callee resolution
    @staticmethod
    def is_super_call(func: ast.expr) -> bool:
        return (isinstance(func, ast.Attribute) and isinstance(func.value, ast.Call)
                and isinstance(func.value.func, ast.Name) and func.value.func.id == "super")

    def resolve_call(self, call: ast.Call, env=None) -> List[Target]:
        key = id(call)
        if env is None and key in self._call_cache:
            return self._call_cache[key]
        e = env if env is not None else self.env_for(call)
        out = self._resolve_call(call, e)
        # dedupe
        seen = set()
        res = []
        for t in out:
            k = t.key()
            if k not in seen:
                seen.add(k)
                res.append(t)
        if env is None:
            self._call_cache[key] = res
        return res

    def _resolve_call(self, call: ast.Call, env) -> List[Target]:
        func = call.func
        ty = self.types
        if self.is_super_call(func):
            c = self.fn.cls
            if c is None:
                return [Target("unknown", name="super().%s" % func.attr)]
            out = []
            start = c
            sargs = func.value.args
            if len(sargs) == 2 and isinstance(sargs[0], ast.Name) and self.types.model.has_cls(sargs[0].id):
                start = self.types.model.cls(sargs[0].id)       # super(Base, self): the search starts behind Base
            for s in c.subclasses():
                r = s.lookup_after(start, func.attr)
                if isinstance(r, FunctionInfo):
                    out.append(Target("fn", fn=r, via="super"))
                elif isinstance(r, str):
                    out.append(Target("builtin_method", name="%s.%s" % (r, func.attr), cls=r))
            if not out:
                out.append(Target("unknown", name="super().%s" % func.attr))
            return out
        ft = self.type_of(func, env)
        if ft == ANY:
            if isinstance(func, ast.Attribute):
                m = func.attr
                if m not in COLLIDING:
                    cands = ty.by_name(m)
                    if cands:
                        return [Target("fn", fn=f, via="name") for f in cands]
                else:
                    # dunder protocol methods defined by the package on an untyped receiver
                    if m.startswith("__") and m.endswith("__"):
                        cands = ty.by_name(m)
                        if cands:
                            return ([Target("fn", fn=f, via="name") for f in cands]
                                    + [Target("ext", name="?." + m)])
                    return [Target("ext", name="?." + m)]
                # not a method of any package class: an attribute holding a callable (user
                # supplied: validator, getter, default factory, hash algorithm) or a method of
                # an external object
                bt = self.type_of(func.value, env)
                if bt != ANY and any(isinstance(a, str) and a in self.model.classes for a in bt):
                    return [Target("user", name=ast.unparse(func)[:40])]
                return [Target("ext", name="?." + m)]
            if isinstance(func, ast.Name):
                return [Target("user", name=func.id)]
            return [Target("unknown", name=ast.unparse(func)[:40])]
        out: List[Target] = []
        for a in ft:
            if isinstance(a, tuple):
                if a[0] == "type":
                    c = self.model.classes.get(a[1])
                    if c is not None:
                        # the class or any subclass may be instantiated through a Type[C] value
                        exact = isinstance(func, ast.Name) and func.id not in env or (
                            isinstance(func, ast.Attribute) and self.is_static_base(func, env))
                        for k in ([c] if exact else c.subclasses()):
                            out.append(Target("ctor", cls=k, fn=k.lookup("__init__")))
                    else:
                        out.append(Target("ext", name="builtins." + a[1], cls=a[1]))
                elif a[0] in ("func",):
                    out.append(Target("fn", fn=a[1]))
                elif a[0] == "bound":
                    f = a[1]
                    # bound method: dispatch over the receiver's subclasses
                    recv = func.value if isinstance(func, ast.Attribute) else None
                    if recv is not None and f.cls is not None:
                        rt = self.type_of(recv, env)
                        got = self.methods_on(rt, func.attr)
                        out.extend(got if got else [Target("fn", fn=f)])
                    else:
                        out.append(Target("fn", fn=f))
                elif a[0] == "callable":
                    nm = ast.unparse(func)[:40]
                    out.append(Target("user", name=nm))
                elif a[0] == "cmethod":
                    out.append(Target("builtin_method", name="%s.%s" % (a[1][0], a[2]), cls=a[1][0]))
                elif a[0] == "bmethod":
                    out.append(Target("builtin_method", name="%s.%s" % (a[1], a[2]), cls=a[1]))
                elif a[0] == "partial":
                    out.append(Target("fn", fn=a[1], via="partial"))
                elif a[0] == "ext":
                    out.append(Target("ext", name=a[1]))
                else:
                    out.append(Target("unknown", name=ast.unparse(func)[:40]))
            elif isinstance(a, str):
                if a in self.model.classes:
                    got = [Target("fn", fn=f) for f in ty.cha(a, "__call__")]
                    out.extend(got if got else [Target("unknown", name="%s.__call__" % a)])
                elif a == NONE:
                    continue
                else:
                    out.append(Target("ext", name="%s()" % a))
        return out or [Target("unknown", name=ast.unparse(func)[:40])]

    def methods_on(self, rt, meth: str) -> List[Target]:
        if rt == ANY:
            return []
        out = []
        for a in rt:
            base = a if isinstance(a, str) else None
            if base and base in self.model.classes:
                c = self.model.classes[base]
                fs = self.types.cha(base, meth)
                out.extend(Target("fn", fn=f) for f in fs)
                if not fs:
                    for b in c.builtin_bases():
                        if b in ("list", "dict") and meth in dir({"list": list, "dict": dict}[b]):
                            out.append(Target("builtin_method", name="%s.%s" % (b, meth), cls=b))
                            break
                else:
                    # subclasses of a builtin that do not override inherit the builtin's method
                    pass
            elif isinstance(a, tuple) and a[0] == "type" and a[1] in self.model.classes:
                f = self.model.classes[a[1]].lookup(meth)
                if f is not None:
                    out.append(Target("fn", fn=f))
        return out

    # ------------------------------------------------------------- attribute access as call
    def property_targets(self, attr: ast.Attribute, env=None) -> List[FunctionInfo]:
        """Property getters (and Config/Schema __getattr__) an attribute *load* may invoke."""
        e = env if env is not None else self.env_for(attr)
        if self.is_static_base(attr, e) and self.model.resolve_expr_static(self.fn.module, attr) is not None:
            return []
        bt = self.type_of(attr.value, e)
        return self.property_targets_on(bt, attr.attr)

    def property_targets_on(self, bt, name: str) -> List[FunctionInfo]:
        out: List[FunctionInfo] = []
        if bt == ANY:
            # untyped receiver: properties with a distinctive name
            if name not in COLLIDING:
                for c in self.model.classes.values():
                    f = c.methods.get(name)
                    if f is not None and f.is_property and f not in out:
                        out.append(f)
            return out
        for a in bt:
            if isinstance(a, str) and a in self.model.classes:
                for f in self.types.cha(a, name):
                    if f.is_property and f not in out:
                        out.append(f)
                c = self.model.classes[a]
                if not name.startswith("_") and not self.types.cha(a, name):
                    ga = c.lookup("__getattr__")
                    if ga is not None and self.attr_unknown(c, name) and ga not in out:
                        out.append(ga)
                elif not name.startswith("_"):
                    # the name exists on some classes of the hierarchy only: an instance of a subclass without it falls
                    # back to that subclass's __getattr__ (Schema.short_help creates a field called 'short_help')
                    for k in c.subclasses(strict=True):
                        ga = k.lookup("__getattr__")
                        if ga is not None and self.attr_unknown(k, name) and ga not in out:
                            out.append(ga)
        return out

    def attr_unknown(self, c: ClassInfo, name: str) -> bool:
        """No class attribute / instance store named *name* on c: lookup falls to __getattr__."""
        for k in c.package_mro():
            if name in k.class_attrs or name in k.class_annotations or name in k.methods:
                return False
            if self.types.instance_stores(k, name):
                return False
        return True

    def setter_targets(self, target: ast.Attribute, env=None) -> List[FunctionInfo]:
        """Functions an attribute *store* may invoke: property setters, or a class __setattr__
        that routes public names (Config -> _set_value, Schema -> _add_field)."""
        e = env if env is not None else self.env_for(target)
        bt = self.type_of(target.value, e)
        out: List[FunctionInfo] = []
        if bt == ANY:
            return out
        for a in bt:
            if isinstance(a, str) and a in self.model.classes:
                c = self.model.classes[a]
                for k in [c] + c.subclasses(strict=True):
                    for kk in k.package_mro():
                        if target.attr in kk.setters:
                            if kk.setters[target.attr] not in out:
                                out.append(kk.setters[target.attr])
                            break
                sa = c.lookup("__setattr__")
                if sa is not None and not target.attr.startswith("_") and sa not in out:
                    out.append(sa)
        return out
