# Frozen on 2026-09-27 from the package at /repo 829d734: every function / method name that exists in the package.
# engine/normalize.py treats a function whose name is NOT in this set as newly introduced by a refactoring and inlines it.
KNOWN_NAMES = frozenset([
    '__add__', '__call__', '__contains__', '__enter__', '__eq__', '__exit__', '__generate_key', '__getattr__',
    '__getitem__', '__getval__', '__iadd__', '__init__', '__ior__', '__iter__', '__load_key', '__setattr__',
    '__setdefault__', '__setitem__', '__setkey__', '__setval__', '__str__', '_add_field', '_bind', '_create_helper',
    '_feature_flag_fields', '_from_element', '_get_field', '_get_item_position', '_get_provider', '_get_value',
    '_hash', '_is_compatible_proxy', '_is_feature_enabled', '_iterate_dict_like', '_key_filename', '_keyfile',
    '_list_asdict', '_prettify', '_process_includes', '_ref_path', '_set_default_value', '_set_value', '_to_element',
    '_validate', '_validate_field', '_validate_key', 'append', 'asdict', 'challenge', 'cmdline_args_override',
    'combine_trees', 'copy', 'create', 'decrypt', 'default', 'dumps', 'encrypt', 'extend', 'full_path',
    'generate_argparse_parser', 'generate_key', 'generate_stub', 'get', 'get_all_fields', 'get_annotation_typestr',
    'get_arg_annotation', 'get_fields', 'get_method_annotation', 'get_retval_annotation', 'include',
    'initialize_registry', 'inner', 'insert', 'instance_method', 'is_feature_enabled', 'is_value_defined',
    'isconfigtype', 'item_field', 'item_ref_path', 'key_field', 'load', 'load_tree', 'loads', 'make_type', 'name',
    'parse', 'ref_path', 'register', 'reset_value', 'save', 'setdefault', 'short_help', 'to_basic', 'to_python',
    'to_tree', 'update', 'validate', 'validator', 'value_field', 'wrapper',
])

# every class name of the package at the same commit
KNOWN_CLASSES = frozenset(['AesProvider', 'AnyField', 'ApplicationModeField', 'BaseField', 'BoolField', 'BsonConfigFormat', 'BytesField', 'ChallengeField', 'Config', 'ConfigFormat', 'ConfigType', 'ConfigTypeField', 'ContainerValueMixin', 'DictField', 'DictProxy', 'DigestValue', 'EncryptionError', 'FeatureFlagField', 'FeatureFlagFieldMixin', 'Field', 'FilenameField', 'FloatField', 'HostnameField', 'IEncryptionProvider', 'IPv4AddressField', 'IPv4NetworkField', 'IncludeField', 'IncludeFieldMixin', 'InstanceMethodField', 'InstanceMethodFieldMixin', 'IntField', 'JsonConfigFormat', 'KeyFile', 'ListField', 'ListProxy', 'LogLevelField', 'NumberField', 'PickleConfigFormat', 'PortField', 'Schema', 'SecureField', 'StringField', 'UrlField', 'ValidationError', 'VirtualField', 'VirtualFieldMixin', 'XmlConfigFormat', 'XorProvider', 'YamlConfigFormat'])

# module / class level tuple and list constants of the package at the same commit (loops over these are *not* unrolled)
KNOWN_TABLES = frozenset(['ENCODINGS', 'FALSE_VALUES', 'FORMATS', 'TRUE_VALUES', '__all__'])
