"""
Testing the checker both ways (DESIGN.md section 6): seeded variants that must be reported and
benign refactors that must stay silent.  Variants are textual edits applied to a scratch copy of
the *current* /repo tree (outside /repo and /verif, removed afterwards); the analysis itself is
unchanged -- the same rules run with REPO pointing at the copy.

Corpus results never turn a holding property into exit 1: they are recorded in the evidence of
the thorough tier (applied / detected / silent / inapplicable).
"""
from __future__ import annotations

import io
import json
import os
import shutil
import sys
import tempfile
import time
from concurrent.futures import ProcessPoolExecutor
from typing import Dict, List, Optional, Tuple

VERIF = os.path.dirname(os.path.dirname(os.path.abspath(__file__)))


def package_part(patch_path):
    """the part of a unified diff (as text) that touches the package sources (seeded changes may also edit CHANGELOG, docs, tests);
    fed to `patch` on standard input, so nothing is left behind in the temporary directory"""
    import re as _re
    txt = open(patch_path).read()
    parts = _re.split(r"(?m)^(?=diff --git )", txt)
    keep = [p for p in parts if p.startswith("diff --git ") and _re.match(r"diff --git a/cincoconfig/", p)]
    if not keep:
        return txt
    return "".join(keep)


def load_corpus() -> List[dict]:
    sys.path.insert(0, VERIF)
    from selftest.corpus import VARIANTS
    out = list(VARIANTS)
    # independently seeded changes (sub-agents given only the property text): /verif/seeded/<id>/patch.diff
    sdir = os.path.join(VERIF, "seeded")
    if os.path.isdir(sdir):
        for name in sorted(os.listdir(sdir)):
            meta_p = os.path.join(sdir, name, "meta.json")
            patch_p = os.path.join(sdir, name, "patch.diff")
            if os.path.exists(meta_p) and os.path.exists(patch_p):
                meta = json.load(open(meta_p))
                if meta.get("kind") == "benign":
                    # (a behaviour-preserving change the checks are known to report all the same is listed as such -- `alarm-limit` --
                    # never dropped: DESIGN.md says which constructs they are)
                    out.append({"id": "seeded-" + name, "property": meta["exercises_property"], "what": "independent benign refactor",
                                "expect": "alarm-limit" if meta.get("expected_silent") is False else "silent", "edits": [], "patch": patch_p,
                                "check": meta.get("check_properties")})
                    if out[-1]["check"] is None:
                        out[-1]["check"] = ["C%02d" % i for i in range(1, 21)]
                else:
                    out.append({"id": "seeded-" + name, "property": meta["breaks_property"], "what": meta.get("needs_to_manifest", ""),
                                "expect": "fire" if meta.get("expected_detected", True) else "limit", "edits": [], "patch": patch_p,
                                "accept_analysis_error": bool(meta.get("accept_analysis_error"))})
    ids = [v["id"] for v in out]
    assert len(ids) == len(set(ids)), "duplicate variant ids"
    return out


def make_copy(repo: str, edits: List[dict], patch: Optional[str] = None) -> Tuple[Optional[str], Optional[str]]:
    """Scratch copy of the package with *edits* applied. Returns (dir, error)."""
    tmp = tempfile.mkdtemp(prefix="cinco-variant-")
    dst = os.path.join(tmp, "cincoconfig")
    shutil.copytree(os.path.join(repo, "cincoconfig"), dst, ignore=shutil.ignore_patterns("__pycache__"))
    if patch:
        import subprocess
        r = subprocess.run(["patch", "-p1", "-s"], input=package_part(patch), cwd=tmp, capture_output=True, text=True)
        if r.returncode != 0:
            shutil.rmtree(tmp, ignore_errors=True)
            return None, "patch does not apply to the current tree: %s" % (r.stdout + r.stderr).strip()[:120]
    for e in edits:
        path = os.path.join(tmp, e["file"])
        try:
            text = open(path, encoding="utf-8").read()
        except OSError as err:
            shutil.rmtree(tmp, ignore_errors=True)
            return None, "file missing: %s" % e["file"]
        cnt = text.count(e["old"])
        want = e.get("count", 1)
        if cnt != want:
            shutil.rmtree(tmp, ignore_errors=True)
            return None, "anchor text occurs %d times (expected %d) in %s" % (cnt, want, e["file"])
        text = text.replace(e["old"], e["new"])
        with open(path, "w", encoding="utf-8") as fp:
            fp.write(text)
    return tmp, None


def run_variant(args) -> dict:
    variant, repo = args
    sys.path.insert(0, VERIF)
    from engine.report import run_property
    from engine.model import AnalysisError
    from rules import registry
    import ast as _ast
    t0 = time.time()
    res = {"id": variant["id"], "property": variant["property"], "expect": variant["expect"],
           "what": variant.get("what", "")}
    tmp, err = make_copy(repo, variant["edits"], variant.get("patch"))
    if tmp is None:
        res["status"] = "inapplicable"
        res["detail"] = err
        return res
    try:
        # the variant must still be valid Python
        for e in variant["edits"]:
            _ast.parse(open(os.path.join(tmp, e["file"]), encoding="utf-8").read())
        if variant.get("patch"):
            for root, _, files in os.walk(os.path.join(tmp, "cincoconfig")):
                for f in files:
                    if f.endswith(".py"):
                        _ast.parse(open(os.path.join(root, f), encoding="utf-8").read())
        reg = registry()
        pids = variant.get("check", [variant["property"]])
        fired = []
        for pid in pids:
            if pid not in reg:
                continue
            mod = reg[pid]
            buf = io.StringIO()
            try:
                code, ctx, ev = run_property(pid, mod.check, mod.META, "quick", tmp, write_evidence=False,
                                             quiet=True, out=buf)
            except AnalysisError as aerr:
                code = 2
                fired.append({"property": pid, "exit": 2, "detail": str(aerr)})
                continue
            except Exception as exc:     # a crash of the checker is an analysis error, as in the CLI
                import traceback as _tb
                code = 2
                fired.append({"property": pid, "exit": 2, "detail": "checker crashed: %s: %s @ %s" % (
                    type(exc).__name__, exc, _tb.extract_tb(exc.__traceback__)[-1][:3])})
                continue
            if code == 1:
                rules = sorted({o.rule + " @ " + o.qualname for o in ctx.obligations if not o.ok and not o.known})
                fired.append({"property": pid, "exit": 1, "rules": rules})
        res["fired"] = fired
        any_fire = any(f["exit"] == 1 for f in fired)
        any_err = any(f["exit"] == 2 for f in fired)
        if variant["expect"] == "fire":
            ok = any_fire or (variant.get("accept_analysis_error") and any_err)
            if ok and variant.get("expect_rule"):
                ok = any(variant["expect_rule"] in r for f in fired for r in f.get("rules", []))
            res["status"] = "detected" if ok else ("analysis-error" if any_err else "MISSED")
        elif variant["expect"] == "limit":
            # a property-breaking change that is known to be out of reach of the structural rules
            res["status"] = "limit-detected" if any_fire else "limit-undetected"
        elif variant["expect"] == "alarm-limit":
            res["status"] = "limit-alarm" if (any_fire or any_err) else "limit-alarm-gone"
        else:
            res["status"] = "silent" if not (any_fire or any_err) else "FALSE-ALARM"
    except SyntaxError as serr:
        res["status"] = "inapplicable"
        res["detail"] = "variant does not parse: %s" % serr
    finally:
        shutil.rmtree(tmp, ignore_errors=True)
    res["wall_s"] = round(time.time() - t0, 2)
    return res


def run_corpus(variants: List[dict], repo: str, jobs: int = 16) -> List[dict]:
    if not variants:
        return []
    with ProcessPoolExecutor(max_workers=min(jobs, len(variants))) as ex:
        return list(ex.map(run_variant, [(v, repo) for v in variants]))


def run_for_property(pid: str, ev: dict, repo: str, write=True) -> int:
    """Thorough tier: run this property's variants against the current tree and add the counts to
    the evidence. Always returns 0 (see module docstring) unless a variant *crashes* the engine."""
    variants = [v for v in load_corpus() if v["property"] == pid or pid in v.get("check", [])]
    t0 = time.time()
    results = run_corpus(variants, repo)
    summary = {"variants": len(results)}
    for r in results:
        summary[r["status"]] = summary.get(r["status"], 0) + 1
    ev["tier"] = "thorough"
    ev["coverage"]["selftest"] = {
        "summary": summary,
        "results": results,
        "explanation": "seeded variants (expect=fire) must be reported naming the broken instance; benign "
                       "refactors (expect=silent) must not be; applied to a scratch copy of the current tree",
    }
    ev["coverage"]["evaluations"] = ev["coverage"]["evaluations"] + len(results)
    ev["wall_s"] = round(ev["wall_s"] + time.time() - t0, 3)
    print("%s selftest: %s" % (pid, json.dumps(summary)))
    for r in results:
        if r["status"] in ("MISSED", "FALSE-ALARM", "analysis-error"):
            print("  selftest %s %s: %s %s" % (r["status"], r["id"], r.get("what", ""), r.get("fired")))
    if write:
        with open(os.path.join(VERIF, "evidence", "%s.json" % pid), "w", encoding="utf-8") as fp:
            json.dump(ev, fp, indent=1, default=str)
    return 0


def main(argv):
    import argparse
    ap = argparse.ArgumentParser()
    ap.add_argument("--repo", default=os.environ.get("REPO", "/repo"))
    ap.add_argument("--only", help="property id or variant id prefix")
    ap.add_argument("--try", dest="try_", nargs=4, metavar=("PID", "FILE", "OLD", "NEW"))
    a = ap.parse_args(argv)
    if a.try_:
        pid, file, old, new = a.try_
        v = {"id": "adhoc", "property": pid, "expect": "fire", "check": pid.split(","),
             "edits": [{"file": file, "old": old, "new": new}]}
        print(json.dumps(run_variant((v, a.repo)), indent=1))
        return 0
    variants = load_corpus()
    if a.only:
        variants = [v for v in variants if v["property"] == a.only or v["id"].startswith(a.only)]
    results = run_corpus(variants, a.repo)
    bad = 0
    summary: Dict[str, int] = {}
    for r in results:
        summary[r["status"]] = summary.get(r["status"], 0) + 1
        if r["status"] in ("MISSED", "FALSE-ALARM", "analysis-error"):
            bad += 1
            print(r["status"], r["id"], r.get("what"), r.get("fired"), r.get("detail", ""))
        elif r["status"] == "inapplicable":
            print("inapplicable", r["id"], r.get("detail"))
    print(json.dumps(summary))
    return 1 if bad else 0


if __name__ == "__main__":
    sys.exit(main(sys.argv[1:]))
