"""
Specialisation of one function's CFG under an assumption about its input ("value is a list",
"the type attribute is 'dict'"): a finite-domain partial evaluation.

``decide(expr, node)`` is the assumption: it returns True / False for a leaf condition whose outcome the
assumption fixes and None otherwise.  Test nodes with a fixed outcome keep only that edge; the nodes still
reachable are the *feasible* part.  Reaching definitions are recomputed on the feasible part, so
``sources`` answers "what can this name hold, given the assumption" -- which is what makes an `if/elif`
chain, an early-return chain, a merged branch with a local flag and a conditional expression read the same.
Nothing is executed: conditions are decided syntactically after expanding local aliases.
"""
from __future__ import annotations

import ast
from typing import Callable, Dict, FrozenSet, List, Optional, Set, Tuple

from .cfg import Node
from .defuse import Def, ReachingDefs, reaching_defs
from .model import FunctionInfo
from .flow import is_return_tail


class _RD(ReachingDefs):
    def __init__(self, fn, edge_ok):
        self._edge_ok = edge_ok
        super().__init__(fn)

    def _solve(self):
        g = self.cfg
        self.in_ = {g.entry: frozenset(self.param_defs)}
        work = [g.entry]
        while work:
            n = work.pop()
            cur = self.in_[n]
            ds = self.defs_at.get(n)
            if ds:
                killed = {d.name for d in ds}
                out = frozenset(d for d in cur if d.name not in killed) | frozenset(ds)
            else:
                out = cur
            for s, lbl in g.edges(n):
                if not self._edge_ok(n, s, lbl):
                    continue
                o = cur if (lbl == "exc" and n.kind in ("assign", "bind")) else out
                old = self.in_.get(s)
                if old is None:
                    self.in_[s] = o
                    work.append(s)
                else:
                    new = old | o
                    if new != old:
                        self.in_[s] = new
                        work.append(s)


class Spec:
    def __init__(self, an, fn: FunctionInfo, decide: Callable[[ast.expr, Optional[Node]], Optional[bool]]):
        self.an, self.fn = an, fn
        # decide(expr, node) or decide(expr, node, spec): the three-argument form may ask the specialisation built so far
        # (spec.sources) what a local can hold under the assumption
        import inspect
        try:
            names = list(inspect.signature(decide).parameters)
        except (TypeError, ValueError):
            names = []
        wants_spec = len(names) >= 3 and names[2] in ("sp", "spec")
        self._decide = (lambda e, n, _d=decide: _d(e, n, self)) if wants_spec else decide
        self.g = an.cfg(fn)
        self._base_rd = reaching_defs(fn)
        self._memo: Dict[int, Optional[bool]] = {}
        self.nodes = None
        self.where: Dict[int, Optional[Node]] = {}     # id(expression leaf returned by sources) -> node it is evaluated at
        self.rd = None
        # two rounds: aliases are expanded with the unrestricted definitions first, then with the feasible ones
        # decisions that look at live definitions (flags, None-ness) sharpen the reaching definitions, which sharpens the
        # next round of decisions: iterate to a fixpoint (bounded)
        prev = None
        for _ in range(5):
            self._memo.clear()
            rd = _RD(fn, self.edge_ok)
            self.rd = rd
            sig = frozenset((id(n), frozenset(id(d) for d in ds)) for n, ds in rd.in_.items())
            if sig == prev:
                break
            prev = sig
        self.normal: Set[Node] = self.g.reachable([self.g.entry], may_raise=lambda n: False, edge_filter=self.edge_ok)
        # exception edges only out of nodes the may-raise oracle does not clear (an assignment of a constant, a comparison of
        # a string with a literal cannot take the handler)
        self.nodes: Set[Node] = self.g.reachable([self.g.entry], may_raise=lambda n: an.node_may_raise(fn, n), edge_filter=self.edge_ok)

    # ------------------------------------------------------------------ conditions
    def edge_ok(self, a: Node, b: Node, lbl) -> bool:
        if a.kind == "test" and lbl in (True, False):
            d = self.decide(a.ast, a)
            if d is not None and d != lbl:
                return False
        return True

    def decide(self, e: ast.expr, node: Optional[Node]) -> Optional[bool]:
        k = (id(e), id(node))
        if k in self._memo:
            return self._memo[k]
        self._memo[k] = None
        r = self._decide_expr(e, node, 0)
        self._memo[k] = r
        return r

    def _decide_expr(self, e, node, depth) -> Optional[bool]:
        if depth > 6:
            return None
        if isinstance(e, ast.Constant):
            return bool(e.value)
        if isinstance(e, ast.UnaryOp) and isinstance(e.op, ast.Not):
            d = self._decide_expr(e.operand, node, depth + 1)
            return None if d is None else (not d)
        if isinstance(e, ast.BoolOp):
            ds = [self._decide_expr(v, node, depth + 1) for v in e.values]
            if isinstance(e.op, ast.And):
                if any(d is False for d in ds):
                    return False
                return True if all(d is True for d in ds) else None
            if any(d is True for d in ds):
                return True
            return False if all(d is False for d in ds) else None
        d = self._decide(e, node)
        if d is not None:
            return d
        if isinstance(e, ast.Call) and isinstance(e.func, ast.Name) and e.func.id == "bool" and len(e.args) == 1 and not e.keywords:
            return self._decide_expr(e.args[0], node, depth + 1)
        if isinstance(e, ast.IfExp):
            t = self._decide_expr(e.test, node, depth + 1)
            if t is True:
                return self._decide_expr(e.body, node, depth + 1)
            if t is False:
                return self._decide_expr(e.orelse, node, depth + 1)
            return None
        if isinstance(e, ast.Compare) and len(e.ops) == 1 and not isinstance(e.left, ast.Name) and isinstance(e.comparators[0], ast.Constant) \
                and e.comparators[0].value is None and isinstance(e.ops[0], (ast.Is, ast.IsNot)) and isinstance(e.left, (ast.IfExp, ast.BoolOp)):
            # None-ness of a conditional / `x or None` expression written in place
            nn = self._expr_nullness(e.left, node, depth + 1)
            if nn is not None:
                return nn if isinstance(e.ops[0], ast.Is) else (not nn)
            return None
        if isinstance(e, ast.Compare) and len(e.ops) == 1 and isinstance(e.left, ast.Name) and isinstance(e.comparators[0], ast.Constant) \
                and e.comparators[0].value is None and isinstance(e.ops[0], (ast.Is, ast.IsNot)) and self.rd is not None:
            # None-ness of a local: decided when every live definition is known to be None / known not to be
            nulls = set()
            at = node or self.rd.node_of(e.left)
            for k, p in (self.sources(e.left, at) if at is not None else [("unknown", None)]):
                nulls.add(self._nullness(k, p, depth + 1))
            if len(nulls) == 1 and None not in nulls:
                is_null = nulls.pop()
                return is_null if isinstance(e.ops[0], ast.Is) else (not is_null)
            return None
        if isinstance(e, ast.Compare) and len(e.ops) == 1 and isinstance(e.ops[0], (ast.Is, ast.IsNot)) and isinstance(e.left, ast.Name) \
                and isinstance(e.comparators[0], ast.Name) and self.rd is not None:
            # identity of two locals: the same single origin -> the same object; a freshly built object against something
            # that existed before (a parameter) -> different objects
            at = node or self.rd.node_of(e.left)
            if at is not None:
                a = self.sources(e.left, at)
                b = self.sources(e.comparators[0], at)

                def key(k, p):
                    return ("param", p) if k == "param" else (("expr", id(p)) if k == "expr" else None)
                ka, kb = {key(k, p) for k, p in a}, {key(k, p) for k, p in b}
                same = None
                if a and b and None not in ka and None not in kb:
                    if len(ka) == 1 and ka == kb:
                        same = True
                    elif not (ka & kb):
                        def fresh(srcs):
                            return all(k == "expr" and isinstance(p, ast.Call) for k, p in srcs)

                        def old(srcs):
                            return all(k == "param" for k, p in srcs)
                        if (fresh(a) and old(b)) or (fresh(b) and old(a)):
                            same = False
                if same is not None:
                    return same if isinstance(e.ops[0], ast.Is) else (not same)
        if isinstance(e, ast.Name):
            # a local flag: decided when every definition that can reach here is decided the same way
            rd = self.rd or self._base_rd
            at = node or rd.node_of(e)
            if at is None:
                return None
            defs = rd.reaching(at, e.id)
            vals = set()
            for df in defs:
                if df.kind != "assign" or df.value is None:
                    return None
                vals.add(self._decide_expr(df.value, df.node, depth + 1))
            if len(vals) == 1:
                return vals.pop()
        return None

    def _expr_nullness(self, e, node, depth) -> Optional[bool]:
        """True: the expression is None, False: it is not, None: unknown"""
        if depth > 8:
            return None
        if isinstance(e, ast.Constant):
            return e.value is None
        if isinstance(e, ast.IfExp):
            t = self._decide_expr(e.test, node, depth + 1)
            if t is True:
                return self._expr_nullness(e.body, node, depth + 1)
            if t is False:
                return self._expr_nullness(e.orelse, node, depth + 1)
            a, b = self._expr_nullness(e.body, node, depth + 1), self._expr_nullness(e.orelse, node, depth + 1)
            return a if a is not None and a == b else None
        if isinstance(e, ast.BoolOp) and isinstance(e.op, ast.Or):
            for v in e.values[:-1]:
                d = self._decide_expr(v, node, depth + 1)
                if d is True:
                    return False            # a truthy operand is the result: not None
                if d is None:
                    return None
            return self._expr_nullness(e.values[-1], node, depth + 1)
        d = self._decide_expr(e, node, depth + 1)
        if d is True:
            return False
        return None

    def _nullness(self, kind, p, depth) -> Optional[bool]:
        """True: certainly None, False: certainly not None, None: unknown (for one leaf returned by sources)"""
        if kind != "expr" or not isinstance(p, ast.AST) or depth > 8:
            return None
        if isinstance(p, ast.Constant):
            return p.value is None
        if isinstance(p, (ast.List, ast.Dict, ast.Tuple, ast.Set, ast.JoinedStr, ast.ListComp, ast.DictComp)):
            return False
        if isinstance(p, ast.Call):
            fname = p.func.attr if isinstance(p.func, ast.Attribute) else (p.func.id if isinstance(p.func, ast.Name) else "")
            if fname in ("partial", "methodcaller", "itemgetter", "attrgetter", "list", "dict", "tuple", "set", "frozenset", "str", "bytes",
                         "int", "float", "bool", "bytearray", "sorted") or (fname[:1].isupper() and fname.isidentifier()):
                return False    # constructors never return None
        if isinstance(p, ast.Lambda):
            return False
        at = self.where.get(id(p))
        if isinstance(p, (ast.IfExp, ast.BoolOp)):
            return self._expr_nullness(p, at, depth + 1)
        d = self._decide_expr(p, at, depth + 1)
        if d is True:
            return False        # truthy => not None
        return None

    # ------------------------------------------------------------------ values
    def sources(self, expr: ast.expr, at: Optional[Node] = None, _depth=0, _seen=None) -> List[Tuple[str, object]]:
        """value_sources restricted to the feasible part; conditional expressions follow the assumption"""
        rd = self.rd
        if _seen is None:
            _seen = set()
        if at is None:
            at = rd.node_of(expr)
        if _depth > 12:
            return [("unknown", ast.unparse(expr)[:30])]
        if isinstance(expr, ast.IfExp):
            d = self.decide(expr.test, at)
            out = []
            # `x if x is not None else y` / `y if x is None else x`: the arm that is x itself only carries the non-None values of x
            t = expr.test
            tested = None
            if isinstance(t, ast.Compare) and len(t.ops) == 1 and isinstance(t.left, ast.Name) and isinstance(t.comparators[0], ast.Constant) \
                    and t.comparators[0].value is None and isinstance(t.ops[0], (ast.Is, ast.IsNot)):
                tested = (t.left.id, isinstance(t.ops[0], ast.Is))

            def arm(e, when_test_true):
                res = self.sources(e, at, _depth + 1, set(_seen))
                if tested is not None and isinstance(e, ast.Name) and e.id == tested[0]:
                    want_none = tested[1] == when_test_true
                    res = [(k, p) for k, p in res if not (k == "expr" and isinstance(p, ast.Constant) and (p.value is None) != want_none)]
                return res
            if d is not False:
                out += arm(expr.body, True)
            if d is not True:
                out += arm(expr.orelse, False)
            return out
        if isinstance(expr, ast.BoolOp) and isinstance(expr.op, ast.Or):
            out = []
            for i, v in enumerate(expr.values):
                last = i == len(expr.values) - 1
                d = self.decide(v, at)
                if d is False and not last:
                    continue        # falsy: `or` moves on (the last operand is the result whatever it is)
                out += self.sources(v, at, _depth + 1, _seen)
                if d is True:
                    break
            return out
        if isinstance(expr, ast.NamedExpr):
            return self.sources(expr.value, at, _depth + 1, _seen)
        if not isinstance(expr, ast.Name):
            self.where[id(expr)] = at
            return [("expr", expr)]
        if at is None:
            return [("unknown", expr.id)]
        defs = rd.reaching(at, expr.id)
        if not defs:
            self.where[id(expr)] = at
            return [("expr", expr)]
        out = []
        for d in defs:
            if id(d) in _seen:
                continue
            _seen.add(id(d))
            if d.node is not None and getattr(self, "nodes", None) is not None and d.node not in self.nodes:
                continue
            if d.kind == "param":
                out.append(("param", d.name))
            elif d.kind == "assign" and d.value is not None:
                out += self.sources(d.value, d.node, _depth + 1, _seen)
            elif d.kind == "unpack":
                if isinstance(d.value, (ast.Tuple, ast.List)) and d.index is not None and d.index < len(d.value.elts) \
                        and not any(isinstance(e, ast.Starred) for e in d.value.elts):
                    out += self.sources(d.value.elts[d.index], d.node, _depth + 1, _seen)
                else:
                    done = False
                    if isinstance(d.value, ast.Name) and d.index is not None:
                        inner = self.sources(d.value, d.node, _depth + 1, set(_seen))
                        if inner and all(k == "expr" and isinstance(p, ast.Tuple) and d.index < len(p.elts)
                                         and not any(isinstance(e, ast.Starred) for e in p.elts) for k, p in inner):
                            for k, p in inner:
                                out += self.sources(p.elts[d.index], self.where.get(id(p)) or d.node, _depth + 1, _seen)
                            done = True
                    if not done:
                        out.append(("unpack", (d.value, d.index, d.node)))
            elif d.kind == "for":
                out.append(("iter", (d.value, d.index, d.node)))
            elif d.kind == "with":
                out.append(("with", (d.value, d.node)))
            elif d.kind == "except":
                out.append(("except", d.value))
            elif d.kind == "aug":
                out.append(("expr", d.value))
            elif d.kind == "def":
                out.append(("def", d.node.ast))
            else:
                out.append(("unknown", d.name))
        return out

    # ------------------------------------------------------------------ shape
    def returns(self) -> List[Node]:
        return [n for n in self.g.nodes if n.kind == "return" and n in self.nodes]

    def normal_returns(self) -> List[Node]:
        return [n for n in self.g.nodes if n.kind == "return" and n in self.normal]

    def raises(self) -> List[Node]:
        """explicit raise statements reachable without any exception having been raised before"""
        return [n for n in self.g.nodes if n.kind == "raise" and n in self.normal]

    def falls_through(self) -> bool:
        """can control run off the end of the body (no return statement) under the assumption?"""
        for p in self.g.exit.pred:
            if p in self.normal and not is_return_tail(p) and any(s is self.g.exit and self.edge_ok(p, s, l) for s, l in p.succ):
                return True
        return False

    def falls_off(self) -> bool:
        """can the function end normally (return or fall off the end) under the assumption?"""
        return self.g.exit in self.normal
