"""
Reaching definitions for local names over the CFG, and small value-provenance helpers built on
them (what expressions may a name hold at a node).
"""
from __future__ import annotations

import ast
from typing import Dict, FrozenSet, List, Optional, Set, Tuple

from .cfg import CFG, Node, build_cfg
from .model import FunctionInfo


class Def:
    """One definition of a local name."""
    __slots__ = ("name", "node", "kind", "value", "index")

    def __init__(self, name, node: Optional[Node], kind, value=None, index=None):
        self.name = name
        self.node = node        # CFG node performing the definition (None for parameters)
        self.kind = kind        # 'param' | 'assign' | 'aug' | 'for' | 'with' | 'except' | 'def' | 'unpack'
        self.value = value      # ast expression assigned (for 'assign'; the iterable for 'for' ...)
        self.index = index      # position inside a tuple-unpack, if any

    def __repr__(self):
        v = ast.unparse(self.value)[:40] if self.value is not None else ""
        return "<def %s %s %s>" % (self.name, self.kind, v)


def _targets(t: ast.expr, out: List[Tuple[str, Optional[int]]], idx=None):
    if isinstance(t, ast.Name):
        out.append((t.id, idx))
    elif isinstance(t, (ast.Tuple, ast.List)):
        for i, e in enumerate(t.elts):
            _targets(e, out, i if idx is None else idx)
    elif isinstance(t, ast.Starred):
        _targets(t.value, out, idx)


class ReachingDefs:
    def __init__(self, fn: FunctionInfo):
        self.fn = fn
        self.cfg: CFG = build_cfg(fn)
        self.defs_at: Dict[Node, List[Def]] = {}
        self.in_: Dict[Node, FrozenSet[Def]] = {}
        self._collect()
        self._solve()

    def _collect(self):
        self.param_defs = [Def(a.arg, None, "param") for a in self.fn.params]
        # closure variables of nested functions: parameters/locals of the parent, opaque here
        for n in self.cfg.nodes:
            ds: List[Def] = []
            if n.kind == "assign":
                st = n.ast
                if isinstance(st, ast.Assign):
                    for t in st.targets:
                        names: List[Tuple[str, Optional[int]]] = []
                        _targets(t, names)
                        for nm, idx in names:
                            if idx is None:
                                ds.append(Def(nm, n, "assign", st.value))
                            else:
                                ds.append(Def(nm, n, "unpack", st.value, idx))
                elif isinstance(st, ast.AnnAssign):
                    if isinstance(st.target, ast.Name):
                        ds.append(Def(st.target.id, n, "assign", st.value))
                elif isinstance(st, ast.AugAssign):
                    if isinstance(st.target, ast.Name):
                        ds.append(Def(st.target.id, n, "aug", st))
                elif isinstance(st, ast.NamedExpr):
                    ds.append(Def(st.target.id, n, "assign", st.value))
            elif n.kind == "bind":
                if isinstance(n.ast, (ast.FunctionDef, ast.AsyncFunctionDef)):
                    ds.append(Def(n.ast.name, n, "def", None))
                elif isinstance(n.ast, ast.ExceptHandler):
                    ds.append(Def(n.ast.name, n, "except", n.ast.type))
                else:
                    kind = n.extra[0] if isinstance(n.extra, tuple) else "bind"
                    names = []
                    _targets(n.ast, names)
                    for nm, idx in names:
                        ds.append(Def(nm, n, kind, n.extra[1] if isinstance(n.extra, tuple) else None, idx))
            if ds:
                self.defs_at[n] = ds

    def _solve(self):
        g = self.cfg
        self.in_ = {g.entry: frozenset(self.param_defs)}
        work = [g.entry]
        while work:
            n = work.pop()
            cur = self.in_[n]
            ds = self.defs_at.get(n)
            if ds:
                killed = {d.name for d in ds}
                out = frozenset(d for d in cur if d.name not in killed) | frozenset(ds)
            else:
                out = cur
            for s, lbl in g.edges(n):
                # an exception raised *by* an assign node happens before the binding
                o = cur if (lbl == "exc" and n.kind in ("assign", "bind")) else out
                old = self.in_.get(s)
                if old is None:
                    self.in_[s] = o
                    work.append(s)
                else:
                    new = old | o
                    if new != old:
                        self.in_[s] = new
                        work.append(s)

    def reaching(self, node: Node, name: str) -> List[Def]:
        return [d for d in self.in_.get(node, ()) if d.name == name]

    def node_of(self, astnode) -> Optional[Node]:
        n = astnode
        while n is not None:
            nodes = self.cfg.nodes_for(n)
            if nodes:
                return nodes[0]
            n = getattr(n, "_parent", None)
            if n is self.fn.node:
                return None
        return None


_RD: Dict[int, ReachingDefs] = {}


def reaching_defs(fn: FunctionInfo) -> ReachingDefs:
    r = _RD.get(id(fn))
    if r is None:
        r = ReachingDefs(fn)
        _RD[id(fn)] = r
    return r


_DOMT: Dict[Tuple[int, int], List[Tuple[Node, bool]]] = {}


def dominating_tests(fn: FunctionInfo, node: Node) -> List[Tuple[Node, bool]]:
    """(test node, outcome) pairs every path from the entry to *node* has to take -- on the raw CFG, every potentially
    raising node allowed to raise (more paths, hence fewer dominators: conservative)."""
    key = (id(fn), id(node))
    if key in _DOMT:
        return _DOMT[key]
    g = reaching_defs(fn).cfg
    out: List[Tuple[Node, bool]] = []
    reach0 = g.reachable([g.entry])
    if node in reach0:
        for t in g.nodes:
            if t.kind != "test" or t not in reach0:
                continue
            for lbl in (True, False):
                # must the edge (t, lbl) be taken?  <=> node unreachable once that edge is cut
                r = g.reachable([g.entry], edge_filter=lambda a, b, l, t=t, lbl=lbl: not (a is t and l is lbl))
                if node not in r:
                    out.append((t, lbl))
    _DOMT[key] = out
    return out


def _none_guard(test: ast.expr, truth: bool):
    """(name, 'none' | 'notnone') when the test outcome fixes a local's None-ness"""
    e = test
    if isinstance(e, ast.Compare) and len(e.ops) == 1 and isinstance(e.left, ast.Name) and isinstance(e.comparators[0], ast.Constant) \
            and e.comparators[0].value is None and isinstance(e.ops[0], (ast.Is, ast.IsNot, ast.Eq, ast.NotEq)):
        is_none = isinstance(e.ops[0], (ast.Is, ast.Eq)) == truth
        return e.left.id, ("none" if is_none else "notnone")
    if isinstance(e, ast.Name) and truth:
        return e.id, "notnone"
    return None


def _same_stretch_defs(rd: "ReachingDefs", node: Node, name: str) -> List[Def]:
    """definitions of *name* made in the straight-line stretch around *node* (no branching in between), nearest first"""
    def normal_succ(n):
        ss = [s for s, l in n.succ if l != "exc"]
        return ss[0] if len(ss) == 1 else None

    def normal_pred(n):
        ps = [p for p in n.pred if any(s is n and l != "exc" for s, l in p.succ)]
        if len(ps) != 1:
            return None
        p = ps[0]
        return p if len([s for s, l in p.succ if l != "exc"]) == 1 else None
    out = []
    cur = node
    for _ in range(6):
        cur = normal_succ(cur) if cur is not None else None
        if cur is None or cur.kind in ("test", "for_iter", "return", "raise"):
            break
        out += [e for e in rd.defs_at.get(cur, []) if e.name == name]
        if out:
            return out[:1]
    cur = node
    for _ in range(6):
        cur = normal_pred(cur) if cur is not None else None
        if cur is None or cur.kind in ("test", "for_iter"):
            break
        hit = [e for e in rd.defs_at.get(cur, []) if e.name == name]
        if hit:
            return hit[:1]
    return []


def _prune_correlated(fn: FunctionInfo, rd: "ReachingDefs", defs: List[Def], at: Node) -> List[Def]:
    """Drop definitions that cannot be the live one at *at* because a sibling variable assigned together with them
    (`item, tree = value, None` in one branch, `item, tree = make(), value` in the other) contradicts a test every
    path to *at* has passed (`tree is not None`)."""
    if len(defs) < 2:
        return defs
    facts = {}
    for t, lbl in dominating_tests(fn, at):
        ng = _none_guard(t.ast, lbl)
        if ng is not None:
            facts[ng[0]] = (ng[1], t)
    # flag facts: `if is_field: x = a` ... `if not is_field: use(x)` -- the definition made under the flag's True edge
    # is dead where the same (unchanged) flag is known to be False
    flag_facts = {}
    for t, lbl in dominating_tests(fn, at):
        if isinstance(t.ast, ast.Name):
            ds = frozenset(id(x) for x in rd.reaching(t, t.ast.id))
            if ds:
                flag_facts[(t.ast.id, ds)] = lbl
    if flag_facts:
        kept = []
        for d in defs:
            dead = False
            if d.node is not None:
                for t2, lbl2 in dominating_tests(fn, d.node):
                    if isinstance(t2.ast, ast.Name):
                        k2 = (t2.ast.id, frozenset(id(x) for x in rd.reaching(t2, t2.ast.id)))
                        if k2 in flag_facts and flag_facts[k2] is not lbl2:
                            dead = True
            if not dead:
                kept.append(d)
        defs = kept or defs
    # identity facts: `if cfg is value:` -- where the two are known to be different objects the definition `cfg = value` is
    # dead, where they are known to be the same object the definition `cfg = Fresh()` is (value: never re-bound in between)
    ident = []
    for t, lbl in dominating_tests(fn, at):
        c = t.ast
        if isinstance(c, ast.Compare) and len(c.ops) == 1 and isinstance(c.ops[0], (ast.Is, ast.IsNot)) and isinstance(c.left, ast.Name) \
                and isinstance(c.comparators[0], ast.Name):
            same = isinstance(c.ops[0], ast.Is) == bool(lbl)
            ident.append((c.left.id, c.comparators[0].id, same, t))
            ident.append((c.comparators[0].id, c.left.id, same, t))
    if ident:
        kept = []
        for d in defs:
            dead = False
            for a, b, same, t in ident:
                if d.name != a or d.kind != "assign" or d.node is None or d.value is None:
                    continue
                if not any(x is d for x in rd.reaching(t, a)):
                    continue
                b_then = {id(x) for x in rd.reaching(d.node, b)}
                b_test = {id(x) for x in rd.reaching(t, b)}
                if b_then != b_test:
                    continue
                if not same and isinstance(d.value, ast.Name) and d.value.id == b:
                    dead = True
                if same and isinstance(d.value, ast.Call) and all(x.kind == "param" for x in rd.reaching(t, b)):
                    dead = True
            if not dead:
                kept.append(d)
        defs = kept or defs
    if not facts:
        return defs
    # path form of the same argument (covers parameters, which have no node of their own): a definition of y that contradicts the
    # fact cannot lie on a path to *at* on which it is still y's live definition; x's definition d is live at *at* only if some
    # path from d to *at* avoids those nodes and every other definition of x
    g = rd.cfg
    forbidden = {}
    for yname, (fact, t) in facts.items():
        for e in rd.reaching(t, yname):
            if e.node is None or e.kind not in ("assign", "unpack") or e.value is None:
                continue
            val = e.value
            if e.kind == "unpack":
                if isinstance(val, (ast.Tuple, ast.List)) and e.index is not None and e.index < len(val.elts):
                    val = val.elts[e.index]
                else:
                    continue
            if fact == "notnone" and isinstance(val, ast.Constant) and val.value is None:
                forbidden.setdefault(e.node, set()).add(yname)
            if fact == "none" and (isinstance(val, (ast.List, ast.Dict, ast.Tuple, ast.Set, ast.JoinedStr)) or
                                   (isinstance(val, ast.Constant) and val.value is not None)):
                forbidden.setdefault(e.node, set()).add(yname)
    if forbidden and at is not None:
        xname = defs[0].name
        def_names = {}
        for n, ds in rd.defs_at.items():
            def_names[n] = {dd.name for dd in ds}
        kept = []
        for d in defs:
            start = d.node if d.node is not None else g.entry
            # breadth-first over normal and exception edges with the set of y names whose live definition contradicts the fact;
            # a node that redefines x is left only by its exception edge (the assignment did not happen)
            st0 = (start, frozenset(forbidden.get(start, ())))
            seen_, todo_, live = {st0}, [st0], (start is at and not st0[1])
            while todo_ and not live:
                n, bad = todo_.pop()
                redefines = xname in def_names.get(n, ()) and n is not start
                for s_, lbl in g.edges(n):
                    if redefines and lbl != "exc":
                        continue
                    if s_ is at:
                        if not bad:
                            live = True
                            break
                        continue
                    nb = frozenset((bad - def_names.get(s_, set())) | forbidden.get(s_, set()))
                    key = (s_, nb)
                    if key in seen_:
                        continue
                    seen_.add(key)
                    todo_.append(key)
            if live:
                kept.append(d)
        if kept:
            defs = kept
    keep = []
    for d in defs:
        drop = False
        if d.node is not None:
            for yname, (fact, t) in facts.items():
                if yname == d.name:
                    continue
                # the definition of y in force right after d.node: made by the same statement, or by a neighbour in the same
                # straight-line stretch (`item = value` / `tree = None` written as two statements)
                ys = [e for e in rd.defs_at.get(d.node, []) if e.name == yname]
                if not ys:
                    ys = _same_stretch_defs(rd, d.node, yname)
                if not ys:
                    ys = [e for e in rd.reaching(d.node, yname)]
                if len(ys) != 1:
                    continue
                e = ys[0]
                # ... must still be the one tested (no other definition of y in between on any path)
                at_test = rd.reaching(t, yname)
                if not any(x is e for x in at_test):
                    continue
                val = e.value
                if e.kind == "unpack" and isinstance(val, (ast.Tuple, ast.List)) and e.index is not None and e.index < len(val.elts):
                    val = val.elts[e.index]
                elif e.kind != "assign":
                    continue
                if fact == "notnone" and isinstance(val, ast.Constant) and val.value is None:
                    # only sound if every y-definition that reaches the test and is None is excluded the same way: it is,
                    # this d is simply not live when y was assigned None here
                    drop = True
                if fact == "none" and (isinstance(val, (ast.List, ast.Dict, ast.Tuple, ast.Set, ast.JoinedStr)) or
                                       (isinstance(val, ast.Constant) and val.value is not None)):
                    drop = True
        if not drop:
            keep.append(d)
    return keep or defs


def value_sources(fn: FunctionInfo, expr: ast.expr, at: Optional[Node] = None, _depth=0,
                  _seen=None) -> List[Tuple[str, object]]:
    """Leaves of the def-use closure of *expr*: what the value may come from.

    Returns a list of (kind, payload):
      ('expr', ast)    an expression that is not a plain local name (call, attribute, literal...)
      ('param', name)  a parameter of fn (possibly of an enclosing function)
      ('iter', ast)    an element of the iterable expression (for / comprehension target)
      ('unpack', (ast, index))  component of a tuple-valued expression
      ('except', ast)  a caught exception
      ('unknown', name)
    Conditional expressions and ``or`` are split into their alternatives.
    """
    rd = reaching_defs(fn)
    if _seen is None:
        _seen = set()
    if at is None:
        at = rd.node_of(expr)
    out: List[Tuple[str, object]] = []
    if _depth > 12:
        return [("unknown", ast.unparse(expr)[:30])]
    if isinstance(expr, ast.IfExp):
        return (value_sources(fn, expr.body, at, _depth + 1, _seen)
                + value_sources(fn, expr.orelse, at, _depth + 1, _seen))
    if isinstance(expr, ast.BoolOp) and isinstance(expr.op, ast.Or):
        for v in expr.values:
            out += value_sources(fn, v, at, _depth + 1, _seen)
        return out
    if isinstance(expr, ast.NamedExpr):
        return value_sources(fn, expr.value, at, _depth + 1, _seen)
    if not isinstance(expr, ast.Name):
        return [("expr", expr)]
    if at is None:
        # comprehension-local names etc.
        return [("unknown", expr.id)]
    defs = rd.reaching(at, expr.id)
    if len(defs) > 1:
        defs = _prune_correlated(fn, rd, defs, at)
    if not defs:
        # closure variable or global
        if fn.parent is not None:
            for a in fn.parent.params:
                if a.arg == expr.id:
                    return [("param", expr.id)]
        return [("expr", expr)]
    for d in defs:
        key = (id(d), )
        if key in _seen:
            continue
        _seen.add(key)
        if d.kind == "param":
            out.append(("param", d.name))
        elif d.kind == "assign" and d.value is not None:
            out += value_sources(fn, d.value, d.node, _depth + 1, _seen)
        elif d.kind == "unpack":
            if isinstance(d.value, (ast.Tuple, ast.List)) and d.index is not None and d.index < len(d.value.elts) \
                    and not any(isinstance(e, ast.Starred) for e in d.value.elts):
                # a, b = x, y  -- plain parallel assignment
                out += value_sources(fn, d.value.elts[d.index], d.node, _depth + 1, _seen)
            else:
                # a, b = t  where t is a local that holds a tuple display (an inlined helper's `return x, y`)
                done = False
                if isinstance(d.value, ast.Name) and d.index is not None:
                    inner = value_sources(fn, d.value, d.node, _depth + 1, set(_seen))
                    if inner and all(k == "expr" and isinstance(p, ast.Tuple) and d.index < len(p.elts)
                                     and not any(isinstance(e, ast.Starred) for e in p.elts) for k, p in inner):
                        rd2 = reaching_defs(fn)
                        for k, p in inner:
                            out += value_sources(fn, p.elts[d.index], rd2.node_of(p) or d.node, _depth + 1, _seen)
                        done = True
                if not done:
                    out.append(("unpack", (d.value, d.index, d.node)))
        elif d.kind in ("for",):
            out.append(("iter", (d.value, d.index, d.node)))
        elif d.kind == "with":
            out.append(("with", (d.value, d.node)))
        elif d.kind == "except":
            out.append(("except", d.value))
        elif d.kind == "aug":
            out.append(("expr", d.value))
        elif d.kind == "def":
            out.append(("def", d.node.ast))
        else:
            out.append(("unknown", d.name))
    return out
