"""
Program model of the cincoconfig package: modules, imports, classes (C3 MRO, name mangling,
attribute tables), functions (methods, nested functions, lambdas), module/class constants.

Pure ``ast``; nothing from the analysed package is imported or executed.
"""
from __future__ import annotations

import ast
import os
from typing import Any, Dict, Iterator, List, Optional, Tuple, Union


class AnalysisError(Exception):
    """The tree cannot be analysed (parse error, vanished entry point, unknown construct).

    Always exit status 2 -- never a pass, never a violation."""


BUILTIN_CLASSES = {
    "object": [],
    "list": ["object"],
    "dict": ["object"],
    "set": ["object"],
    "tuple": ["object"],
    "str": ["object"],
    "bytes": ["object"],
    "int": ["object"],
    "bool": ["int"],
    "float": ["object"],
    "type": ["object"],
    "BaseException": ["object"],
    "Exception": ["BaseException"],
    "ValueError": ["Exception"],
    "TypeError": ["Exception"],
    "KeyError": ["LookupError"],
    "IndexError": ["LookupError"],
    "LookupError": ["Exception"],
    "AttributeError": ["Exception"],
    "OSError": ["Exception"],
    "IOError": ["OSError"],
    "FileNotFoundError": ["OSError"],
    "PermissionError": ["OSError"],
    "ImportError": ["Exception"],
    "NotImplementedError": ["RuntimeError"],
    "RuntimeError": ["Exception"],
    "StopIteration": ["Exception"],
    "UnicodeDecodeError": ["ValueError"],
    "UnicodeError": ["ValueError"],
    "ArithmeticError": ["Exception"],
    "OverflowError": ["ArithmeticError"],
    "ZeroDivisionError": ["ArithmeticError"],
    "binascii.Error": ["ValueError"],
    "NamedTuple": ["tuple"],
    "OrderedDict": ["dict"],
}


def builtin_ancestors(name: str) -> List[str]:
    out = [name]
    todo = list(BUILTIN_CLASSES.get(name, []))
    while todo:
        b = todo.pop(0)
        if b not in out:
            out.append(b)
            todo.extend(BUILTIN_CLASSES.get(b, []))
    return out


class FunctionInfo:
    def __init__(self, model, module, node, cls=None, parent=None, name=None):
        self.model = model
        self.module: ModuleInfo = module
        self.node = node
        self.cls: Optional[ClassInfo] = cls
        self.parent: Optional[FunctionInfo] = parent
        self.name = name or getattr(node, "name", "<lambda>")
        self.nested: List[FunctionInfo] = []
        self.decorators = []
        if not isinstance(node, ast.Lambda):
            for dec in node.decorator_list:
                self.decorators.append(ast.unparse(dec))
        self.is_property = "property" in self.decorators
        self.is_setter = any(d.endswith(".setter") for d in self.decorators)
        self.is_classmethod = "classmethod" in self.decorators
        self.is_staticmethod = "staticmethod" in self.decorators

    @property
    def qualname(self) -> str:
        if self.parent is not None:
            return "%s.<locals>.%s" % (self.parent.qualname, self.name)
        if self.cls is not None:
            suffix = ".setter" if self.is_setter else ""
            return "%s.%s%s" % (self.cls.name, self.name, suffix)
        return "%s.%s" % (self.module.short, self.name)

    @property
    def is_method(self) -> bool:
        return self.cls is not None and self.parent is None

    @property
    def params(self) -> List[ast.arg]:
        a = self.node.args
        out = list(a.posonlyargs) + list(a.args)
        if a.vararg:
            out.append(a.vararg)
        out += list(a.kwonlyargs)
        if a.kwarg:
            out.append(a.kwarg)
        return out

    @property
    def positional_params(self) -> List[str]:
        a = self.node.args
        return [x.arg for x in list(a.posonlyargs) + list(a.args)]

    @property
    def self_name(self) -> Optional[str]:
        if self.is_method and not self.is_staticmethod:
            pp = self.positional_params
            return pp[0] if pp else None
        return None

    @property
    def file(self) -> str:
        return self.module.relpath

    @property
    def lineno(self) -> int:
        return self.node.lineno

    def site(self, node=None) -> str:
        ln = getattr(node, "lineno", None) if node is not None else self.lineno
        return "%s:%s" % (self.file, ln if ln is not None else self.lineno)

    def body(self) -> List[ast.stmt]:
        if isinstance(self.node, ast.Lambda):
            return [ast.copy_location(ast.Return(value=self.node.body), self.node.body)]
        return self.node.body

    def __repr__(self):
        return "<fn %s>" % self.qualname


class ClassInfo:
    def __init__(self, model, module, node, name=None):
        self.model = model
        self.module: ModuleInfo = module
        self.node = node
        self.name = name or node.name
        self.base_exprs: List[ast.expr] = list(node.bases) if node is not None else []
        self.bases: List[Union[ClassInfo, str]] = []
        self.mro: List[Union[ClassInfo, str]] = []
        self.methods: Dict[str, FunctionInfo] = {}
        self.setters: Dict[str, FunctionInfo] = {}
        self.class_attrs: Dict[str, ast.expr] = {}
        self.class_annotations: Dict[str, ast.expr] = {}
        self.namedtuple_fields: Optional[List[str]] = None

    def mangle(self, attr: str) -> str:
        if attr.startswith("__") and not attr.endswith("__"):
            return "_%s%s" % (self.name.lstrip("_"), attr)
        return attr

    def package_mro(self) -> List["ClassInfo"]:
        return [c for c in self.mro if isinstance(c, ClassInfo)]

    def builtin_bases(self) -> List[str]:
        return [c for c in self.mro if isinstance(c, str)]

    def is_subclass_of(self, other: Union["ClassInfo", str]) -> bool:
        if isinstance(other, ClassInfo):
            return other in self.mro
        return other in self.mro

    def lookup(self, name: str) -> Optional[FunctionInfo]:
        """Method resolution along the MRO (package classes only)."""
        for c in self.package_mro():
            if name in c.methods:
                return c.methods[name]
        return None

    def lookup_after(self, after: "ClassInfo", name: str):
        """``super()`` inside *after*, for an instance of self: next definition in self's MRO.

        Returns FunctionInfo, a builtin class name (str) providing it, or None."""
        mro = self.mro
        try:
            i = mro.index(after)
        except ValueError:
            return None
        for c in mro[i + 1:]:
            if isinstance(c, ClassInfo):
                if name in c.methods:
                    return c.methods[name]
            else:
                if c in BUILTIN_METHODS and name in BUILTIN_METHODS[c]:
                    return c
                if c == "object" and name in ("__init__", "__setattr__", "__getattribute__",
                                              "__eq__", "__ne__", "__repr__", "__str__",
                                              "__hash__", "__init_subclass__", "__new__"):
                    return c
        return None

    def subclasses(self, strict=False) -> List["ClassInfo"]:
        out = []
        for c in self.model.classes.values():
            if self in c.mro and (c is not self or not strict):
                out.append(c)
        return out

    def __repr__(self):
        return "<class %s>" % self.name


# methods of the builtin containers as of CPython 3.8..3.13 (checked against dir() at run time by
# the OVERRIDE rule; listed here only so that super() resolution knows where a name lives)
BUILTIN_METHODS = {
    "list": set(dir(list)),
    "dict": set(dir(dict)),
    "tuple": set(dir(tuple)),
    "set": set(dir(set)),
    "str": set(dir(str)),
    "bytes": set(dir(bytes)),
    "Exception": set(dir(Exception)),
    "ValueError": set(dir(ValueError)),
    "BaseException": set(dir(BaseException)),
}


class ModuleInfo:
    def __init__(self, model, name, path, relpath, tree, source):
        self.model = model
        self.name = name
        self.path = path
        self.relpath = relpath
        self.tree = tree
        self.source = source
        self.is_package = os.path.basename(path) == "__init__.py"
        # local name -> ('module', dotted) | ('symbol', dotted module, symbol)
        self.imports: Dict[str, Tuple] = {}
        self.classes: Dict[str, ClassInfo] = {}
        self.functions: Dict[str, FunctionInfo] = {}
        self.assigns: Dict[str, List[ast.stmt]] = {}

    @property
    def short(self) -> str:
        s = self.name
        if s.startswith("cincoconfig."):
            s = s[len("cincoconfig."):]
        return s

    def __repr__(self):
        return "<module %s>" % self.name


#: the model built last (one per run): lets small syntactic helpers resolve named constants without being handed the model
CURRENT_MODEL = [None]


class Model:
    PACKAGE = "cincoconfig"

    def __init__(self, repo: str):
        CURRENT_MODEL[0] = self
        self.repo = os.path.abspath(repo)
        self.modules: Dict[str, ModuleInfo] = {}
        self.classes: Dict[str, ClassInfo] = {}
        self.functions: List[FunctionInfo] = []
        self._fn_by_node: Dict[int, FunctionInfo] = {}
        self._load()

    # ------------------------------------------------------------------ loading
    def _load(self):
        pkg = os.path.join(self.repo, self.PACKAGE)
        if not os.path.isdir(pkg):
            raise AnalysisError("package directory not found: %s" % pkg)
        for root, dirs, files in os.walk(pkg):
            dirs[:] = sorted(d for d in dirs if d != "__pycache__")
            for f in sorted(files):
                if not f.endswith(".py"):
                    continue
                path = os.path.join(root, f)
                rel = os.path.relpath(path, self.repo)
                modname = rel[:-3].replace(os.sep, ".")
                if modname.endswith(".__init__"):
                    modname = modname[: -len(".__init__")]
                try:
                    with open(path, "r", encoding="utf-8") as fp:
                        src = fp.read()
                    tree = ast.parse(src, filename=path)
                except (SyntaxError, OSError, UnicodeDecodeError) as err:
                    raise AnalysisError("cannot parse %s: %s" % (rel, err))
                self.modules[modname] = ModuleInfo(self, modname, path, rel, tree, src)
        from .normalize import normalize_module_trees
        self.normalisation_log = normalize_module_trees({name: m.tree for name, m in self.modules.items()})
        for m in self.modules.values():
            self._scan_module(m)
        for c in list(self.classes.values()):
            self._resolve_bases(c)
        for c in self.classes.values():
            c.mro = self._c3(c, [])
        # a function the rules read whose definition is wrapped by a decorator *defined in the package* does not behave like its
        # body any more (a guard that skips it, a check placed after it, a cache in front of it): the analysis cannot speak for
        # it -- fail closed rather than judge the body alone
        from .known_names import KNOWN_NAMES as _KN
        for m in self.modules.values():
            for n in ast.walk(m.tree):
                if isinstance(n, (ast.FunctionDef, ast.AsyncFunctionDef)) and n.name in _KN:
                    for d in n.decorator_list:
                        root = d.func if isinstance(d, ast.Call) else d
                        while isinstance(root, ast.Attribute):
                            root = root.value
                        if isinstance(root, ast.Name):
                            r = self.resolve_name(m, root.id)
                            if r is not None and r[0] in ("func", "class") and not (isinstance(d, ast.Attribute) and d.attr in ("setter", "getter", "deleter")):
                                raise AnalysisError("%s (%s:%d) is wrapped by the package's own decorator %s: what it does is no longer what "
                                                    "its body says, the rules cannot decide it" % (n.name, m.relpath, n.lineno, ast.unparse(d)[:40]))
        # parent pointers for all AST nodes (used by rules)
        for m in self.modules.values():
            for parent in ast.walk(m.tree):
                for child in ast.iter_child_nodes(parent):
                    child._parent = parent  # type: ignore
                # a call that can only raise TypeError when executed is not something the rules reason about
                if isinstance(parent, ast.Call) and isinstance(parent.func, ast.Name) and parent.func.id in ("isinstance", "issubclass") \
                        and (len(parent.args) != 2 or parent.keywords):
                    raise AnalysisError("malformed %s() call at %s:%d" % (parent.func.id, m.relpath, parent.lineno))

    def _scan_module(self, m: ModuleInfo):
        def scan_imports(node):
            for n in ast.walk(node):
                if isinstance(n, ast.Import):
                    for a in n.names:
                        local = a.asname or a.name.split(".")[0]
                        m.imports.setdefault(local, ("module", a.name if a.asname else a.name.split(".")[0]))
                elif isinstance(n, ast.ImportFrom):
                    if n.level:
                        base = m.name.split(".")
                        if not m.is_package:
                            base = base[:-1]
                        if n.level > 1:
                            base = base[: len(base) - (n.level - 1)]
                        src = ".".join(base + ([n.module] if n.module else []))
                    else:
                        src = n.module or ""
                    for a in n.names:
                        local = a.asname or a.name
                        m.imports.setdefault(local, ("symbol", src, a.name))

        scan_imports(m.tree)

        def scan_body(body, in_try=False):
            for st in body:
                if isinstance(st, ast.ClassDef):
                    self._add_class(m, st)
                elif isinstance(st, (ast.FunctionDef, ast.AsyncFunctionDef)):
                    fn = FunctionInfo(self, m, st)
                    m.functions[st.name] = fn
                    self._register_fn(fn)
                elif isinstance(st, (ast.Assign, ast.AnnAssign)):
                    targets = st.targets if isinstance(st, ast.Assign) else [st.target]
                    for t in targets:
                        if isinstance(t, ast.Name):
                            m.assigns.setdefault(t.id, []).append(st)
                            self._maybe_namedtuple(m, t.id, st.value)
                elif isinstance(st, ast.Try):
                    scan_body(st.body, True)
                    for h in st.handlers:
                        scan_body(h.body, True)
                    scan_body(st.orelse, True)
                    scan_body(st.finalbody, True)
                elif isinstance(st, ast.If):
                    scan_body(st.body, True)
                    scan_body(st.orelse, True)
                elif isinstance(st, ast.Expr):
                    # module level mutation of a list constant: FORMATS.append(...)
                    v = st.value
                    if (isinstance(v, ast.Call) and isinstance(v.func, ast.Attribute)
                            and isinstance(v.func.value, ast.Name)):
                        m.assigns.setdefault(v.func.value.id, []).append(st)

        scan_body(m.tree.body)

    def _maybe_namedtuple(self, m, name, value):
        if (isinstance(value, ast.Call) and isinstance(value.func, ast.Name)
                and value.func.id == "NamedTuple" and len(value.args) == 2
                and isinstance(value.args[1], (ast.List, ast.Tuple))):
            fields = []
            for elt in value.args[1].elts:
                if isinstance(elt, ast.Tuple) and elt.elts and isinstance(elt.elts[0], ast.Constant):
                    fields.append(elt.elts[0].value)
            c = ClassInfo(self, m, None, name=name)
            c.namedtuple_fields = fields
            c.bases = ["NamedTuple"]
            c.decl = value
            if name in self.classes:
                raise AnalysisError("duplicate class name %s" % name)
            self.classes[name] = c
            m.classes[name] = c

    def _add_class(self, m: ModuleInfo, node: ast.ClassDef):
        c = ClassInfo(self, m, node)
        if c.name in self.classes:
            raise AnalysisError("duplicate class name %s (%s and %s)" % (
                c.name, self.classes[c.name].module.name, m.name))
        self.classes[c.name] = c
        m.classes[c.name] = c
        for st in node.body:
            if isinstance(st, (ast.FunctionDef, ast.AsyncFunctionDef)):
                fn = FunctionInfo(self, m, st, cls=c)
                if fn.is_setter:
                    c.setters[st.name] = fn
                else:
                    c.methods[st.name] = fn
                self._register_fn(fn)
            elif isinstance(st, ast.Assign):
                for t in st.targets:
                    if isinstance(t, ast.Name):
                        c.class_attrs[t.id] = st.value
            elif isinstance(st, ast.AnnAssign) and isinstance(st.target, ast.Name):
                c.class_annotations[st.target.id] = st.annotation
                if st.value is not None:
                    c.class_attrs[st.target.id] = st.value

    def _register_fn(self, fn: FunctionInfo):
        self.functions.append(fn)
        self._fn_by_node[id(fn.node)] = fn
        # nested defs and lambdas
        def walk(node):
            for child in ast.iter_child_nodes(node):
                if isinstance(child, (ast.FunctionDef, ast.AsyncFunctionDef, ast.Lambda)):
                    sub = FunctionInfo(self, fn.module, child, cls=fn.cls, parent=fn)
                    fn.nested.append(sub)
                    self._register_fn(sub)
                elif isinstance(child, ast.ClassDef):
                    raise AnalysisError("nested class in %s not modelled" % fn.qualname)
                else:
                    walk(child)
        body = fn.node.body if not isinstance(fn.node, ast.Lambda) else [fn.node.body]
        for st in body:
            if isinstance(st, (ast.FunctionDef, ast.AsyncFunctionDef, ast.Lambda)):
                sub = FunctionInfo(self, fn.module, st, cls=fn.cls, parent=fn)
                fn.nested.append(sub)
                self._register_fn(sub)
            else:
                walk(st)
        if not isinstance(fn.node, ast.Lambda):
            for d in fn.node.args.defaults + [x for x in fn.node.args.kw_defaults if x]:
                walk(d)

    def _resolve_bases(self, c: ClassInfo):
        from .known_names import KNOWN_CLASSES as KNOWN_CLASSES_
        if c.node is None:
            return
        out = []
        for b in c.base_exprs:
            r = self.resolve_expr_static(c.module, b)
            if r and r[0] == "class":
                out.append(r[1])
            elif r and r[0] == "builtin":
                out.append(r[1])
            elif r and r[0] == "ext" and r[1].split(".")[-1] in BUILTIN_CLASSES:
                out.append(r[1].split(".")[-1])
            elif r and r[0] == "ext" and c.name not in KNOWN_CLASSES_:
                # a *new* helper class built on a class of another library (threading.local, typing.NamedTuple, enum.Enum ...):
                # the foreign base contributes no method the rules look at
                out.append("object")
            else:
                raise AnalysisError("cannot resolve base %s of class %s" % (ast.unparse(b), c.name))
        c.bases = out or ["object"]

    def _c3(self, c, stack):
        if c in stack:
            raise AnalysisError("inheritance cycle at %s" % c)
        if isinstance(c, str):
            return builtin_ancestors(c)
        seqs = []
        for b in c.bases:
            seqs.append(list(self._c3(b, stack + [c])))
        seqs.append(list(c.bases))
        res = [c]
        while True:
            seqs = [s for s in seqs if s]
            if not seqs:
                break
            for s in seqs:
                cand = s[0]
                if not any(cand in t[1:] for t in seqs):
                    break
            else:
                raise AnalysisError("inconsistent MRO for %s" % c)
            res.append(cand)
            for s in seqs:
                if s and s[0] == cand:
                    del s[0]
        if "object" not in res:
            res.append("object")
        return res

    # ------------------------------------------------------------------ lookups
    def fn_of_node(self, node) -> Optional[FunctionInfo]:
        return self._fn_by_node.get(id(node))

    def cls(self, name: str) -> ClassInfo:
        c = self.classes.get(name)
        if c is None:
            raise AnalysisError("class %s not found (vanished anchor)" % name)
        return c

    def has_cls(self, name: str) -> bool:
        return name in self.classes

    def method(self, cls: str, name: str) -> FunctionInfo:
        c = self.cls(cls)
        fn = c.methods.get(name)
        if fn is None:
            raise AnalysisError("method %s.%s not found (vanished anchor)" % (cls, name))
        return fn

    def setter(self, cls: str, name: str) -> FunctionInfo:
        c = self.cls(cls)
        fn = c.setters.get(name)
        if fn is None:
            raise AnalysisError("property setter %s.%s not found (vanished anchor)" % (cls, name))
        return fn

    def function(self, module_short: str, name: str) -> FunctionInfo:
        m = self.modules.get("%s.%s" % (self.PACKAGE, module_short))
        if m is None:
            raise AnalysisError("module %s not found (vanished anchor)" % module_short)
        fn = m.functions.get(name)
        if fn is None:
            # moved into another module of the package and imported back where it was
            r = self.resolve_name(m, name)
            if r is not None and r[0] == "func":
                r[1].anchor_qualname = "%s.%s" % (module_short, name)
                return r[1]
            raise AnalysisError("function %s.%s not found (vanished anchor)" % (module_short, name))
        return fn

    def module(self, short: str) -> ModuleInfo:
        m = self.modules.get("%s.%s" % (self.PACKAGE, short) if short else self.PACKAGE)
        if m is None:
            raise AnalysisError("module %s not found (vanished anchor)" % short)
        return m

    def all_functions(self) -> Iterator[FunctionInfo]:
        return iter(self.functions)

    def enclosing_function(self, node) -> Optional[FunctionInfo]:
        n = node
        while n is not None:
            if isinstance(n, (ast.FunctionDef, ast.AsyncFunctionDef, ast.Lambda)):
                fn = self._fn_by_node.get(id(n))
                if fn is not None:
                    return fn
            n = getattr(n, "_parent", None)
        return None

    # ------------------------------------------------------------------ name resolution
    def resolve_name(self, module: ModuleInfo, name: str, _depth=0):
        """Resolve a module-level name.

        -> ('class', ClassInfo) | ('func', FunctionInfo) | ('const', module, name)
           | ('ext', dotted) | ('extmod', dotted) | ('builtin', name) | None
        """
        if _depth > 10:
            return None
        if name in module.classes:
            return ("class", module.classes[name])
        if name in module.functions:
            return ("func", module.functions[name])
        if name in module.assigns:
            return ("const", module, name)
        if name in module.imports:
            imp = module.imports[name]
            if imp[0] == "module":
                if imp[1] in self.modules:
                    return ("module", self.modules[imp[1]])
                return ("extmod", imp[1])
            src, sym = imp[1], imp[2]
            if src in self.modules:
                target = self.modules[src]
                r = self.resolve_name(target, sym, _depth + 1)
                if r is not None:
                    return r
                sub = "%s.%s" % (src, sym)
                if sub in self.modules:
                    return ("module", self.modules[sub])
                # star import
                return None
            sub = "%s.%s" % (src, sym)
            if sub in self.modules:
                return ("module", self.modules[sub])
            if src.split(".")[0] == self.PACKAGE:
                return None
            if src in ("typing", "collections") and sym in BUILTIN_CLASSES:
                return ("builtin", sym)
            return ("ext", "%s.%s" % (src, sym))
        if name in BUILTIN_CLASSES:
            return ("builtin", name)
        import builtins
        if hasattr(builtins, name):
            return ("builtin", name)
        return None

    def resolve_expr_static(self, module: ModuleInfo, expr: ast.expr):
        """Resolve a Name / dotted Attribute expression at module scope."""
        if isinstance(expr, ast.Name):
            return self.resolve_name(module, expr.id)
        if isinstance(expr, ast.Attribute):
            base = self.resolve_expr_static(module, expr.value)
            if base is None:
                return None
            if base[0] == "module":
                return self.resolve_name(base[1], expr.attr)
            if base[0] in ("extmod", "ext"):
                return ("ext", "%s.%s" % (base[1], expr.attr))
            if base[0] == "class":
                c = base[1]
                for k in c.package_mro():
                    if expr.attr in k.class_attrs:
                        return ("classconst", k, expr.attr)
                    if expr.attr in k.methods:
                        return ("func", k.methods[expr.attr])
                return None
            if base[0] == "builtin":
                return ("ext", "%s.%s" % (base[1], expr.attr))
        return None

    # ------------------------------------------------------------------ constants
    def const_eval(self, module: ModuleInfo, expr: ast.expr, cls: Optional[ClassInfo] = None,
                   _depth=0) -> Any:
        """Evaluate a constant expression (literals, tuples, lists, dicts, names of constants,
        ``Class.CONST``, ``self.CONST`` when *cls* is given). Raises ValueError if not constant.
        Unresolvable leaves that are names of functions/classes/externals evaluate to a
        ``Symbol``."""
        if _depth > 20:
            raise ValueError("too deep")
        if isinstance(expr, ast.Constant):
            return expr.value
        if isinstance(expr, (ast.Tuple, ast.List)):
            vals = [self.const_eval(module, e, cls, _depth + 1) for e in expr.elts]
            return tuple(vals) if isinstance(expr, ast.Tuple) else vals
        if isinstance(expr, ast.Dict):
            def _val(v):
                try:
                    return self.const_eval(module, v, cls, _depth + 1)
                except ValueError:
                    return Symbol("expr", ast.unparse(v)[:60])      # a table of callables: the keys are what is constant
            if any(k is None for k in expr.keys):
                raise ValueError("dict display with ** unpacking")
            return {self.const_eval(module, k, cls, _depth + 1): _val(v) for k, v in zip(expr.keys, expr.values)}
        if isinstance(expr, ast.Call) and isinstance(expr.func, ast.Name) and expr.func.id in ("tuple", "list", "sorted", "set", "frozenset") \
                and len(expr.args) == 1 and not expr.keywords:
            # tuple(TABLE): the keys of a constant dict / the elements of a constant sequence
            inner = self.const_eval(module, expr.args[0], cls, _depth + 1)
            if isinstance(inner, dict):
                inner = list(inner.keys())
            if isinstance(inner, (tuple, list, set, frozenset)):
                vals = list(inner)
                if expr.func.id == "sorted":
                    try:
                        vals = sorted(vals)
                    except TypeError:
                        raise ValueError("unsortable constant")
                return {"tuple": tuple, "list": list, "sorted": list, "set": frozenset, "frozenset": frozenset}[expr.func.id](vals)
            raise ValueError("not a constant collection")
        if isinstance(expr, ast.UnaryOp) and isinstance(expr.op, ast.USub):
            return -self.const_eval(module, expr.operand, cls, _depth + 1)
        if isinstance(expr, ast.BinOp) and isinstance(expr.op, (ast.Add, ast.Mult, ast.Sub)):
            l = self.const_eval(module, expr.left, cls, _depth + 1)
            r = self.const_eval(module, expr.right, cls, _depth + 1)
            if isinstance(l, Symbol) or isinstance(r, Symbol):
                raise ValueError("symbolic arithmetic")
            if isinstance(expr.op, ast.Add):
                return l + r
            if isinstance(expr.op, ast.Sub):
                return l - r
            return l * r
        if isinstance(expr, ast.Name):
            if cls is not None:
                # a name used inside a class body refers to an earlier class attribute first (ENCODINGS = (_BASE64, _HEX))
                for k in cls.package_mro()[:1]:
                    if expr.id in k.class_attrs:
                        return self.const_eval(k.module, k.class_attrs[expr.id], k, _depth + 1)
            r = self.resolve_name(module, expr.id)
            if r is None:
                raise ValueError("unresolved name %s" % expr.id)
            if r[0] == "const":
                return self.module_const(r[1], r[2], _depth + 1)
            if r[0] == "class":
                return Symbol("class", r[1].name)
            if r[0] == "func":
                return Symbol("func", r[1].qualname)
            if r[0] in ("ext", "extmod", "builtin"):
                return Symbol(r[0], r[1])
            raise ValueError("not a constant: %s" % expr.id)
        if isinstance(expr, ast.Attribute):
            if (isinstance(expr.value, ast.Name) and cls is not None
                    and expr.value.id in ("self", "cls")):
                for k in cls.package_mro():
                    if expr.attr in k.class_attrs:
                        return self.const_eval(k.module, k.class_attrs[expr.attr], k, _depth + 1)
                raise ValueError("no class constant %s" % expr.attr)
            r = self.resolve_expr_static(module, expr)
            if r is None:
                raise ValueError("unresolved %s" % ast.unparse(expr))
            if r[0] == "classconst":
                return self.const_eval(r[1].module, r[1].class_attrs[r[2]], r[1], _depth + 1)
            if r[0] == "const":
                return self.module_const(r[1], r[2], _depth + 1)
            if r[0] == "class":
                return Symbol("class", r[1].name)
            if r[0] == "func":
                return Symbol("func", r[1].qualname)
            if r[0] in ("ext", "extmod", "builtin"):
                return Symbol(r[0], r[1])
        raise ValueError("not constant: %s" % ast.dump(expr)[:80])

    def module_const(self, module: ModuleInfo, name: str, _depth=0) -> Any:
        sts = module.assigns.get(name)
        if not sts:
            raise ValueError("no assignment for %s" % name)
        value = None
        have = False
        for st in sts:
            if isinstance(st, (ast.Assign, ast.AnnAssign)):
                if st.value is None:
                    continue
                if have and not _inside_except(st):
                    # re-assignment: only the try/except ImportError idiom is modelled
                    # (X = False in the handler, X = True in the else)
                    pass
                v = self.const_eval(module, st.value, None, _depth + 1)
                if have and v != value:
                    # conditional flag (IS_AVAILABLE): the value with the import present
                    value = v if not _inside_except(st) else value
                else:
                    value = v
                have = True
            elif isinstance(st, ast.Expr) and have and isinstance(value, list):
                call = st.value
                if call.func.attr == "append" and len(call.args) == 1:
                    value = value + [self.const_eval(module, call.args[0], None, _depth + 1)]
                elif call.func.attr == "extend" and len(call.args) == 1:
                    value = value + list(self.const_eval(module, call.args[0], None, _depth + 1))
        if not have:
            raise ValueError("no value for %s" % name)
        return value

    # ------------------------------------------------------------------ stats
    def stats(self) -> Dict[str, int]:
        ncalls = 0
        for m in self.modules.values():
            for n in ast.walk(m.tree):
                if isinstance(n, ast.Call):
                    ncalls += 1
        return {
            "modules": len(self.modules),
            "classes": len([c for c in self.classes.values() if c.node is not None]),
            "functions": len([f for f in self.functions if not isinstance(f.node, ast.Lambda)]),
            "call_sites": ncalls,
        }


def _inside_except(node) -> bool:
    n = getattr(node, "_parent", None)
    while n is not None:
        if isinstance(n, ast.ExceptHandler):
            return True
        n = getattr(n, "_parent", None)
    return False


class Symbol:
    """A non-literal leaf in an evaluated constant (a class, function or external name)."""

    def __init__(self, kind: str, name: str):
        self.kind = kind
        self.name = name

    def __eq__(self, other):
        return isinstance(other, Symbol) and (self.kind, self.name) == (other.kind, other.name)

    def __hash__(self):
        return hash((self.kind, self.name))

    def __repr__(self):
        return "<%s %s>" % (self.kind, self.name)
