"""
Path helpers on top of the CFG: dominance by nodes / guard edges, must-pass-through, expression
identity through reaching definitions.
"""
from __future__ import annotations

import ast
from typing import Callable, Iterable, List, Optional, Set, Tuple

from .cfg import CFG, Node
from .defuse import reaching_defs
from .effects import Analysis
from .model import FunctionInfo


def oracle(an: Analysis, fn: FunctionInfo):
    return lambda n: an.node_may_raise(fn, n)


def reachable_from_entry(an: Analysis, fn: FunctionInfo) -> Set[Node]:
    g = an.cfg(fn)
    return g.reachable([g.entry], may_raise=oracle(an, fn))


def path_avoiding(an: Analysis, fn: FunctionInfo, start: Node, goal: Callable[[Node], bool],
                  avoid: Callable[[Node], bool], from_successors=False, edge_filter=None,
                  exceptions=True) -> Optional[List[Node]]:
    """A path start -> goal that visits no node satisfying *avoid* (start excluded)."""
    g = an.cfg(fn)
    mr = oracle(an, fn) if exceptions else (lambda n: False)
    return g.path(start, goal, may_raise=mr, stop=lambda n: avoid(n) and not goal(n),
                  from_successors=from_successors, edge_filter=edge_filter)


def must_pass(an: Analysis, fn: FunctionInfo, target: Node, through: Callable[[Node], bool],
              start: Optional[Node] = None) -> Optional[List[Node]]:
    """None if every path start(entry) -> target passes a node satisfying *through*; otherwise a
    counterexample path."""
    g = an.cfg(fn)
    s = start or g.entry
    if through(s):
        return None
    return path_avoiding(an, fn, s, lambda n: n is target, lambda n: through(n) and n is not target)


def edge_dominates(an: Analysis, fn: FunctionInfo, test: Node, label, target: Node, avoid=None) -> bool:
    """Every path entry -> target (that stays clear of the nodes in *avoid*) takes the edge (test, label)."""
    g = an.cfg(fn)
    mr = oracle(an, fn)
    # *avoid* may hold nodes and (test node, label) edges: "the paths that do not take this outcome of that test"
    a_nodes = {x for x in (avoid or ()) if not isinstance(x, tuple)}
    a_edges = {(id(x[0]), x[1]) for x in (avoid or ()) if isinstance(x, tuple)}
    p = g.path(g.entry, lambda n: n is target, may_raise=mr,
               edge_filter=lambda a, b, lbl: not (a is test and lbl == label) and (id(a), lbl) not in a_edges,
               stop=(lambda n: n in a_nodes and n is not target) if a_nodes else None)
    return p is None


def dominating_guards(an: Analysis, fn: FunctionInfo, target: Node, avoid=None) -> List[Tuple[Node, bool]]:
    """(test node, truth) pairs such that every path from entry to target takes that branch.  With *avoid*: every path
    that does not pass one of those nodes -- "the paths on which this definition is still the live one"."""
    g = an.cfg(fn)
    out = []
    reach = reachable_from_entry(an, fn)
    if target not in reach:
        return out
    a_nodes = {x for x in (avoid or ()) if not isinstance(x, tuple)}
    a_edges = {(id(x[0]), x[1]) for x in (avoid or ()) if isinstance(x, tuple)}
    if avoid and g.path(g.entry, lambda n: n is target, may_raise=oracle(an, fn), stop=lambda n: n in a_nodes and n is not target,
                        edge_filter=lambda a, b, lbl: (id(a), lbl) not in a_edges) is None:
        return out      # no such path at all: nothing can be claimed
    for t in g.nodes:
        if t.kind != "test" or t not in reach:
            continue
        for lbl in (True, False):
            if edge_dominates(an, fn, t, lbl, target, avoid):
                out.append((t, lbl))
    return out


def same_name_value(fn: FunctionInfo, a: ast.expr, na: Optional[Node], b: ast.expr, nb: Optional[Node]) -> bool:
    """Do the two expressions denote the same value (same local with the same reaching
    definitions, ``self``, or equal attribute chains over such)?"""
    if isinstance(a, ast.Name) and isinstance(b, ast.Name):
        if a.id != b.id:
            # different local names may still be copies of one value (aliases introduced by refactoring / inlining)
            from .defuse import value_sources
            rd = reaching_defs(fn)
            sa = value_sources(fn, a, na or rd.node_of(a))
            sb = value_sources(fn, b, nb or rd.node_of(b))
            ka = {(k, id(p) if isinstance(p, ast.AST) else repr(p)) for k, p in sa}
            kb = {(k, id(p) if isinstance(p, ast.AST) else repr(p)) for k, p in sb}
            return bool(ka) and ka == kb and not any(k in ("unknown",) for k, _ in ka)
        if a.id == fn.self_name:
            return True
        rd = reaching_defs(fn)
        na = na or rd.node_of(a)
        nb = nb or rd.node_of(b)
        if na is None or nb is None:
            return False
        da = set(id(d) for d in rd.reaching(na, a.id))
        db = set(id(d) for d in rd.reaching(nb, b.id))
        # an assign node's own definition is not in its in-set; ignore that asymmetry
        return bool(da) and da == db
    if isinstance(a, ast.Name) and isinstance(b, ast.Name):
        pass
    if isinstance(a, ast.Attribute) and isinstance(b, ast.Attribute):
        return a.attr == b.attr and same_name_value(fn, a.value, na, b.value, nb)
    if isinstance(a, ast.Constant) and isinstance(b, ast.Constant):
        return a.value == b.value
    return False


def contains_node(container: ast.AST, node: ast.AST) -> bool:
    for n in ast.walk(container):
        if n is node:
            return True
    return False


def calls_in(expr: ast.AST) -> List[ast.Call]:
    return [n for n in ast.walk(expr) if isinstance(n, ast.Call)]


def returns_of(an: Analysis, fn: FunctionInfo) -> List[Node]:
    reach = reachable_from_entry(an, fn)
    return [n for n in an.cfg(fn).nodes if n.kind == "return" and n in reach]


def falls_through(an: Analysis, fn: FunctionInfo) -> bool:
    """Can control reach the end of the function without a return statement?"""
    g = an.cfg(fn)
    reach = reachable_from_entry(an, fn)
    for p in g.exit.pred:
        if p in reach and not is_return_tail(p) and any(s is g.exit for s, _ in p.succ):
            return True
    return False


def is_return_tail(p, _depth=0) -> bool:
    """a return statement, or the __exit__ of a `with` that a return inside it runs on its way out"""
    if p.kind == "return":
        return True
    if p.kind == "with_exit" and p.pred and _depth < 6:
        return all(is_return_tail(q, _depth + 1) for q in p.pred)
    return False


def is_method_call_on_self(fn: FunctionInfo, call: ast.Call, name: str) -> bool:
    f = call.func
    return (isinstance(f, ast.Attribute) and f.attr == name and isinstance(f.value, ast.Name)
            and f.value.id == fn.self_name)


def must_complete(an: Analysis, fn: FunctionInfo, target: Node, through: Callable[[Node], bool],
                  start: Optional[Node] = None) -> Optional[List[Node]]:
    """Like must_pass, but a *through* node only counts when it completes normally: a path may
    leave it along its exception edge (e.g. into a handler that swallows) and still be a
    counterexample."""
    g = an.cfg(fn)
    s = start or g.entry
    return g.path(s, lambda n: n is target, may_raise=oracle(an, fn),
                  edge_filter=lambda a, b, lbl: not (through(a) and lbl != "exc" and a is not target))


def mentions_params(fn: FunctionInfo, expr: ast.expr, node: Optional[Node], params, _depth=0) -> bool:
    """Does the value of expr derive (through local definitions and nested sub-expressions) from
    one of the named parameters?"""
    from .defuse import value_sources
    if _depth > 8:
        return False
    for kind, payload in value_sources(fn, expr, node):
        if kind == "param" and payload in params:
            return True
        if kind == "expr" and isinstance(payload, ast.AST) and not isinstance(payload, ast.Name):
            for sub in ast.iter_child_nodes(payload):
                for nm in ast.walk(sub):
                    if isinstance(nm, ast.Name) and isinstance(nm.ctx, ast.Load):
                        if mentions_params(fn, nm, reaching_defs(fn).node_of(nm) or node, params, _depth + 1):
                            return True
        if kind in ("unpack", "iter", "with") and isinstance(payload, tuple) and isinstance(payload[0], ast.AST):
            for nm in ast.walk(payload[0]):
                if isinstance(nm, ast.Name) and isinstance(nm.ctx, ast.Load):
                    if mentions_params(fn, nm, payload[-1] if isinstance(payload[-1], Node) else node, params, _depth + 1):
                        return True
    return False


def deref(fn: FunctionInfo, expr: ast.expr, node: Optional[Node] = None, depth=0) -> ast.expr:
    """Follow a local name that has exactly one (expression) definition to that expression."""
    from .defuse import value_sources
    if depth > 4 or not isinstance(expr, ast.Name):
        return expr
    srcs = value_sources(fn, expr, node)
    if len(srcs) == 1 and srcs[0][0] == "expr" and isinstance(srcs[0][1], ast.AST) and srcs[0][1] is not expr:
        return deref(fn, srcs[0][1], None, depth + 1)
    return expr


def expand_aliases(fn: FunctionInfo, expr: ast.expr, node: Optional[Node] = None) -> ast.expr:
    """A copy of expr in which local names that are plain copies of one attribute chain / name / parameter-free
    expression are replaced by what they stand for (so `env_name` reads as `field.env`)."""
    import copy
    from .defuse import value_sources
    rd = reaching_defs(fn)

    def pure(e):
        if isinstance(e, ast.Attribute):
            return pure(e.value)
        if isinstance(e, ast.Name):
            return True
        if isinstance(e, ast.Constant):
            return True
        if isinstance(e, ast.Compare):
            return pure(e.left) and all(pure(c) for c in e.comparators)
        if isinstance(e, ast.UnaryOp) and isinstance(e.op, ast.Not):
            return pure(e.operand)
        if isinstance(e, ast.BoolOp):
            return all(pure(v) for v in e.values)
        if isinstance(e, ast.Call) and isinstance(e.func, ast.Name) and e.func.id in ("isinstance", "len", "bool") and not e.keywords:
            return all(pure(x) or isinstance(x, ast.Tuple) for x in e.args)
        return False
    # work on a copy but resolve names on the original nodes (they carry positions in the CFG)
    mapping = {}
    for n in ast.walk(expr):
        if isinstance(n, ast.Name) and isinstance(n.ctx, ast.Load):
            at = rd.node_of(n) or node
            srcs = value_sources(fn, n, at)
            if len(srcs) == 1 and srcs[0][0] == "unpack" and isinstance(srcs[0][1][0], (ast.Tuple, ast.List)) and srcs[0][1][1] is not None \
                    and srcs[0][1][1] < len(srcs[0][1][0].elts):
                srcs = [("expr", srcs[0][1][0].elts[srcs[0][1][1]])]        # lower, upper = (self.min, self.max)
            if len(srcs) == 1 and srcs[0][0] == "expr" and not isinstance(srcs[0][1], (ast.Name, ast.Constant)) \
                    and pure(srcs[0][1]) and srcs[0][1] is not n:
                mapping[id(n)] = srcs[0][1]
    if not mapping:
        return expr

    def rebuild(e):
        if id(e) in mapping:
            return copy.deepcopy(mapping[id(e)])
        new = copy.copy(e)
        for field, value in ast.iter_fields(e):
            if isinstance(value, list):
                setattr(new, field, [rebuild(v) if isinstance(v, ast.AST) else v for v in value])
            elif isinstance(value, ast.AST):
                setattr(new, field, rebuild(value))
        return new
    return rebuild(expr)


def is_param(fn: FunctionInfo, expr: ast.expr, node: Optional[Node], pname: str) -> bool:
    from .defuse import value_sources
    if not isinstance(expr, ast.Name):
        return False
    srcs = value_sources(fn, expr, node)
    return bool(srcs) and all(k == "param" and p == pname for k, p in srcs)


def none_test(e: ast.expr, want_none: bool, strict: bool = False) -> Optional[ast.expr]:
    """X when *e* is `X is None` / `not X` (want_none) or `X is not None` / plain `X` (not want_none); strict: identity
    tests only (a falsy value is not None)"""
    if isinstance(e, ast.Compare) and len(e.ops) == 1 and isinstance(e.comparators[0], ast.Constant) and e.comparators[0].value is None:
        if isinstance(e.ops[0], (ast.Is, ast.Eq) if want_none else (ast.IsNot, ast.NotEq)):
            return e.left
        return None
    if strict:
        return None
    if want_none and isinstance(e, ast.UnaryOp) and isinstance(e.op, ast.Not):
        return e.operand
    if not want_none and isinstance(e, (ast.Attribute, ast.Name)):
        return e
    return None


def known_not_none(an: Analysis, fn: FunctionInfo, name: ast.Name, node: Node) -> bool:
    """is the local *name* guarded to be not None (or truthy) at *node*?"""
    for t, tr in dominating_guards(an, fn, node):
        a = none_test(t.ast, False) if tr else none_test(t.ast, True)
        if isinstance(a, ast.Name) and a.id == name.id and same_name_value(fn, a, t, name, node):
            return True
    return False


def def_types(an: Analysis, fn: FunctionInfo, name: ast.Name, node: Node):
    """Union of the types of the definitions of *name* that can be live at *node* (after the guard-correlated pruning of
    engine.defuse): sharper than the flow-sensitive join when the live definition is selected by a flag."""
    from .defuse import _prune_correlated
    from .types import ANY
    rd = reaching_defs(fn)
    ft = an.ft(fn)
    defs = rd.reaching(node, name.id)
    if len(defs) > 1:
        defs = _prune_correlated(fn, rd, defs, node)
    out = set()
    for d in defs:
        if d.kind == "param":
            t = ft.type_at(node, name)
        elif d.kind == "assign" and d.value is not None and d.node is not None:
            # the value as typed where it is assigned (parameters narrowed by the branch the assignment sits in)
            t = ft.type_after(d.node, d.value) if hasattr(ft, "type_after") else ft.type_at(d.node, d.value)
        else:
            return ANY
        if t == ANY or not t:
            return ANY
        out |= set(t)
    return frozenset(out) if out else ANY


def guard_atoms(an: Analysis, fn: FunctionInfo, target: Node, avoid=None, extra=()) -> List[Tuple[ast.expr, bool, Node]]:
    """What is known to hold at *target*, as (expression, truth, test node) atoms: the dominating test outcomes with local
    boolean flags replaced by what they were computed from (`trusted = is_proxy and self._ok(x)` ... `if trusted:`), conjunctions
    known true / disjunctions known false split into their parts, negations pushed down.  A flag is only expanded when it has
    a single live definition and nothing it mentions was re-bound in between."""
    rd = reaching_defs(fn)
    out: List[Tuple[ast.expr, bool, Node]] = []

    def flag_def(name: ast.Name, at: Node):
        defs = rd.reaching(at, name.id)
        if len(defs) != 1 or defs[0].kind != "assign" or defs[0].value is None or defs[0].node is None:
            return None
        v = defs[0].value
        if not isinstance(v, (ast.BoolOp, ast.Compare, ast.Call, ast.UnaryOp, ast.Name)):
            return None
        for x in ast.walk(v):
            if isinstance(x, ast.Name) and isinstance(x.ctx, ast.Load):
                a = {id(d) for d in rd.reaching(defs[0].node, x.id)}
                b = {id(d) for d in rd.reaching(at, x.id)}
                if a != b:
                    return None
        return v, defs[0].node

    def add(e, truth, t, depth=0):
        if depth > 6:
            out.append((e, truth, t))
            return
        if isinstance(e, ast.UnaryOp) and isinstance(e.op, ast.Not):
            return add(e.operand, not truth, t, depth + 1)
        if isinstance(e, ast.BoolOp) and ((isinstance(e.op, ast.And) and truth) or (isinstance(e.op, ast.Or) and not truth)):
            for v in e.values:
                add(v, truth, t, depth + 1)
            return
        if isinstance(e, ast.Call) and isinstance(e.func, ast.Name) and e.func.id == "bool" and len(e.args) == 1:
            return add(e.args[0], truth, t, depth + 1)
        if not truth and isinstance(e, ast.Compare) and len(e.ops) == 1 and isinstance(e.ops[0], (ast.IsNot, ast.NotEq, ast.NotIn)):
            # `a is not b` known false  ==  `a is b` known true
            flipped = ast.Compare(left=e.left, ops=[{ast.IsNot: ast.Is, ast.NotEq: ast.Eq, ast.NotIn: ast.In}[type(e.ops[0])]()], comparators=e.comparators)
            ast.copy_location(flipped, e)
            out.append((flipped, True, t))
        out.append((e, truth, t))
        if isinstance(e, ast.Name):
            fd = flag_def(e, t)
            if fd is not None:
                add(fd[0], truth, t, depth + 1)
    for t, tr in dominating_guards(an, fn, target, avoid):
        add(t.ast, tr, t)
    for e, tr in extra:             # conditions known for another reason (the test of the conditional expression the target sits in)
        add(e, tr, target)
    return out
