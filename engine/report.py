"""
Obligations, known findings, evidence files and the command line driver shared by all checks.
"""
from __future__ import annotations

import ast
import json
import os
import re
import sys
import time
import traceback
from typing import Callable, Dict, List, Optional

from .model import AnalysisError, FunctionInfo, Model

VERIF = os.path.dirname(os.path.dirname(os.path.abspath(__file__)))

ASSUMPTIONS = [
    "A1 Python semantics as modelled by the engine: evaluation order, exception propagation, C3 MRO, "
    "isinstance narrowing, super() resolution.",
    "A2 No monkey-patching; user callables (validator=, virtual getters/setters, instance methods, "
    "callable defaults, hash constructors) and user subclasses are outside; reflection is limited "
    "to the census checked on every run (a new dynamic feature is exit 2).",
    "A3 Primitive container operations on computed operands (dict.__setitem__, set.add/discard, "
    "list.append) and closing a file do not raise; MemoryError, KeyboardInterrupt, RecursionError "
    "are outside every property.",
    "A4 Third-party/stdlib functions named in the engine tables behave as documented (os.urandom is "
    "random, b64decode inverts b64encode, bytes.fromhex inverts bytes.hex, argparse defaults).",
    "A5 Class-hierarchy analysis over-approximates dynamic dispatch; name-based fallback only for "
    "names that do not collide with builtin container/str/file methods.",
]


def norm(text: str) -> str:
    return re.sub(r"\s+", " ", text).strip()


def src(node) -> str:
    if node is None:
        return ""
    if isinstance(node, str):
        return norm(node)
    try:
        return norm(ast.unparse(node))
    except Exception:  # pragma: no cover
        return type(node).__name__


class Obligation:
    def __init__(self, pid, rule, qualname, site, construct, ok, why, nontrivial=True):
        self.pid = pid
        self.rule = rule
        self.qualname = qualname
        self.site = site
        self.construct = construct
        self.ok = ok
        self.why = why
        self.nontrivial = nontrivial
        self.known = False

    @property
    def key(self) -> str:
        return "%s|%s|%s" % (self.rule, self.qualname, self.construct)

    def to_json(self):
        return {
            "rule": self.rule,
            "qualname": self.qualname,
            "site": self.site,
            "construct": self.construct,
            "verdict": "discharged" if self.ok else ("known-finding" if self.known else "VIOLATED"),
            "why": self.why,
        }


class KnownFindings:
    def __init__(self, path=None):
        self.path = path or os.path.join(VERIF, "KNOWN_FINDINGS.txt")
        self.findings: Dict[str, Dict[str, str]] = {}
        self.fixed: List[str] = []
        if os.path.exists(self.path):
            for line in open(self.path, encoding="utf-8"):
                line = line.strip()
                if not line or line.startswith("#"):
                    continue
                if line.startswith("finding:"):
                    m = re.match(r"finding:\s+property=(\S+)\s+key=(.*?)\s+::\s+(.*)$", line)
                    if not m:
                        raise AnalysisError("malformed KNOWN_FINDINGS line: %s" % line)
                    self.findings[(m.group(1), norm(m.group(2)))] = m.group(3)
                elif line.startswith("fixed:"):
                    self.fixed.append(line)

    def lookup(self, pid, key) -> Optional[str]:
        return self.findings.get((pid, norm(key)))


class Ctx:
    """What a property checker gets: the analysis, and ``ob`` to record obligations."""

    def __init__(self, pid: str, an, tier: str):
        self.pid = pid
        self.an = an
        self.model: Model = an.model
        self.tier = tier
        self.obligations: List[Obligation] = []
        self.notes: List[str] = []
        self.counters: Dict[str, int] = {}

    def ob(self, rule: str, where, construct, ok: bool, why: str, node=None, nontrivial=True):
        """Record one evaluated rule instance.

        where: FunctionInfo | ClassInfo | str (qualname); node: ast/CFG node for the line."""
        if isinstance(where, FunctionInfo):
            # a function that moved to another module and is imported back where the rules look for it keeps its old address
            q = getattr(where, "anchor_qualname", None) or where.qualname
            a = getattr(node, "ast", node)
            if a is None or getattr(a, "lineno", None) is None:
                a = getattr(node, "stmt", None) if node is not None else None
            site = where.site(a) if a is not None else where.site()
        elif hasattr(where, "module") and hasattr(where, "name"):
            q = where.name
            ln = getattr(getattr(node, "ast", node), "lineno", None) or (where.node.lineno if where.node is not None else 0)
            site = "%s:%s" % (where.module.relpath, ln)
        else:
            q = str(where)
            site = q
        o = Obligation(self.pid, "%s.%s" % (self.pid, rule), q, site, src(construct), bool(ok), why, nontrivial)
        self.obligations.append(o)
        return o

    def need(self, cond: bool, what: str):
        if not cond:
            raise AnalysisError(what)

    def count(self, name: str, n: int = 1):
        self.counters[name] = self.counters.get(name, 0) + n

    def note(self, text: str):
        self.notes.append(text)


def run_property(pid: str, checker: Callable[[Ctx], None], meta: dict, tier: str, repo: str,
                 replay: Optional[str] = None, write_evidence=True, quiet=False,
                 known_path: Optional[str] = None, out=None):
    """Run one property check. Returns (exit_code, ctx)."""
    from .effects import Analysis
    t0 = time.time()
    out = out or sys.stdout
    model = Model(repo)
    an = Analysis(model)
    reflection_census(model, getattr(checker, "__globals__", {}).get("TOLERATED_REFLECTION"))
    ctx = Ctx(pid, an, tier)
    checker(ctx)
    if not ctx.obligations:
        raise AnalysisError("no rule instance matched for %s (vacuous check)" % pid)
    known = KnownFindings(known_path)
    violations: List[Obligation] = []
    knowns: List[Obligation] = []
    only_key = None
    if replay:
        with open(replay, encoding="utf-8") as fp:
            only_key = json.load(fp).get("key")
    for o in ctx.obligations:
        if o.ok:
            continue
        if only_key is not None and o.key != only_key:
            continue
        desc = known.lookup(pid, o.key)
        if desc is not None:
            o.known = True
            knowns.append(o)
        else:
            violations.append(o)
    for o in knowns:
        print("KNOWN-FINDING: property=%s %s [%s at %s] %s" % (pid, known.lookup(pid, o.key), o.rule, o.site, o.why), file=out)
    replay_paths = []
    if violations:
        rdir = os.path.join(VERIF, "out", "replay")
        os.makedirs(rdir, exist_ok=True)
        for i, o in enumerate(violations):
            path = os.path.join(rdir, "%s.%d.json" % (pid, i))
            with open(path, "w", encoding="utf-8") as fp:
                json.dump({"property": pid, "key": o.key, "obligation": o.to_json(),
                           "how": "./check %s --replay %s re-evaluates this obligation on /repo" % (pid, path)}, fp, indent=1)
            replay_paths.append(path)
            print("  %s at %s in %s: %s\n    construct: %s" % (o.rule, o.site, o.qualname, o.why, o.construct), file=out)
            print("VIOLATION property=%s replay=%s" % (pid, path), file=out)
    wall = time.time() - t0
    stats = model.stats()
    ts = an.types.stats
    distinct = len({o.key for o in ctx.obligations if o.nontrivial})
    ev = {
        "property_id": pid,
        "tier": tier,
        "seed": int(os.environ.get("VERIF_SEED", "0") or 0),
        "level": "other",
        "coverage": {
            "explanation": meta.get("explanation", ""),
            "decided_clauses": meta.get("decided", []),
            "not_decided": meta.get("not_decided", []),
            "obligations": len(ctx.obligations),
            "discharged": len([o for o in ctx.obligations if o.ok]),
            "known_findings": len(knowns),
            "evaluations": len(ctx.obligations),
            "distinct_nontrivial": distinct,
            "rule": "one obligation per rule instance discovered in the parsed tree (functions, call "
                    "sites, stores, guards); distinct = distinct (rule, function, normalised construct) "
                    "keys; trivial = recorded only for completeness (e.g. an exempt instance with its reason)",
            "samples": [o.to_json() for o in ctx.obligations[:400]],
            "exhaustive": True,
            "analysed": stats,
            "rules": sorted({o.rule for o in ctx.obligations}),
            "counters": ctx.counters,
            "notes": ctx.notes,
            "unclassified_externals_treated_as_may_raise": sorted(an.unclassified_ext),
            "checker_cmd": "./check %s%s" % (pid, " --tier thorough" if tier == "thorough" else ""),
            "trusted_base": ["CPython ast module", "engine/ (model, cfg, types, effects, defuse)"],
        },
        "assumptions": ASSUMPTIONS + meta.get("assumptions", []),
        "wall_s": round(wall, 3),
        "violations": len(violations),
    }
    if write_evidence:
        edir = os.path.join(VERIF, "evidence")
        os.makedirs(edir, exist_ok=True)
        with open(os.path.join(edir, "%s.json" % pid), "w", encoding="utf-8") as fp:
            json.dump(ev, fp, indent=1, default=str)
    if not quiet:
        print("%s: %d obligations, %d discharged, %d known findings, %d violations; analysed %d modules / "
              "%d classes / %d functions / %d call sites in %.2fs" % (
                  pid, len(ctx.obligations), ev["coverage"]["discharged"], len(knowns), len(violations),
                  stats["modules"], stats["classes"], stats["functions"], stats["call_sites"], wall), file=out)
    return (1 if violations else 0), ctx, ev


# ---------------------------------------------------------------------------------------------
# reflection census: the model is only a model of the program while no new dynamic feature
# appears
# ---------------------------------------------------------------------------------------------
FLOORS = {"modules": 20, "classes": 40, "functions": 180, "call_sites": 650}


def reflection_census(model: Model, tolerate=None):
    st = model.stats()
    for k, floor in FLOORS.items():
        if st[k] < floor:
            raise AnalysisError("source set collapsed: %s=%d < %d" % (k, st[k], floor))
    allowed_getattr = 0
    for m in model.modules.values():
        for n in ast.walk(m.tree):
            if isinstance(n, ast.Call):
                f = n.func
                name = f.id if isinstance(f, ast.Name) else None
                if name in ("exec", "eval", "compile", "globals", "locals", "__import__", "delattr"):
                    raise AnalysisError("dynamic feature %s() at %s:%d is not modelled" % (name, m.relpath, n.lineno))
                if name == "setattr":
                    raise AnalysisError("setattr() at %s:%d is not modelled (object.__setattr__ is)" % (m.relpath, n.lineno))
                if name == "getattr":
                    if not (len(n.args) >= 2 and isinstance(n.args[1], ast.Constant)):
                        if tolerate is not None and tolerate(model, n):
                            continue        # the property's own rule reports this construct
                        raise AnalysisError("getattr() with a computed name at %s:%d is not modelled" % (m.relpath, n.lineno))
                    allowed_getattr += 1
                if name == "type" and len(n.args) == 3:
                    fn = model.enclosing_function(n)
                    if fn is None or fn.qualname != "support.make_type":
                        raise AnalysisError("dynamic class creation at %s:%d is not modelled" % (m.relpath, n.lineno))
            elif isinstance(n, ast.Attribute) and n.attr == "__dict__":
                raise AnalysisError("__dict__ access at %s:%d is not modelled" % (m.relpath, n.lineno))
            elif isinstance(n, ast.Attribute) and n.attr == "__class__" and isinstance(n.ctx, ast.Store):
                raise AnalysisError("__class__ assignment at %s:%d is not modelled" % (m.relpath, n.lineno))


def main(argv, registry):
    import argparse
    ap = argparse.ArgumentParser(prog="check")
    ap.add_argument("pid")
    ap.add_argument("--tier", default=os.environ.get("VERIF_TIER") or "quick", choices=["quick", "thorough"])
    ap.add_argument("--replay")
    ap.add_argument("--repo", default=os.environ.get("REPO", "/repo"))
    ap.add_argument("--no-evidence", action="store_true")
    args = ap.parse_args(argv)
    pid = args.pid.upper()
    if pid not in registry:
        print("ANALYSIS-ERROR unknown property %s" % pid)
        return 2
    mod = registry[pid]
    try:
        code, ctx, ev = run_property(pid, mod.check, mod.META, args.tier, args.repo, replay=args.replay,
                                     write_evidence=not args.no_evidence)
        if args.tier == "thorough" and not args.replay:
            from . import selftest
            code2 = selftest.run_for_property(pid, ev, args.repo, write=not args.no_evidence)
            code = code or code2
        return code
    except AnalysisError as err:
        print("ANALYSIS-ERROR property=%s %s" % (pid, err))
        return 2
    except Exception:  # a crash of the checker is never a violation
        traceback.print_exc()
        print("ANALYSIS-ERROR property=%s checker crashed" % pid)
        return 2
