"""
Normalisation pass: inline *newly extracted* private helpers and local closures into their single
calling function, so that the rules see one function whatever the refactoring.

A callee is inlined when all of this holds:
  * it is a nested function (closure) of the caller, or a method of the caller's class / a function of
    the caller's module whose name starts with an underscore, is not a dunder, and is NOT one of the
    anchor names the rule tables look up (``KEEP``);
  * every call of that name in the package comes from one and the same function;
  * it is not recursive, not overridden or defined in any other class of the package, not a property /
    classmethod / generator, takes no ``*args`` / ``**kwargs``, and is at most ``MAX_STMTS`` statements;
  * the call passes plain positional / keyword arguments.

The callee's statements keep their original line numbers, so reports still point at real source lines.
``return e`` becomes ``<ret> = e; break`` inside a ``while True:`` wrapper (the CFG treats a constant
true loop test as having no exit edge).
"""
from __future__ import annotations

import ast
import copy
from typing import Dict, List, Optional, Set

MAX_STMTS = 40
MAX_PASSES = 3

#: private names that are anchors of rule tables (looked up by name) or long-standing API of the package:
#: never inlined, whatever their number of callers
KEEP = {
    "_set_value", "_set_default_value", "_get_field", "_get_value", "_validate", "_validate_field", "_validate_key",
    "_get_provider", "_process_includes", "_is_feature_enabled", "_feature_flag_fields", "_hash", "_add_field",
    "_to_element", "_from_element", "_prettify", "_get_item_position", "_ref_path", "_keyfile", "_key_filename",
    "_iterate_dict_like", "_is_compatible_proxy", "_bind", "_create_helper", "_list_asdict",
    "_KeyFile__load_key", "_KeyFile__generate_key", "__load_key", "__generate_key",
}


class _Renamer(ast.NodeTransformer):
    def __init__(self, mapping: Dict[str, str], ret_name: str):
        self.mapping = mapping
        self.ret_name = ret_name

    def visit_Name(self, node: ast.Name):
        if node.id in self.mapping:
            return ast.copy_location(ast.Name(id=self.mapping[node.id], ctx=node.ctx), node)
        return node

    def visit_arg(self, node):
        return node

    def visit_FunctionDef(self, node):
        return node     # nested defs inside a callee: left alone (callee not inlined in that case anyway)

    visit_AsyncFunctionDef = visit_FunctionDef
    visit_Lambda = visit_FunctionDef

    def visit_Return(self, node: ast.Return):
        value = self.visit(node.value) if node.value is not None else ast.Constant(value=None)
        assign = ast.Assign(targets=[ast.Name(id=self.ret_name, ctx=ast.Store())], value=value)
        ast.copy_location(assign, node)
        ast.fix_missing_locations(assign)
        brk = ast.copy_location(ast.Break(), node)
        return [assign, brk]

    def visit_ExceptHandler(self, node: ast.ExceptHandler):
        if node.name and node.name in self.mapping:
            node.name = self.mapping[node.name]
        self.generic_visit(node)
        return node


def _assigned_names(fn: ast.FunctionDef) -> Set[str]:
    out: Set[str] = set()
    for n in ast.walk(fn):
        if isinstance(n, ast.Name) and isinstance(n.ctx, (ast.Store, ast.Del)):
            out.add(n.id)
        elif isinstance(n, ast.ExceptHandler) and n.name:
            out.add(n.name)
        elif isinstance(n, (ast.FunctionDef, ast.AsyncFunctionDef)) and n is not fn:
            out.add(n.name)
    return out


def _has(fn, kinds) -> bool:
    return any(isinstance(n, kinds) for n in ast.walk(fn))


def _inlinable_def(fn: ast.FunctionDef) -> bool:
    a = fn.args
    if a.posonlyargs:
        return False
    if a.kwarg:
        # `**kwargs` is supported when the callee only hands it on (`f(**kwargs)`)
        uses = [n for n in ast.walk(fn) if isinstance(n, ast.Name) and n.id == a.kwarg.arg]
        handed = [k.value for c in ast.walk(fn) if isinstance(c, ast.Call) for k in c.keywords if k.arg is None and isinstance(k.value, ast.Name)
                  and k.value.id == a.kwarg.arg]
        if len(uses) != len(handed) or any(not isinstance(u.ctx, ast.Load) for u in uses):
            return False
    if a.vararg:
        # `*args` is supported when the callee only hands it on (`f(*args)`) and never rebinds / inspects it
        for n in ast.walk(fn):
            if isinstance(n, ast.Name) and n.id == a.vararg.arg:
                par = getattr(n, "_nparent", None)
                if not isinstance(n.ctx, ast.Load):
                    return False
        uses = [n for n in ast.walk(fn) if isinstance(n, ast.Name) and n.id == a.vararg.arg]
        starred = [n.value for n in ast.walk(fn) if isinstance(n, ast.Starred) and isinstance(n.value, ast.Name) and n.value.id == a.vararg.arg]
        calls_with = [x for c in ast.walk(fn) if isinstance(c, ast.Call) for x in c.args if isinstance(x, ast.Starred)]
        if len(uses) != len(starred) or any(s_ not in [c.value for c in calls_with] for s_ in starred):
            return False
    if fn.decorator_list and [ast.unparse(d) for d in fn.decorator_list] not in (["staticmethod"], ["classmethod"]):
        return False
    if isinstance(fn, ast.AsyncFunctionDef):
        return False
    if _has(fn, (ast.Yield, ast.YieldFrom, ast.Await, ast.Global, ast.Nonlocal)):
        return False
    body = [s for s in fn.body if not (isinstance(s, ast.Expr) and isinstance(s.value, ast.Constant) and isinstance(s.value.value, str))]
    # (the size a definition had before anything was expanded inside it)
    if _ORIG_SIZE.get(id(fn), sum(1 for _ in ast.walk(fn) if isinstance(_, ast.stmt))) > MAX_STMTS:
        return False
    # `break`/`continue` at the top level of the callee would be captured by the wrapper loop: they cannot occur
    # outside a loop in valid code, so nothing to check; but a `return` inside a `finally:` is not handled
    for n in ast.walk(fn):
        if isinstance(n, ast.Try) and any(isinstance(x, ast.Return) for s in n.finalbody for x in ast.walk(s)):
            return False
        if isinstance(n, (ast.FunctionDef, ast.AsyncFunctionDef)) and n is not fn:
            return False
        if isinstance(n, ast.Lambda):
            # a lambda that is closed over nothing of the callee (its own parameters and globals only) moves with the body
            own = {a_.arg for a_ in n.args.args + n.args.kwonlyargs} | {a_.arg for a_ in (n.args.vararg, n.args.kwarg) if a_}
            local = _assigned_names(fn) | {a_.arg for a_ in fn.args.args + fn.args.kwonlyargs}
            used = {x.id for x in ast.walk(n.body) if isinstance(x, ast.Name)}
            if (used - own) & local or own & local:
                return False
        # a return inside a loop of the callee would `break` that loop instead of the wrapper
        if isinstance(n, (ast.For, ast.While)) and any(isinstance(x, ast.Return) for s in n.body + n.orelse for x in ast.walk(s)):
            return False
    return True


class _Counter:
    n = 0


_BUILTIN_METHOD_NAMES = frozenset(n for t in (list, dict, set, frozenset, str, bytes, bytearray, tuple, int, float) for n in dir(t))
_ORIG_SIZE: Dict[int, int] = {}
_INLINED_DEFS: Set[int] = set()      # id() of every definition that was expanded at a call site in this run


def _bind_args(callee: ast.FunctionDef, call: ast.Call, skip_self: bool, prefix: str):
    """[(param name, value expr)] or None if the call shape is not supported"""
    a = callee.args
    params = [x.arg for x in a.args]
    if skip_self:
        params = params[1:]
    star_kw = [k for k in call.keywords if k.arg is None]
    if any(isinstance(x, ast.Starred) for x in call.args):
        return None
    if star_kw and not (len(star_kw) == 1 and a.kwarg is not None and isinstance(star_kw[0].value, ast.Name)):
        return None
    extra: List[ast.expr] = []
    if len(call.args) > len(params):
        if a.vararg is None:
            return None
        extra = list(call.args[len(params):])
    bound: Dict[str, ast.expr] = {}
    for p, v in zip(params, call.args):
        bound[p] = v
    kwonly = [x.arg for x in a.kwonlyargs]
    for k in call.keywords:
        if k.arg is None:
            continue
        if k.arg in bound or (k.arg not in params and k.arg not in kwonly):
            return None
        bound[k.arg] = k.value
    # defaults
    defaults = dict(zip([x.arg for x in a.args][len(a.args) - len(a.defaults):], a.defaults))
    for x, d in zip(a.kwonlyargs, a.kw_defaults):
        if d is not None:
            defaults[x.arg] = d
    out = []
    for p in params + kwonly:
        if p in bound:
            out.append((p, bound[p]))
        elif p in defaults:
            out.append((p, copy.deepcopy(defaults[p])))
        else:
            return None
    if a.vararg is not None:
        out.append(("*" + a.vararg.arg, extra))
    if a.kwarg is not None:
        if star_kw:
            out.append((a.kwarg.arg, star_kw[0].value))     # the caller's own **mapping, handed on under the callee's name
        else:
            out.append((a.kwarg.arg, ast.Dict(keys=[], values=[])))
    return out


def _expand_call(callee: ast.FunctionDef, call: ast.Call, skip_self: bool, self_expr: Optional[ast.expr]):
    """-> (list of statements computing the call, Name holding the result) or None"""
    _Counter.n += 1
    prefix = "__inl%d_" % _Counter.n
    binding = _bind_args(callee, call, skip_self, prefix)
    if binding is None:
        return None
    _INLINED_DEFS.add(id(callee))
    star = [(p[1:], v) for p, v in binding if p.startswith("*")]
    binding = [(p, v) for p, v in binding if not p.startswith("*")]
    # an ordinary parameter bound to a tuple / list display that the callee only unpacks into calls (`check(*args)` with
    # `args=(config, field)`): treated like the callee's own `*args`
    for p, v in list(binding):
        if isinstance(v, (ast.Tuple, ast.List)) and not any(isinstance(e_, ast.Starred) for e_ in v.elts) and p not in _assigned_names(callee):
            uses = [n for n in ast.walk(callee) if isinstance(n, ast.Name) and n.id == p]
            starred = [n.value for n in ast.walk(callee) if isinstance(n, ast.Starred) and isinstance(n.value, ast.Name) and n.value.id == p]
            in_calls = [x.value for c in ast.walk(callee) if isinstance(c, ast.Call) for x in c.args if isinstance(x, ast.Starred)]
            if uses and len(uses) == len(starred) and all(any(s_ is ic for ic in in_calls) for s_ in starred):
                star.append((p, list(v.elts)))
                binding.remove((p, v))
    # a parameter that is only *called* (a callback) and bound to a plain name / attribute chain is substituted, so the
    # call site reads `self._validate_field(...)` again instead of `check(...)`
    reassigned = _assigned_names(callee)
    subst: Dict[str, ast.expr] = {}
    folded_switch = False
    never_none: Set[str] = set()
    for p, v in binding:
        called = any(isinstance(c, ast.Call) and isinstance(c.func, ast.Name) and c.func.id == p for c in ast.walk(callee))
        if called and p not in reassigned and _plain_chain(v):
            subst[p] = v
        elif isinstance(v, ast.Constant) and isinstance(v.value, bool) and p not in reassigned:
            subst[p] = v            # a mode switch given as a literal: the body is specialised for it (folded below)
            folded_switch = True
        elif isinstance(v, ast.Constant) and isinstance(v.value, str) and p not in reassigned and any(
                isinstance(c, ast.Compare) and len(c.ops) == 1 and isinstance(c.ops[0], (ast.Eq, ast.NotEq)) and isinstance(c.left, ast.Name)
                and c.left.id == p and isinstance(c.comparators[0], ast.Constant) and isinstance(c.comparators[0].value, str) for c in ast.walk(callee)):
            subst[p] = v            # a mode given as a string literal and compared with literals (`part == "key"`): same
            folded_switch = True
        elif isinstance(v, ast.Constant) and v.value is None and p not in reassigned and any(
                isinstance(c, ast.Compare) and len(c.ops) == 1 and isinstance(c.ops[0], (ast.Is, ast.IsNot)) and isinstance(c.left, ast.Name)
                and c.left.id == p and isinstance(c.comparators[0], ast.Constant) and c.comparators[0].value is None for c in ast.walk(callee)):
            subst[p] = v            # an optional argument left out / given as None and tested with `is None`: same
            folded_switch = True
        elif isinstance(v, ast.Name) and v.id == "self" and p not in reassigned:
            never_none.add(p)       # the caller's own object is handed in: `p is None` is decided
    binding = [(p, v) for p, v in binding if p not in subst]
    locals_ = _assigned_names(callee) | {p for p, _ in binding}
    mapping = {nm: prefix + nm for nm in locals_}
    ret = prefix + "ret"
    pre: List[ast.stmt] = []
    if skip_self and callee.args.args:
        sname = callee.args.args[0].arg
        if not (isinstance(self_expr, ast.Name) and self_expr.id == sname):
            mapping[sname] = prefix + sname
            st = ast.Assign(targets=[ast.Name(id=prefix + sname, ctx=ast.Store())], value=copy.deepcopy(self_expr))
            pre.append(ast.copy_location(st, call))
        else:
            mapping.pop(sname, None)
    for p, v in binding:
        st = ast.Assign(targets=[ast.Name(id=mapping[p], ctx=ast.Store())], value=v)
        pre.append(ast.copy_location(st, call))
    body = [copy.deepcopy(s) for s in callee.body
            if not (isinstance(s, ast.Expr) and isinstance(s.value, ast.Constant) and isinstance(s.value.value, str))]
    star_names: Dict[str, List[str]] = {}
    for vname, exprs in star:
        names = []
        for i, e in enumerate(exprs):
            nm = "%s%s%d" % (prefix, vname, i)
            st = ast.Assign(targets=[ast.Name(id=nm, ctx=ast.Store())], value=e)
            pre.append(ast.copy_location(st, call))
            names.append(nm)
        star_names[vname] = names
    if star_names or subst:
        class _Sub(ast.NodeTransformer):
            def visit_Call(self, node):
                self.generic_visit(node)
                new_args = []
                for x in node.args:
                    if isinstance(x, ast.Starred) and isinstance(x.value, ast.Name) and x.value.id in star_names:
                        new_args += [ast.copy_location(ast.Name(id=nm, ctx=ast.Load()), x) for nm in star_names[x.value.id]]
                    else:
                        new_args.append(x)
                node.args = new_args
                return node

            def visit_Name(self, node):
                if node.id in subst and isinstance(node.ctx, ast.Load):
                    return ast.copy_location(copy.deepcopy(subst[node.id]), node)
                return node
        body = [_Sub().visit(b) for b in body]
    rn = _Renamer(mapping, ret)
    new_body: List[ast.stmt] = []
    for s in body:
        r = rn.visit(s)
        if isinstance(r, list):
            new_body.extend(r)
        elif r is not None:
            new_body.append(r)
    if never_none:
        nn = {mapping.get(p, p) for p in never_none}

        class _NN(ast.NodeTransformer):
            def visit_Compare(self, node):
                self.generic_visit(node)
                if len(node.ops) == 1 and isinstance(node.ops[0], (ast.Is, ast.IsNot)) and isinstance(node.left, ast.Name) and node.left.id in nn \
                        and isinstance(node.comparators[0], ast.Constant) and node.comparators[0].value is None:
                    return ast.copy_location(ast.Constant(value=isinstance(node.ops[0], ast.IsNot)), node)
                return node
        before_ = ast.dump(ast.Module(body=new_body, type_ignores=[]))
        new_body = [_NN().visit(b) for b in new_body]
        if ast.dump(ast.Module(body=new_body, type_ignores=[])) != before_:
            folded_switch = True
    if folded_switch:
        new_body = _fold_constants(new_body)
    last = callee.body[-1] if callee.body else call
    tail_assign = ast.copy_location(ast.Assign(targets=[ast.Name(id=ret, ctx=ast.Store())], value=ast.Constant(value=None)), last)
    tail_break = ast.copy_location(ast.Break(), last)
    if not (new_body and _terminal(new_body[-1])):
        new_body += [tail_assign, tail_break]
    loop = ast.While(test=ast.Constant(value=True), body=new_body or [tail_assign, tail_break], orelse=[])
    ast.copy_location(loop, call)
    loop._inlined_from = callee.name  # type: ignore
    stmts = pre + [loop]
    for s in stmts:
        ast.fix_missing_locations(s)
    res = ast.copy_location(ast.Name(id=ret, ctx=ast.Load()), call)
    return stmts, res


def _plain_chain(e: ast.expr) -> bool:
    while isinstance(e, ast.Attribute):
        e = e.value
    return isinstance(e, ast.Name)


def _terminal(st: ast.stmt) -> bool:
    """does control never continue after *st* (it ends in break / raise on every branch)?  Only the wrapper's own `break`
    (a rewritten return) counts: loops of the callee never contain one (see _inlinable_def)."""
    if isinstance(st, (ast.Break, ast.Raise)):
        return True
    if isinstance(st, ast.If):
        return bool(st.body) and bool(st.orelse) and _terminal(st.body[-1]) and _terminal(st.orelse[-1])
    if isinstance(st, ast.With):
        return False        # a context manager may swallow an exception raised in its body
    if isinstance(st, ast.Try):
        if st.finalbody and _terminal(st.finalbody[-1]):
            return True
        body_end = st.orelse[-1] if st.orelse else (st.body[-1] if st.body else None)
        if body_end is None:
            return False
        inner = body_end
        # a `with open(...)` whose body returns: files do not swallow exceptions, but stay conservative unless the
        # with-body itself is terminal *and* every handler is
        if isinstance(inner, ast.With):
            inner_ok = bool(inner.body) and _terminal(inner.body[-1]) and all(
                isinstance(i.context_expr, ast.Call) and isinstance(i.context_expr.func, ast.Name) and i.context_expr.func.id == "open" for i in inner.items)
        else:
            inner_ok = _terminal(inner)
        return inner_ok and all(h.body and _terminal(h.body[-1]) for h in st.handlers)
    return False


def _single_return_expr(fn: ast.FunctionDef) -> Optional[ast.expr]:
    body = [st for st in fn.body if not (isinstance(st, ast.Expr) and isinstance(st.value, ast.Constant) and isinstance(st.value.value, str))]
    if len(body) == 1 and isinstance(body[0], ast.Return) and body[0].value is not None:
        return body[0].value
    # a generator that maps / filters one iterable -- `for x in it: [if c:] yield f(x)` -- is the generator expression
    # `(f(x) for x in it if c)`
    if len(body) == 1 and isinstance(body[0], ast.For) and not body[0].orelse and not fn.decorator_list:
        inner, conds = body[0].body, []
        while len(inner) == 1 and isinstance(inner[0], ast.If) and not inner[0].orelse:
            conds.append(inner[0].test)
            inner = inner[0].body
        if len(inner) == 1 and isinstance(inner[0], ast.Expr) and isinstance(inner[0].value, ast.Yield) and inner[0].value.value is not None \
                and sum(1 for n in ast.walk(fn) if isinstance(n, (ast.Yield, ast.YieldFrom))) == 1:
            ge = ast.GeneratorExp(elt=inner[0].value.value, generators=[ast.comprehension(target=body[0].target, iter=body[0].iter, ifs=conds, is_async=0)])
            return ast.copy_location(ge, body[0])
    # a chain of guard clauses -- `if c1: return a` / `if c2: return b` / `return z` -- is the expression
    # `a if c1 else (b if c2 else z)`
    def chain(stmts):
        if not stmts:
            return None
        st = stmts[0]
        if isinstance(st, ast.Return) and st.value is not None and len(stmts) == 1:
            return st.value
        if isinstance(st, ast.If) and len(st.body) == 1 and isinstance(st.body[0], ast.Return) and st.body[0].value is not None:
            if st.orelse:
                rest = chain(st.orelse) if len(stmts) == 1 else None
            else:
                rest = chain(stmts[1:])
            if rest is None:
                return None
            return ast.copy_location(ast.IfExp(test=st.test, body=st.body[0].value, orelse=rest), st)
        return None
    return chain(body)


def _simple_arg(e: ast.expr) -> bool:
    while isinstance(e, ast.Attribute):
        e = e.value
    return isinstance(e, (ast.Name, ast.Constant))


class _ExprFolder(ast.NodeTransformer):
    """constant sub-expressions that appear when a literal argument is put in place of a parameter: identity of the singletons
    None / True / False, isinstance of a literal, and the boolean operators / conditional expressions over the results"""
    _SINGLE = (None, True, False)

    def visit_Compare(self, node):
        self.generic_visit(node)
        if len(node.ops) == 1 and isinstance(node.left, ast.Constant) and isinstance(node.comparators[0], ast.Constant) \
                and isinstance(node.ops[0], (ast.Is, ast.IsNot)) and any(node.left.value is s_ for s_ in self._SINGLE) \
                and any(node.comparators[0].value is s_ for s_ in self._SINGLE):
            same = node.left.value is node.comparators[0].value
            return ast.copy_location(ast.Constant(value=same if isinstance(node.ops[0], ast.Is) else not same), node)
        return node

    def visit_Call(self, node):
        self.generic_visit(node)
        if isinstance(node.func, ast.Name) and node.func.id == "isinstance" and len(node.args) == 2 and not node.keywords \
                and isinstance(node.args[0], ast.Constant):
            names = [x.id for x in ([node.args[1]] if isinstance(node.args[1], ast.Name) else getattr(node.args[1], "elts", [])) if isinstance(x, ast.Name)]
            kinds = {"str": str, "int": int, "bool": bool, "float": float, "bytes": bytes, "list": list, "dict": dict, "tuple": tuple}
            if names and len(names) == len([node.args[1]] if isinstance(node.args[1], ast.Name) else node.args[1].elts) and all(n_ in kinds for n_ in names):
                return ast.copy_location(ast.Constant(value=isinstance(node.args[0].value, tuple(kinds[n_] for n_ in names))), node)
        return node

    def visit_UnaryOp(self, node):
        self.generic_visit(node)
        if isinstance(node.op, ast.Not) and isinstance(node.operand, ast.Constant) and isinstance(node.operand.value, bool):
            return ast.copy_location(ast.Constant(value=not node.operand.value), node)
        return node

    def visit_BoolOp(self, node):
        self.generic_visit(node)
        is_and = isinstance(node.op, ast.And)
        vals = []
        for v in node.values:
            if isinstance(v, ast.Constant) and isinstance(v.value, bool):
                if v.value is (not is_and):
                    if not vals:
                        return ast.copy_location(ast.Constant(value=v.value), node)
                    vals.append(v)
                    break
                continue
            vals.append(v)
        if not vals:
            return ast.copy_location(ast.Constant(value=is_and), node)
        if len(vals) == 1:
            return vals[0]
        node.values = vals
        return node

    def visit_IfExp(self, node):
        self.generic_visit(node)
        if isinstance(node.test, ast.Constant) and isinstance(node.test.value, bool):
            return node.body if node.test.value else node.orelse
        return node


class _ExprInliner(ast.NodeTransformer):
    """replace calls of single-`return <expr>` helpers by the expression, everywhere (comprehensions included)"""

    def __init__(self, resolve, resolve_gen=None):
        self.resolve = resolve
        self.resolve_gen = resolve_gen
        self.count = 0

    def visit_Call(self, node: ast.Call):
        self.generic_visit(node)
        r = self.resolve(node)
        if r is None and self.resolve_gen is not None:
            r = self.resolve_gen(node)      # a new map/filter generator handed to a consumer: written as a generator expression
            if r is not None and not isinstance(_single_return_expr(r[0]), ast.GeneratorExp):
                r = None
        if r is None:
            return node
        callee, skip_self, self_expr = r
        expr = _single_return_expr(callee)
        if expr is None:
            return node
        binding = _bind_args(callee, node, skip_self, "")
        if binding is None:
            return node
        uses: Dict[str, int] = {}
        for n in ast.walk(expr):
            if isinstance(n, ast.Name):
                uses[n.id] = uses.get(n.id, 0) + 1
            if isinstance(n, (ast.Lambda, ast.ListComp, ast.SetComp, ast.DictComp, ast.GeneratorExp, ast.NamedExpr)):
                # a parameter captured in a nested scope / re-bound: keep it simple, do not inline
                pass
        for p, v in binding:
            if not _simple_arg(v) and uses.get(p, 0) > 1:
                return node
        mapping = {p: v for p, v in binding}
        if skip_self and callee.args.args:
            sname = callee.args.args[0].arg
            if not (isinstance(self_expr, ast.Name) and self_expr.id == sname):
                mapping[sname] = self_expr

        class Sub(ast.NodeTransformer):
            def visit_Name(self, n):
                if n.id in mapping and isinstance(n.ctx, ast.Load):
                    return ast.copy_location(copy.deepcopy(mapping[n.id]), n)
                return n
        new = Sub().visit(copy.deepcopy(expr))
        _INLINED_DEFS.add(id(callee))
        if any(isinstance(v_, ast.Constant) for v_ in mapping.values()):
            new = _ExprFolder().visit(new)      # a literal argument decides what the helper asks about it
        ast.copy_location(new, node)
        ast.fix_missing_locations(new)
        self.count += 1
        return new


class _PropertyInliner(ast.NodeTransformer):
    """`self._holds_configs` where `_holds_configs` is a *new* read-only property whose body is one return expression:
    the expression is put in place of the attribute load (with the property's `self` replaced by the object it is read from)."""

    def __init__(self, resolve_prop):
        self.resolve_prop = resolve_prop
        self.count = 0

    def visit_Attribute(self, node: ast.Attribute):
        self.generic_visit(node)
        if not isinstance(node.ctx, ast.Load) or not _plain_chain(node.value):
            return node
        d = self.resolve_prop(node)
        if d is None:
            return node
        expr = _single_return_expr(d)
        if expr is None or not d.args.args:
            return node
        sname = d.args.args[0].arg
        recv = node.value

        class Sub(ast.NodeTransformer):
            def visit_Name(self, n):
                if n.id == sname and isinstance(n.ctx, ast.Load):
                    return ast.copy_location(copy.deepcopy(recv), n)
                return n
        new = Sub().visit(copy.deepcopy(expr))
        _INLINED_DEFS.add(id(d))
        ast.copy_location(new, node)
        ast.fix_missing_locations(new)
        self.count += 1
        return new


class _CallFinder(ast.NodeVisitor):
    """first inlinable call in evaluation-ish order inside one simple statement"""

    def __init__(self, pred):
        self.pred = pred
        self.found: Optional[ast.Call] = None

    def visit_Call(self, node: ast.Call):
        if self.found is not None:
            return
        # arguments are evaluated before the call itself
        self.generic_visit(node)
        if self.found is None and self.pred(node):
            self.found = node

    def visit_Lambda(self, node):
        return

    def visit_ListComp(self, node):
        return      # a call inside a comprehension runs once per element: not hoistable

    visit_SetComp = visit_ListComp
    visit_DictComp = visit_ListComp
    visit_GeneratorExp = visit_ListComp

    def visit_BoolOp(self, node):
        # only the first operand is evaluated unconditionally
        self.visit(node.values[0])

    def visit_IfExp(self, node):
        self.visit(node.test)


def _replace(node: ast.AST, old: ast.AST, new: ast.AST) -> bool:
    for field, value in ast.iter_fields(node):
        if value is old:
            setattr(node, field, new)
            return True
        if isinstance(value, list):
            for i, v in enumerate(value):
                if v is old:
                    value[i] = new
                    return True
                if isinstance(v, ast.AST) and _replace(v, old, new):
                    return True
        elif isinstance(value, ast.AST):
            if _replace(value, old, new):
                return True
    return False


def _inline_in_body(body: List[ast.stmt], resolve, depth=0) -> bool:
    """in-place; returns True if anything was inlined"""
    changed = False
    i = 0
    while i < len(body):
        st = body[i]
        # recurse into compound statements first
        for field in ("body", "orelse", "finalbody"):
            sub = getattr(st, field, None)
            if isinstance(sub, list) and sub and isinstance(sub[0], ast.stmt) and not isinstance(st, (ast.FunctionDef, ast.AsyncFunctionDef, ast.ClassDef)):
                changed |= _inline_in_body(sub, resolve, depth + 1)
        if isinstance(st, ast.Try):
            for h in st.handlers:
                changed |= _inline_in_body(h.body, resolve, depth + 1)
        # `x = a or helper(...)`: spelled out as `x = a; if not x: x = helper(...)` so that the helper call becomes a statement
        if isinstance(st, ast.Assign) and len(st.targets) == 1 and isinstance(st.targets[0], ast.Name) and isinstance(st.value, ast.BoolOp) \
                and isinstance(st.value.op, ast.Or) and isinstance(st.value.values[-1], ast.Call) and resolve(st.value.values[-1]) is not None \
                and not any(isinstance(n, ast.Name) and n.id == st.targets[0].id for v in st.value.values for n in ast.walk(v)):
            tgt = st.targets[0].id
            head_vals = st.value.values[:-1]
            head = head_vals[0] if len(head_vals) == 1 else ast.BoolOp(op=ast.Or(), values=head_vals)
            first = ast.copy_location(ast.Assign(targets=[ast.Name(id=tgt, ctx=ast.Store())], value=head), st)
            inner = ast.copy_location(ast.Assign(targets=[ast.Name(id=tgt, ctx=ast.Store())], value=st.value.values[-1]), st)
            cond = ast.copy_location(ast.If(test=ast.UnaryOp(op=ast.Not(), operand=ast.Name(id=tgt, ctx=ast.Load())), body=[inner], orelse=[]), st)
            for x in (first, cond):
                ast.fix_missing_locations(x)
            body[i:i + 1] = [first, cond]
            changed = True
            continue
        # the expression part of this statement that is evaluated exactly once, before the statement's own effect
        exprs: List[ast.AST] = []
        if isinstance(st, (ast.Assign, ast.AnnAssign, ast.AugAssign, ast.Return, ast.Expr)):
            if getattr(st, "value", None) is not None:
                exprs = [st.value]
        elif isinstance(st, ast.If):
            exprs = [st.test]
        elif isinstance(st, ast.With):
            exprs = [st.items[0].context_expr] if st.items else []
        elif isinstance(st, ast.For):
            exprs = [st.iter]
        elif isinstance(st, ast.Raise) and st.exc is not None:
            exprs = [st.exc]
        done = False
        for e in exprs:
            finder = _CallFinder(lambda c: resolve(c) is not None)
            finder.visit(e)
            if finder.found is None:
                continue
            call = finder.found
            callee, skip_self, self_expr = resolve(call)
            exp = _expand_call(callee, call, skip_self, self_expr)
            if exp is None:
                continue
            stmts, res = exp
            if e is call and isinstance(st, ast.Expr):
                body[i:i + 1] = stmts
            else:
                if e is call:
                    for field, value in ast.iter_fields(st):
                        if value is call:
                            setattr(st, field, res)
                elif not _replace(e, call, res):
                    continue
                body[i:i] = stmts
            changed = True
            done = True
            break
        if done:
            continue    # re-examine the same position (the statement may contain another inlinable call)
        i += 1
    return changed


# ---------------------------------------------------------------------------------------------------------- context managers
def _is_contextmanager(fn: ast.FunctionDef) -> bool:
    return any(ast.unparse(d).split(".")[-1] == "contextmanager" for d in fn.decorator_list)


def _rewrite_withs(body: List[ast.stmt], find_cm_func, find_cm_class) -> bool:
    """`with helper(args): BODY` where helper is a *new* @contextmanager generator with one top-level `yield`, or a *new* class
    with a trivial __enter__ : replaced by the code it stands for (the generator body around BODY; try/except built from
    __exit__).  In place; returns True when something was rewritten."""
    changed = False
    i = 0
    while i < len(body):
        st = body[i]
        for field in ("body", "orelse", "finalbody"):
            sub = getattr(st, field, None)
            if isinstance(sub, list) and sub and isinstance(sub[0], ast.stmt) and not isinstance(st, (ast.FunctionDef, ast.AsyncFunctionDef, ast.ClassDef)):
                changed |= _rewrite_withs(sub, find_cm_func, find_cm_class)
        if isinstance(st, ast.Try):
            for h in st.handlers:
                changed |= _rewrite_withs(h.body, find_cm_func, find_cm_class)
        if isinstance(st, ast.With) and len(st.items) == 1 and isinstance(st.items[0].context_expr, ast.Call):
            call = st.items[0].context_expr
            target = st.items[0].optional_vars
            new = None
            gen = find_cm_func(call)
            if gen is not None:
                new = _expand_generator_cm(gen, call, st.body, target)
            else:
                klass = find_cm_class(call)
                if klass is not None and target is None:
                    new = _expand_class_cm(klass, call, st.body)
            if new is not None:
                for x in new:
                    ast.copy_location(x, st)
                    ast.fix_missing_locations(x)
                body[i:i + 1] = new
                changed = True
                continue
        i += 1
    return changed


def _expand_generator_cm(gen: ast.FunctionDef, call: ast.Call, with_body: List[ast.stmt], target) -> Optional[List[ast.stmt]]:
    _INLINED_DEFS.add(id(gen))
    yields = [n for n in ast.walk(gen) if isinstance(n, (ast.Yield, ast.YieldFrom))]
    if len(yields) != 1 or isinstance(yields[0], ast.YieldFrom):
        return None
    if any(isinstance(n, ast.Return) and n.value is not None for n in ast.walk(gen)):
        return None
    _Counter.n += 1
    prefix = "__inl%d_" % _Counter.n
    binding = _bind_args(gen, call, False, prefix)
    if binding is None or any(p.startswith("*") for p, _ in binding):
        return None
    locals_ = _assigned_names(gen) | {p for p, _ in binding}
    mapping = {nm: prefix + nm for nm in locals_}
    pre = [ast.Assign(targets=[ast.Name(id=mapping[p], ctx=ast.Store())], value=v) for p, v in binding]
    body = [copy.deepcopy(s) for s in gen.body
            if not (isinstance(s, ast.Expr) and isinstance(s.value, ast.Constant) and isinstance(s.value.value, str))]

    class _R(ast.NodeTransformer):
        found = False

        def visit_Name(self, node):
            if node.id in mapping:
                return ast.copy_location(ast.Name(id=mapping[node.id], ctx=node.ctx), node)
            return node

        def visit_ExceptHandler(self, node):
            if node.name and node.name in mapping:
                node.name = mapping[node.name]
            self.generic_visit(node)
            return node

        def visit_Expr(self, node):
            if isinstance(node.value, ast.Yield):
                _R.found = True
                out = []
                if target is not None and node.value.value is not None:
                    out.append(ast.Assign(targets=[copy.deepcopy(target)], value=self.visit(node.value.value)))
                return out + list(with_body)
            self.generic_visit(node)
            return node

        def visit_Return(self, node):
            return ast.Pass()
    r = _R()
    _R.found = False
    new_body: List[ast.stmt] = []
    for s_ in body:
        x = r.visit(s_)
        new_body += x if isinstance(x, list) else [x]
    if not _R.found:
        return None      # the yield is not a statement of its own (x = yield ...): not handled
    return pre + new_body


def _expand_class_cm(klass: ast.ClassDef, call: ast.Call, with_body: List[ast.stmt]) -> Optional[List[ast.stmt]]:
    _INLINED_DEFS.add(id(klass))
    meths = {n.name: n for n in klass.body if isinstance(n, ast.FunctionDef)}
    init, enter, exit_ = meths.get("__init__"), meths.get("__enter__"), meths.get("__exit__")
    if enter is None or exit_ is None or set(meths) - {"__init__", "__enter__", "__exit__"}:
        return None
    # __enter__ does nothing but `return self`
    eb = [s_ for s_ in enter.body if not (isinstance(s_, ast.Expr) and isinstance(s_.value, ast.Constant))]
    if not (len(eb) == 1 and isinstance(eb[0], ast.Return) and (eb[0].value is None or (isinstance(eb[0].value, ast.Name) and eb[0].value.id == enter.args.args[0].arg))):
        return None
    _Counter.n += 1
    prefix = "__inl%d_" % _Counter.n
    pre: List[ast.stmt] = []
    fields: Dict[str, str] = {}
    if init is not None:
        binding = _bind_args(init, call, True, prefix)
        if binding is None or any(p.startswith("*") for p, _ in binding):
            return None
        sname = init.args.args[0].arg
        pmap = {p: prefix + p for p, _ in binding}
        pre += [ast.Assign(targets=[ast.Name(id=pmap[p], ctx=ast.Store())], value=v) for p, v in binding]
        for s_ in init.body:
            if isinstance(s_, ast.Expr) and isinstance(s_.value, ast.Constant):
                continue
            # only `self.attr = <param or constant>`
            if isinstance(s_, ast.Assign) and len(s_.targets) == 1 and isinstance(s_.targets[0], ast.Attribute) and isinstance(s_.targets[0].value, ast.Name) \
                    and s_.targets[0].value.id == sname and isinstance(s_.value, (ast.Name, ast.Constant)):
                fname = prefix + "f_" + s_.targets[0].attr
                val = ast.Name(id=pmap[s_.value.id], ctx=ast.Load()) if isinstance(s_.value, ast.Name) and s_.value.id in pmap else copy.deepcopy(s_.value)
                pre.append(ast.Assign(targets=[ast.Name(id=fname, ctx=ast.Store())], value=val))
                fields[s_.targets[0].attr] = fname
            else:
                return None
    elif call.args or call.keywords:
        return None
    a = exit_.args.args
    if len(a) != 4:
        return None
    xself, xtype, xexc, xtb = [x.arg for x in a]
    excname = prefix + "exc"

    class _X(ast.NodeTransformer):
        bad = False

        def visit_Attribute(self, node):
            if isinstance(node.value, ast.Name) and node.value.id == xself:
                if node.attr in fields and isinstance(node.ctx, ast.Load):
                    return ast.copy_location(ast.Name(id=fields[node.attr], ctx=ast.Load()), node)
                _X.bad = True
            self.generic_visit(node)
            return node

        def visit_Name(self, node):
            if node.id == xexc:
                return ast.copy_location(ast.Name(id=excname, ctx=node.ctx), node)
            if node.id == xtype:
                return ast.copy_location(ast.Call(func=ast.Name(id="type", ctx=ast.Load()), args=[ast.Name(id=excname, ctx=ast.Load())], keywords=[]), node)
            if node.id == xtb:
                return ast.copy_location(ast.Constant(value=None), node)
            if node.id == xself:
                _X.bad = True
            return node

        def visit_Return(self, node):
            v = node.value
            if v is None or (isinstance(v, ast.Constant) and not v.value):
                return ast.copy_location(ast.Raise(exc=None, cause=None), node)      # not swallowed: propagate
            if isinstance(v, ast.Constant) and v.value is True:
                return ast.copy_location(ast.Pass(), node)
            _X.bad = True
            return node
    _X.bad = False
    xb = [copy.deepcopy(s_) for s_ in exit_.body if not (isinstance(s_, ast.Expr) and isinstance(s_.value, ast.Constant) and isinstance(s_.value.value, str))]
    tx = _X()
    hbody: List[ast.stmt] = []
    for s_ in xb:
        r = tx.visit(s_)
        hbody += r if isinstance(r, list) else [r]
    if _X.bad:
        return None
    if not hbody or not _terminal_any(hbody[-1]):
        hbody.append(ast.Raise(exc=None, cause=None))       # falling off __exit__ returns None: the exception propagates
    handlers = _split_conversion_handler(excname, hbody) or [
        ast.ExceptHandler(type=ast.Name(id="BaseException", ctx=ast.Load()), name=excname, body=hbody)]
    # the normal-exit call __exit__(None, None, None) does nothing observable for the shapes accepted above when its body
    # only acts on a live exception; require that: every statement before the final return is an `if` on the exception
    for s_ in exit_.body:
        if isinstance(s_, ast.Expr) and isinstance(s_.value, ast.Constant):
            continue
        if isinstance(s_, ast.Return):
            continue
        if isinstance(s_, ast.If) and any(isinstance(n, ast.Name) and n.id in (xexc, xtype) for n in ast.walk(s_.test)):
            continue
        return None
    tr = ast.Try(body=list(with_body), handlers=handlers, orelse=[], finalbody=[])
    return pre + [tr]


def _terminal_any(st: ast.stmt) -> bool:
    if isinstance(st, (ast.Raise, ast.Return)):
        return True
    if isinstance(st, ast.If):
        return bool(st.body) and bool(st.orelse) and _terminal_any(st.body[-1]) and _terminal_any(st.orelse[-1])
    return False


def _split_conversion_handler(excname: str, hbody: List[ast.stmt]) -> Optional[List[ast.ExceptHandler]]:
    """`except BaseException as e: if isinstance(e, A) and not isinstance(e, B): raise X(...) from e; raise`
    ==  `except B: raise` / `except A as e: raise X(...) from e`  (everything else propagates untouched)"""
    if len(hbody) != 2 or not isinstance(hbody[0], ast.If) or hbody[0].orelse or not (isinstance(hbody[1], ast.Raise) and hbody[1].exc is None):
        return None
    test = hbody[0].test
    conj = test.values if isinstance(test, ast.BoolOp) and isinstance(test.op, ast.And) else [test]
    pos, neg = [], []
    for c in conj:
        inner, negated = c, False
        if isinstance(c, ast.UnaryOp) and isinstance(c.op, ast.Not):
            inner, negated = c.operand, True
        if not (isinstance(inner, ast.Call) and isinstance(inner.func, ast.Name) and inner.func.id == "isinstance" and len(inner.args) == 2
                and isinstance(inner.args[0], ast.Name) and inner.args[0].id == excname):
            return None
        (neg if negated else pos).append(inner.args[1])
    if len(pos) != 1:
        return None
    body = hbody[0].body
    if not body or not isinstance(body[-1], ast.Raise):
        return None
    out = []
    for t in neg:
        out.append(ast.ExceptHandler(type=copy.deepcopy(t), name=None, body=[ast.Raise(exc=None, cause=None)]))
    out.append(ast.ExceptHandler(type=copy.deepcopy(pos[0]), name=excname, body=body))
    return out


# ---------------------------------------------------------------------------------------------------------- functional idioms
# ---------------------------------------------------------------------------------------------------------- broad handlers that narrow by isinstance
def _fold_constants(stmts: List[ast.stmt]) -> List[ast.stmt]:
    """Constant folding of a statement list after a sub-expression was replaced by True / False: boolean operators, `not`,
    conditional expressions, `if` statements; a local bound (once, at the top level of the list) to a constant is put in
    place of its later loads in the list."""
    class F(ast.NodeTransformer):
        def visit_UnaryOp(self, node):
            self.generic_visit(node)
            if isinstance(node.op, ast.Not) and isinstance(node.operand, ast.Constant) and isinstance(node.operand.value, bool):
                return ast.copy_location(ast.Constant(value=not node.operand.value), node)
            return node

        def visit_BoolOp(self, node):
            self.generic_visit(node)
            is_and = isinstance(node.op, ast.And)
            vals = []
            for v in node.values:
                if isinstance(v, ast.Constant) and isinstance(v.value, bool):
                    if v.value is (not is_and):
                        # True in an `or` / False in an `and` decides the result -- provided nothing before it has effects we drop
                        vals.append(v)
                        break
                    continue            # neutral element
                vals.append(v)
            if not vals:
                return ast.copy_location(ast.Constant(value=is_and), node)
            if len(vals) == 1:
                return vals[0]
            if isinstance(vals[-1], ast.Constant) and isinstance(vals[-1].value, bool) and vals[-1].value is (not is_and) \
                    and all(isinstance(v, (ast.Name, ast.Attribute, ast.Constant, ast.Compare)) for v in vals[:-1]):
                return vals[-1]         # `x and False` with a side-effect free x
            node.values = vals
            return node

        def visit_IfExp(self, node):
            self.generic_visit(node)
            if isinstance(node.test, ast.Constant) and isinstance(node.test.value, bool):
                return node.body if node.test.value else node.orelse
            return node

        def visit_Compare(self, node):
            self.generic_visit(node)
            if len(node.ops) == 1 and isinstance(node.left, ast.Constant) and isinstance(node.comparators[0], ast.Constant) \
                    and isinstance(node.ops[0], (ast.Eq, ast.NotEq)) and type(node.left.value) is type(node.comparators[0].value):
                eq = node.left.value == node.comparators[0].value
                return ast.copy_location(ast.Constant(value=eq if isinstance(node.ops[0], ast.Eq) else not eq), node)
            if len(node.ops) == 1 and isinstance(node.ops[0], (ast.Is, ast.IsNot)) and isinstance(node.left, ast.Constant) and node.left.value is None \
                    and isinstance(node.comparators[0], ast.Constant) and node.comparators[0].value is None:
                return ast.copy_location(ast.Constant(value=isinstance(node.ops[0], ast.Is)), node)
            if len(node.ops) == 1 and isinstance(node.ops[0], (ast.Is, ast.IsNot)) and isinstance(node.left, ast.Name) and isinstance(node.comparators[0], ast.Name):
                a, b = node.left.id, node.comparators[0].id
                same = None
                BUILTIN_TYPES = ("str", "bool", "int", "float", "list", "dict", "tuple", "bytes", "set", "frozenset", "bytearray", "complex", "type", "object")
                if a in BUILTIN_TYPES and b in BUILTIN_TYPES and a not in F.alias and b not in F.alias and a not in F.fresh and b not in F.fresh:
                    same = a == b           # two builtin classes named directly (rows of a type table put in place)
                if F.alias.get(a) == b or F.alias.get(b) == a:
                    same = True
                elif (a in F.fresh) != (b in F.fresh) or (a in F.fresh and b in F.fresh and a != b):
                    same = False        # an object constructed here is not the one that was there before
                if same is not None:
                    return ast.copy_location(ast.Constant(value=same if isinstance(node.ops[0], ast.Is) else not same), node)
            return node
    F.alias = {}
    F.fresh = set()

    def fold_list(body: List[ast.stmt]) -> List[ast.stmt]:
        out: List[ast.stmt] = []
        consts: Dict[str, ast.Constant] = {}
        for st in body:
            if consts:
                class S(ast.NodeTransformer):
                    def visit_Name(self, n):
                        if isinstance(n.ctx, ast.Load) and n.id in consts:
                            return ast.copy_location(ast.Constant(value=consts[n.id].value), n)
                        return n
                stored_here = {n.id for n in ast.walk(st) if isinstance(n, ast.Name) and isinstance(n.ctx, ast.Store)}
                if isinstance(st, ast.Assign) and len(st.targets) == 1 and isinstance(st.targets[0], ast.Name):
                    st.value = S().visit(st.value)
                elif not (stored_here & set(consts)):
                    st = S().visit(st)
                for nm in stored_here & set(consts):
                    if not (isinstance(st, ast.Assign) and len(st.targets) == 1 and isinstance(st.targets[0], ast.Name)):
                        consts.pop(nm, None)
            compound = any(isinstance(getattr(st, f_, None), list) and getattr(st, f_) and isinstance(getattr(st, f_)[0], ast.stmt)
                           for f_ in ("body", "orelse", "finalbody")) or isinstance(st, ast.Try)
            if not compound:
                st = F().visit(st)
            else:
                # only the header is folded with what is known here; the bodies are folded statement by statement below
                for hf in ("test", "iter"):
                    if isinstance(getattr(st, hf, None), ast.expr):
                        setattr(st, hf, F().visit(getattr(st, hf)))
            if isinstance(st, ast.If) and isinstance(st.test, ast.Constant) and isinstance(st.test.value, bool):
                live = fold_list(st.body if st.test.value else st.orelse)
                out.extend(live)
                if any(_terminal_any(x) for x in live[-1:]):
                    break
                continue
            if compound and not isinstance(st, (ast.FunctionDef, ast.AsyncFunctionDef, ast.ClassDef)):
                before_alias, before_fresh = dict(F.alias), set(F.fresh)
                for f_ in ("body", "orelse", "finalbody"):
                    sub = getattr(st, f_, None)
                    if isinstance(sub, list) and sub and isinstance(sub[0], ast.stmt):
                        F.alias, F.fresh = dict(before_alias), set(before_fresh)
                        setattr(st, f_, fold_list(sub) or ([ast.Pass()] if f_ == "body" else []))
                if isinstance(st, ast.Try):
                    for h_ in st.handlers:
                        F.alias, F.fresh = dict(before_alias), set(before_fresh)
                        h_.body = fold_list(h_.body) or [ast.Pass()]
                F.alias, F.fresh = before_alias, before_fresh
            if isinstance(st, ast.Assign) and len(st.targets) == 1 and isinstance(st.targets[0], ast.Name):
                tname = st.targets[0].id
                if isinstance(st.value, ast.Constant) and isinstance(st.value.value, bool):
                    consts[tname] = st.value
                else:
                    consts.pop(tname, None)
                F.alias.pop(tname, None)
                F.fresh.discard(tname)
                for k_ in [k_ for k_, v_ in F.alias.items() if v_ == tname]:
                    F.alias.pop(k_)
                if isinstance(st.value, ast.Name):
                    F.alias[tname] = st.value.id
                elif isinstance(st.value, ast.Call) and isinstance(st.value.func, ast.Name) and st.value.func.id[:1].isupper():
                    F.fresh.add(tname)
            else:
                # a compound statement that stays: what its branches bind is not known afterwards
                for n_ in ast.walk(st):
                    if isinstance(n_, ast.Name) and isinstance(n_.ctx, ast.Store):
                        F.alias.pop(n_.id, None)
                        F.fresh.discard(n_.id)
                        for k_ in [k_ for k_, v_ in F.alias.items() if v_ == n_.id]:
                            F.alias.pop(k_)
            out.append(st)
            if _terminal_any(st):
                break
        return out
    return fold_list(stmts)


def _split_handlers_by_isinstance(fn: ast.FunctionDef) -> int:
    """`except Exception as err:` whose body asks `isinstance(err, V)` is the pair `except V as err:` / `except Exception as err:`
    with the question answered (True / False) and the answer folded through the body.  Only broad handlers (Exception,
    BaseException, bare) and a single class V are rewritten; the new handler is put in front of the broad one."""
    count = 0
    for tr in [n for n in ast.walk(fn) if isinstance(n, ast.Try)]:
        i = 0
        while i < len(tr.handlers):
            h = tr.handlers[i]
            broad = h.type is None or (isinstance(h.type, ast.Name) and h.type.id in ("Exception", "BaseException"))
            if not (broad and h.name):
                i += 1
                continue
            if any(isinstance(n, ast.Name) and n.id == h.name and isinstance(n.ctx, ast.Store) for b in h.body for n in ast.walk(b)):
                i += 1
                continue
            # the exception under other local names (an inlined helper's parameter): bound once in the handler, to the exception
            errnames = {h.name}
            for _ in range(3):
                for b in h.body:
                    for n in ast.walk(b):
                        if isinstance(n, ast.Assign) and len(n.targets) == 1 and isinstance(n.targets[0], ast.Name) and isinstance(n.value, ast.Name) \
                                and n.value.id in errnames:
                            tn = n.targets[0].id
                            if sum(1 for b2 in h.body for m in ast.walk(b2) if isinstance(m, ast.Name) and m.id == tn and isinstance(m.ctx, ast.Store)) == 1:
                                errnames.add(tn)
            asks = [n for b in h.body for n in ast.walk(b) if isinstance(n, ast.Call) and isinstance(n.func, ast.Name) and n.func.id == "isinstance"
                    and len(n.args) == 2 and isinstance(n.args[0], ast.Name) and n.args[0].id in errnames and isinstance(n.args[1], (ast.Name, ast.Attribute))]
            classes = {ast.unparse(n.args[1]) for n in asks}
            if len(classes) != 1 or classes <= {"Exception", "BaseException"}:
                i += 1
                continue
            cls_expr = asks[0].args[1]

            def answered(body, value):
                class A(ast.NodeTransformer):
                    def visit_Call(self, node):
                        self.generic_visit(node)
                        if isinstance(node.func, ast.Name) and node.func.id == "isinstance" and len(node.args) == 2 and isinstance(node.args[0], ast.Name) \
                                and node.args[0].id in errnames and ast.unparse(node.args[1]) == ast.unparse(cls_expr):
                            return ast.copy_location(ast.Constant(value=value), node)
                        return node
                return _fold_constants([A().visit(copy.deepcopy(b)) for b in body]) or [ast.Pass()]
            narrow = ast.ExceptHandler(type=copy.deepcopy(cls_expr), name=h.name, body=answered(h.body, True))
            rest = ast.ExceptHandler(type=h.type, name=h.name, body=answered(h.body, False))
            for x in (narrow, rest):
                ast.copy_location(x, h)
                ast.fix_missing_locations(x)
            tr.handlers[i:i + 1] = [narrow, rest]
            i += 2
            count += 1
    return count


def _callable_kind(e: ast.expr):
    """('partial', func, args, keywords) / ('methodcaller', name, args, keywords) for functools.partial(...) / operator.methodcaller(...)"""
    if isinstance(e, ast.Call):
        fn_name = ast.unparse(e.func).split(".")[-1]
        if fn_name == "partial" and e.args and not any(isinstance(a, ast.Starred) for a in e.args) and not any(k.arg is None for k in e.keywords):
            return ("partial", e.args[0], list(e.args[1:]), list(e.keywords))
        if fn_name == "methodcaller" and e.args and isinstance(e.args[0], ast.Constant) and isinstance(e.args[0].value, str) \
                and not any(isinstance(a, ast.Starred) for a in e.args) and not any(k.arg is None for k in e.keywords):
            return ("methodcaller", e.args[0].value, list(e.args[1:]), list(e.keywords))
    return None


def _apply_callable(kind, call_args: List[ast.expr], call_keywords: List[ast.keyword]) -> Optional[ast.expr]:
    if kind[0] == "partial":
        return ast.Call(func=copy.deepcopy(kind[1]), args=[copy.deepcopy(a) for a in kind[2]] + call_args,
                        keywords=[copy.deepcopy(k) for k in kind[3]] + call_keywords)
    if kind[0] == "methodcaller" and len(call_args) == 1 and not call_keywords:
        return ast.Call(func=ast.Attribute(value=call_args[0], attr=kind[1], ctx=ast.Load()),
                        args=[copy.deepcopy(a) for a in kind[2]], keywords=[copy.deepcopy(k) for k in kind[3]])
    return None


def _rewrite_functional(fn: ast.FunctionDef, table_of=None) -> int:
    """map(f, xs) -> (f(x) for x in xs); functools.partial / operator.methodcaller objects applied (directly, through a local
    bound once, or as the function of map) -> the call they stand for.  Returns the number of rewrites."""
    # locals bound exactly once to a partial / methodcaller object and only ever called or handed to map()
    assigned: Dict[str, int] = {}
    for n in ast.walk(fn):
        if isinstance(n, ast.Name) and isinstance(n.ctx, ast.Store):
            assigned[n.id] = assigned.get(n.id, 0) + 1
    aliases: Dict[str, tuple] = {}
    for n in ast.walk(fn):
        if isinstance(n, ast.Assign) and len(n.targets) == 1 and isinstance(n.targets[0], ast.Name) and assigned.get(n.targets[0].id) == 1:
            k = _callable_kind(n.value)
            if k is not None:
                aliases[n.targets[0].id] = k
    count = [0]
    fresh = [0]
    # options = {"virtual": virtual, "mask": mask} ... f(**options): a local bound once to a dict display with constant keys and
    # stable values (constants, names never re-bound in the function), used only as `**options`
    star_uses = {id(k.value) for n in ast.walk(fn) if isinstance(n, ast.Call) for k in n.keywords if k.arg is None and isinstance(k.value, ast.Name)}
    optdicts: Dict[str, ast.Dict] = {}
    params = {a.arg for a in fn.args.posonlyargs + fn.args.args + fn.args.kwonlyargs} | {a.arg for a in (fn.args.vararg, fn.args.kwarg) if a}
    for n in ast.walk(fn):
        if isinstance(n, (ast.Assign, ast.AnnAssign)) and getattr(n, "value", None) is not None:
            tgt = n.targets[0] if isinstance(n, ast.Assign) and len(n.targets) == 1 else (n.target if isinstance(n, ast.AnnAssign) else None)
            v = n.value
            if isinstance(tgt, ast.Name) and assigned.get(tgt.id) == 1 and isinstance(v, ast.Dict) and v.keys and \
                    all(isinstance(k, ast.Constant) and isinstance(k.value, str) and k.value.isidentifier() for k in v.keys) and \
                    all(isinstance(x, ast.Constant) or (isinstance(x, ast.Name) and (not assigned.get(x.id) or (assigned.get(x.id) == 1 and x.id not in params)))
                        for x in v.values):
                loads = [m for m in ast.walk(fn) if isinstance(m, ast.Name) and m.id == tgt.id and isinstance(m.ctx, ast.Load)]
                if loads and all(id(m) in star_uses for m in loads):
                    optdicts[tgt.id] = v

    def _subst_const(expr, var, const):
        """expr with the loads of *var* replaced by the constant; getattr(x, <that constant>) becomes the attribute load"""
        class S1(ast.NodeTransformer):
            def visit_Name(self, n2):
                if n2.id == var and isinstance(n2.ctx, ast.Load):
                    return ast.copy_location(ast.Constant(value=const.value), n2)
                return n2

            def visit_Call(self, n2):
                self.generic_visit(n2)
                if isinstance(n2.func, ast.Name) and n2.func.id == "getattr" and len(n2.args) == 2 and not n2.keywords \
                        and isinstance(n2.args[1], ast.Constant) and isinstance(n2.args[1].value, str) and n2.args[1].value.isidentifier() \
                        and getattr(n2.args[1], "_from_table", False):
                    return ast.copy_location(ast.Attribute(value=n2.args[0], attr=n2.args[1].value, ctx=ast.Load()), n2)
                return n2

            def visit_Constant(self, n2):
                return n2
        new = copy.deepcopy(expr)
        # mark the constants we put in, so that only getattr() calls with *our* constant are turned into attribute loads
        class M(ast.NodeTransformer):
            def visit_Name(self, n2):
                if n2.id == var and isinstance(n2.ctx, ast.Load):
                    c_ = ast.copy_location(ast.Constant(value=const.value), n2)
                    c_._from_table = True
                    return c_
                return n2
        new = M().visit(new)
        return S1().visit(new)

    def const_rows(it):
        """the constants a display -- or a *new* module / class level constant table -- consists of"""
        rows = list(it.elts) if isinstance(it, (ast.Tuple, ast.List)) else (table_of(it) if table_of is not None and isinstance(it, (ast.Name, ast.Attribute)) else None)
        if rows is None or not (0 < len(rows) <= MAX_UNROLL and all(isinstance(e_, ast.Constant) for e_ in rows)):
            return None
        return rows

    def _const_comprehension(node):
        """[E for v in ("a", "b")] / {K: V for v in (...)} over at most MAX_UNROLL constants, no filter -> the display"""
        if not (isinstance(node, (ast.ListComp, ast.SetComp, ast.DictComp)) and len(node.generators) == 1):
            return None
        g_ = node.generators[0]
        rows_ = const_rows(g_.iter)
        if g_.ifs or g_.is_async or not isinstance(g_.target, ast.Name) or rows_ is None:
            return None
        g_ = ast.comprehension(target=g_.target, iter=ast.Tuple(elts=rows_, ctx=ast.Load()), ifs=[], is_async=0)
        parts = [node.key, node.value] if isinstance(node, ast.DictComp) else [node.elt]
        if any(isinstance(x, ast.Name) and x.id == g_.target.id and isinstance(x.ctx, ast.Store) for p_ in parts for x in ast.walk(p_)):
            return None
        if isinstance(node, ast.DictComp):
            return ast.Dict(keys=[_subst_const(node.key, g_.target.id, c_) for c_ in g_.iter.elts],
                            values=[_subst_const(node.value, g_.target.id, c_) for c_ in g_.iter.elts])
        elts = [_subst_const(node.elt, g_.target.id, c_) for c_ in g_.iter.elts]
        return ast.List(elts=elts, ctx=ast.Load()) if isinstance(node, ast.ListComp) else ast.Set(elts=elts)

    class T(ast.NodeTransformer):
        def visit_FunctionDef(self, node):
            if node is fn:
                self.generic_visit(node)
            return node

        def _comp(self, node):
            self.generic_visit(node)
            new = _const_comprehension(node)
            if new is not None:
                count[0] += 1
                return ast.copy_location(new, node)
            return node
        visit_ListComp = visit_SetComp = visit_DictComp = _comp

        def visit_Call(self, node):
            self.generic_visit(node)
            f = node.func
            if any(k.arg is None and isinstance(k.value, ast.Name) and k.value.id in optdicts for k in node.keywords):
                kws = []
                for k in node.keywords:
                    if k.arg is None and isinstance(k.value, ast.Name) and k.value.id in optdicts:
                        d = optdicts[k.value.id]
                        kws.extend(ast.keyword(arg=kk.value, value=copy.deepcopy(vv)) for kk, vv in zip(d.keys, d.values))
                    else:
                        kws.append(k)
                node.keywords = kws
                count[0] += 1
            # dict(zip(("salt", "digest"), (a, b))): the display {"salt": a, "digest": b}
            if isinstance(f, ast.Name) and f.id == "dict" and len(node.args) == 1 and not node.keywords and isinstance(node.args[0], ast.Call) \
                    and isinstance(node.args[0].func, ast.Name) and node.args[0].func.id == "zip" and len(node.args[0].args) == 2 and not node.args[0].keywords:
                ks_, vs_ = node.args[0].args
                rows_ = const_rows(ks_)
                if rows_ is not None and isinstance(vs_, (ast.Tuple, ast.List)) and len(vs_.elts) == len(rows_) \
                        and not any(isinstance(e_, ast.Starred) for e_ in vs_.elts):
                    count[0] += 1
                    return ast.copy_location(ast.Dict(keys=[copy.deepcopy(k_) for k_ in rows_], values=list(vs_.elts)), node)
            # (lambda a: E)(x): the body with the argument put in
            if isinstance(f, ast.Lambda) and not node.keywords and not any(isinstance(a, ast.Starred) for a in node.args):
                la = f.args
                if not (la.vararg or la.kwarg or la.kwonlyargs or la.defaults or la.posonlyargs) and len(la.args) == len(node.args) \
                        and all(_simple_arg(a) or isinstance(a, ast.BoolOp) for a in node.args):
                    m_ = {p_.arg: a_ for p_, a_ in zip(la.args, node.args)}
                    uses_ = {}
                    for n2 in ast.walk(f.body):
                        if isinstance(n2, ast.Name) and n2.id in m_:
                            uses_[n2.id] = uses_.get(n2.id, 0) + 1
                    if all(_simple_arg(a_) or uses_.get(p_, 0) <= 1 for p_, a_ in m_.items()):
                        class S0(ast.NodeTransformer):
                            def visit_Name(self, n2):
                                if n2.id in m_ and isinstance(n2.ctx, ast.Load):
                                    return copy.deepcopy(m_[n2.id])
                                return n2
                        count[0] += 1
                        return ast.copy_location(S0().visit(copy.deepcopy(f.body)), node)
            # direct application of a partial / methodcaller object
            k = aliases.get(f.id) if isinstance(f, ast.Name) else _callable_kind(f)
            if k is not None and not any(isinstance(a, ast.Starred) for a in node.args):
                new = _apply_callable(k, list(node.args), list(node.keywords))
                if new is not None:
                    count[0] += 1
                    return ast.copy_location(new, node)
            # map(f, xs)
            if isinstance(f, ast.Name) and f.id == "map" and len(node.args) == 2 and not node.keywords:
                func, it = node.args
                fresh[0] += 1
                var = "__map%d_%d" % (id(fn) % 9973, fresh[0])
                elt = None
                kk = aliases.get(func.id) if isinstance(func, ast.Name) else _callable_kind(func)
                if kk is not None:
                    elt = _apply_callable(kk, [ast.Name(id=var, ctx=ast.Load())], [])
                elif isinstance(func, ast.Lambda) and len(func.args.args) == 1 and not func.args.vararg and not func.args.kwarg and not func.args.defaults:
                    pname = func.args.args[0].arg

                    class S(ast.NodeTransformer):
                        def visit_Name(self, n2):
                            if n2.id == pname:
                                return ast.copy_location(ast.Name(id=var, ctx=n2.ctx), n2)
                            return n2
                    elt = S().visit(copy.deepcopy(func.body))
                elif _plain_chain(func):
                    elt = ast.Call(func=func, args=[ast.Name(id=var, ctx=ast.Load())], keywords=[])
                if elt is not None:
                    count[0] += 1
                    gen = ast.GeneratorExp(elt=elt, generators=[ast.comprehension(target=ast.Name(id=var, ctx=ast.Store()), iter=it, ifs=[], is_async=0)])
                    return ast.copy_location(gen, node)
            return node
    T().visit(fn)
    # a local bound to a partial / methodcaller object in several places (one per loop), each time used only in the statements
    # that follow the binding in the same block: every stretch is rewritten with its own binding
    multi = {}
    for nm, cnt in assigned.items():
        if cnt > 1 and nm not in aliases:
            multi[nm] = []

    def blocks(node):
        for f_ in ("body", "orelse", "finalbody"):
            sub = getattr(node, f_, None)
            if isinstance(sub, list) and sub and isinstance(sub[0], ast.stmt):
                yield sub
        if isinstance(node, ast.Try):
            for h_ in node.handlers:
                yield h_.body
    if multi:
        for node in ast.walk(fn):
            if isinstance(node, (ast.FunctionDef, ast.Lambda)) and node is not fn:
                continue
            for blk in blocks(node):
                for i_, st in enumerate(blk):
                    if isinstance(st, ast.Assign) and len(st.targets) == 1 and isinstance(st.targets[0], ast.Name) and st.targets[0].id in multi:
                        nm = st.targets[0].id
                        k = _callable_kind(st.value)
                        j_ = i_ + 1
                        while j_ < len(blk) and not any(isinstance(m, ast.Name) and m.id == nm and isinstance(m.ctx, ast.Store) for m in ast.walk(blk[j_])):
                            j_ += 1
                        multi[nm].append((k, blk, i_ + 1, j_))
        for nm, segs in multi.items():
            if len(segs) != assigned[nm] or any(k is None for k, *_ in segs):
                continue
            covered = [id(m) for k, blk, a_, b_ in segs for st in blk[a_:b_] for m in ast.walk(st)
                       if isinstance(m, ast.Name) and m.id == nm and isinstance(m.ctx, ast.Load)]
            all_loads = [id(m) for m in ast.walk(fn) if isinstance(m, ast.Name) and m.id == nm and isinstance(m.ctx, ast.Load)]
            if sorted(covered) != sorted(all_loads):
                continue
            for k, blk, a_, b_ in segs:
                class T2(ast.NodeTransformer):
                    def visit_Call(self, node, k=k, nm=nm):
                        self.generic_visit(node)
                        if isinstance(node.func, ast.Name) and node.func.id == nm and not any(isinstance(a, ast.Starred) for a in node.args):
                            new = _apply_callable(k, list(node.args), list(node.keywords))
                            if new is not None:
                                count[0] += 1
                                return ast.copy_location(new, node)
                        return node
                for idx in range(a_, b_):
                    blk[idx] = T2().visit(blk[idx])
    if count[0]:
        ast.fix_missing_locations(fn)
    return count[0]


# ---------------------------------------------------------------------------------------------------------- generators in for loops
def _own_nodes(fn: ast.FunctionDef):
    """nodes of fn not inside nested function definitions / lambdas"""
    todo = list(fn.body)
    while todo:
        n = todo.pop()
        yield n
        for c in ast.iter_child_nodes(n):
            if isinstance(c, (ast.FunctionDef, ast.AsyncFunctionDef, ast.Lambda)):
                continue
            todo.append(c)


def _is_simple_generator(fn: ast.FunctionDef) -> bool:
    ys = [n for n in _own_nodes(fn) if isinstance(n, (ast.Yield, ast.YieldFrom))]
    if not ys or any(isinstance(y, ast.YieldFrom) for y in ys):
        return False
    # every yield is a statement of its own
    stmts = [n for n in _own_nodes(fn) if isinstance(n, ast.Expr) and isinstance(n.value, ast.Yield)]
    if len(stmts) != len(ys):
        return False
    if any(isinstance(n, ast.Return) and n.value is not None for n in _own_nodes(fn)):
        return False
    if fn.decorator_list or fn.args.vararg or fn.args.kwarg or fn.args.posonlyargs:
        return False
    return True


def _yield_is_tail(body: List[ast.stmt]) -> bool:
    """inside the generator, nothing is executed after a `yield` within the same loop iteration (so a `continue` in the
    consumer's body -- which resumes the generator -- means the same as a `continue` of the generator's loop)"""
    def tail_ok(stmts, is_tail):
        for i, st in enumerate(stmts):
            last = is_tail and i == len(stmts) - 1
            if isinstance(st, ast.Expr) and isinstance(st.value, ast.Yield):
                if not last:
                    return False
            elif isinstance(st, ast.If):
                if not tail_ok(st.body, last) or not tail_ok(st.orelse, last):
                    return False
            elif isinstance(st, (ast.For, ast.While)):
                if not tail_ok(st.body, True) or any(isinstance(x, ast.Expr) and isinstance(x.value, ast.Yield) for y in st.orelse for x in ast.walk(y)):
                    return False
            elif isinstance(st, (ast.With, ast.Try)):
                if any(isinstance(x, ast.Yield) for x in ast.walk(st)):
                    return False
        return True
    return tail_ok(body, True)


def _rewrite_generator_loops(body: List[ast.stmt], find_gen) -> bool:
    """`for T in helper(args): BODY` with helper a *new* simple generator: the generator's body with BODY at every yield."""
    changed = False
    i = 0
    while i < len(body):
        st = body[i]
        for field in ("body", "orelse", "finalbody"):
            sub = getattr(st, field, None)
            if isinstance(sub, list) and sub and isinstance(sub[0], ast.stmt) and not isinstance(st, (ast.FunctionDef, ast.AsyncFunctionDef, ast.ClassDef)):
                changed |= _rewrite_generator_loops(sub, find_gen)
        if isinstance(st, ast.Try):
            for h in st.handlers:
                changed |= _rewrite_generator_loops(h.body, find_gen)
        if isinstance(st, ast.For) and not st.orelse and isinstance(st.iter, ast.Call):
            res = find_gen(st.iter)
            if res is not None:
                gen, skip_self, self_expr = res
                loop_body = st.body
                own = [n for b in loop_body for n in ast.walk(b)]
                # break / continue that belong to this loop (not to loops nested in the body)
                def belongs(kind):
                    def scan(stmts):
                        for s_ in stmts:
                            if isinstance(s_, kind):
                                return True
                            if isinstance(s_, (ast.For, ast.While, ast.FunctionDef, ast.AsyncFunctionDef, ast.ClassDef)):
                                continue
                            for f_ in ("body", "orelse", "finalbody"):
                                sub_ = getattr(s_, f_, None)
                                if isinstance(sub_, list) and sub_ and isinstance(sub_[0], ast.stmt) and scan(sub_):
                                    return True
                            if isinstance(s_, ast.Try) and any(scan(h.body) for h in s_.handlers):
                                return True
                        return False
                    return scan(loop_body)
                if not belongs(ast.Break) and (not belongs(ast.Continue) or _yield_is_tail(gen.body)) \
                        and not any(isinstance(n, ast.Return) for n in own) and _yield_is_tail(gen.body):
                    new = _expand_generator_for(gen, st.iter, skip_self, self_expr, st.target, loop_body)
                    if new is not None:
                        for x in new:
                            ast.copy_location(x, st)
                            ast.fix_missing_locations(x)
                        body[i:i + 1] = new
                        changed = True
                        continue
        i += 1
    return changed


def _expand_generator_for(gen, call, skip_self, self_expr, target, loop_body) -> Optional[List[ast.stmt]]:
    _INLINED_DEFS.add(id(gen))
    _Counter.n += 1
    prefix = "__inl%d_" % _Counter.n
    binding = _bind_args(gen, call, skip_self, prefix)
    if binding is None or any(p.startswith("*") for p, _ in binding):
        return None
    locals_ = _assigned_names(gen) | {p for p, _ in binding}
    mapping = {nm: prefix + nm for nm in locals_}
    pre: List[ast.stmt] = []
    if skip_self and gen.args.args:
        sname = gen.args.args[0].arg
        if not (isinstance(self_expr, ast.Name) and self_expr.id == sname):
            mapping[sname] = prefix + sname
            pre.append(ast.Assign(targets=[ast.Name(id=prefix + sname, ctx=ast.Store())], value=copy.deepcopy(self_expr)))
        else:
            mapping.pop(sname, None)
    pre += [ast.Assign(targets=[ast.Name(id=mapping[p], ctx=ast.Store())], value=v) for p, v in binding]
    body = [copy.deepcopy(s_) for s_ in gen.body
            if not (isinstance(s_, ast.Expr) and isinstance(s_.value, ast.Constant) and isinstance(s_.value.value, str))]

    class _R(ast.NodeTransformer):
        def visit_Name(self, node):
            if node.id in mapping:
                return ast.copy_location(ast.Name(id=mapping[node.id], ctx=node.ctx), node)
            return node

        def visit_FunctionDef(self, node):
            return node
        visit_Lambda = visit_FunctionDef

        def visit_ExceptHandler(self, node):
            if node.name and node.name in mapping:
                node.name = mapping[node.name]
            self.generic_visit(node)
            return node

        def visit_Expr(self, node):
            if isinstance(node.value, ast.Yield):
                val = self.visit(node.value.value) if node.value.value is not None else ast.Constant(value=None)
                tnames = {n.id for n in ast.walk(target) if isinstance(n, ast.Name)}
                if isinstance(target, ast.Tuple) and isinstance(val, ast.Tuple) and len(target.elts) == len(val.elts) \
                        and not any(isinstance(e, ast.Starred) for e in list(target.elts) + list(val.elts)) \
                        and not any(isinstance(n, ast.Name) and n.id in tnames for e in val.elts for n in ast.walk(e)):
                    # `k, f = (a, b)`: one plain assignment per component (nothing on the right mentions a target)
                    assigns = [ast.Assign(targets=[copy.deepcopy(t)], value=v) for t, v in zip(target.elts, val.elts)]
                else:
                    assigns = [ast.Assign(targets=[copy.deepcopy(target)], value=val)]
                return assigns + [copy.deepcopy(b) for b in loop_body]
            self.generic_visit(node)
            return node

        def visit_Return(self, node):
            return None     # bare return in a generator: handled by refusing below
    if any(isinstance(n, ast.Return) for n in _own_nodes(gen)):
        return None
    r = _R()
    out: List[ast.stmt] = []
    for s_ in body:
        x = r.visit(s_)
        if isinstance(x, list):
            out += x
        elif x is not None:
            out.append(x)
    return pre + out


# ---------------------------------------------------------------------------------------------------------- table-driven loops
MAX_UNROLL = 8


def _substitute_row_value(stmts: List[ast.stmt], var: str, value: ast.expr) -> bool:
    """Replace the loads of *var* in *stmts* by *value* (a constant, a plain name / attribute chain) or, for a lambda that is
    only ever called with simple positional arguments, each call by the lambda's body with the arguments put in.  Nothing is
    changed (False) when *var* is re-bound in the statements, or used in a way that is not understood."""
    names = [n for s_ in stmts for n in ast.walk(s_) if isinstance(n, ast.Name) and n.id == var]
    if any(not isinstance(n.ctx, ast.Load) for n in names):
        return False
    if any(isinstance(n, (ast.FunctionDef, ast.Lambda, ast.ClassDef)) for s_ in stmts for n in ast.walk(s_)):
        return False
    if isinstance(value, ast.Lambda):
        a = value.args
        if a.vararg or a.kwarg or a.kwonlyargs or a.defaults or a.posonlyargs:
            return False
        params = [x.arg for x in a.args]
        calls = [c for s_ in stmts for c in ast.walk(s_) if isinstance(c, ast.Call) and isinstance(c.func, ast.Name) and c.func.id == var]
        if len(calls) != len(names) or any(c.keywords or len(c.args) != len(params) or not all(_simple_arg(x) for x in c.args) for c in calls):
            return False
        bound = {n.id for n in ast.walk(value.body) if isinstance(n, ast.Name)} - set(params)
        stored = {n.id for s_ in stmts for n in ast.walk(s_) if isinstance(n, ast.Name) and isinstance(n.ctx, ast.Store)}
        if bound & stored:
            return False

        class B(ast.NodeTransformer):
            def visit_Call(self, node):
                self.generic_visit(node)
                if isinstance(node.func, ast.Name) and node.func.id == var:
                    m = dict(zip(params, node.args))

                    class S(ast.NodeTransformer):
                        def visit_Name(self, n2):
                            if n2.id in m and isinstance(n2.ctx, ast.Load):
                                return copy.deepcopy(m[n2.id])
                            return n2
                    return ast.copy_location(S().visit(copy.deepcopy(value.body)), node)
                return node
        for i_, s_ in enumerate(stmts):
            stmts[i_] = B().visit(s_)
        return True
    type_of_const = isinstance(value, ast.Call) and isinstance(value.func, ast.Name) and value.func.id == "type" and len(value.args) == 1 \
        and isinstance(value.args[0], ast.Constant) and not value.keywords
    if isinstance(value, ast.Constant) or type_of_const or (_plain_chain(value) and not isinstance(value, ast.Call)):
        root = value
        while isinstance(root, ast.Attribute):
            root = root.value
        stored = {n.id for s_ in stmts for n in ast.walk(s_) if isinstance(n, ast.Name) and isinstance(n.ctx, ast.Store)}
        if isinstance(root, ast.Name) and root.id in stored:
            return False

        class R(ast.NodeTransformer):
            def visit_Name(self, n2):
                if n2.id == var:
                    return ast.copy_location(copy.deepcopy(value), n2)
                return n2
        for i_, s_ in enumerate(stmts):
            stmts[i_] = R().visit(s_)
        return True
    return False


def _unroll_table_loops(body: List[ast.stmt], table_of) -> bool:
    """`for a, b in TABLE: BODY` with TABLE a constant tuple / list display of at most MAX_UNROLL rows (a module-level constant
    or a local bound once to a display): replaced by one copy of BODY per row, each preceded by `a, b = row`.  `continue`
    becomes leaving that copy; loops containing `break` or an `else:` are left alone."""
    changed = False
    i = 0
    while i < len(body):
        st = body[i]
        for field in ("body", "orelse", "finalbody"):
            sub = getattr(st, field, None)
            if isinstance(sub, list) and sub and isinstance(sub[0], ast.stmt) and not isinstance(st, (ast.FunctionDef, ast.AsyncFunctionDef, ast.ClassDef)):
                changed |= _unroll_table_loops(sub, table_of)
        if isinstance(st, ast.Try):
            for h in st.handlers:
                changed |= _unroll_table_loops(h.body, table_of)
        if isinstance(st, ast.For) and not st.orelse:
            rows = table_of(st.iter)
            if rows is not None and 0 < len(rows) <= MAX_UNROLL:
                def has(kind, stmts):
                    for s_ in stmts:
                        if isinstance(s_, kind):
                            return True
                        if isinstance(s_, (ast.For, ast.While, ast.FunctionDef, ast.AsyncFunctionDef, ast.ClassDef)):
                            continue
                        for f_ in ("body", "orelse", "finalbody"):
                            sub_ = getattr(s_, f_, None)
                            if isinstance(sub_, list) and sub_ and isinstance(sub_[0], ast.stmt) and has(kind, sub_):
                                return True
                        if isinstance(s_, ast.Try) and any(has(kind, h.body) for h in s_.handlers):
                            return True
                    return False
                tgt_n = len(st.target.elts) if isinstance(st.target, ast.Tuple) else None
                shape_ok = all((isinstance(r, (ast.Tuple, ast.List)) and len(r.elts) == tgt_n) if tgt_n is not None else True for r in rows)
                if not has(ast.Break, st.body) and shape_ok:
                    new: List[ast.stmt] = []
                    uses_continue = has(ast.Continue, st.body)
                    for r in rows:
                        assign = ast.Assign(targets=[copy.deepcopy(st.target)], value=copy.deepcopy(r))
                        if tgt_n is not None:
                            assigns = [ast.Assign(targets=[copy.deepcopy(t)], value=copy.deepcopy(v)) for t, v in zip(st.target.elts, r.elts)]
                        else:
                            assigns = [assign]
                        copy_body = [copy.deepcopy(b) for b in st.body]
                        # a row element that is a constant, a plain name / attribute chain or a lambda only ever called is put in
                        # place of the loop variable (the copy then reads like the hand-written branch)
                        if tgt_n is not None or isinstance(st.target, ast.Name):
                            pairs = list(zip(st.target.elts, r.elts)) if tgt_n is not None else [(st.target, r)]
                            kept = []
                            for a_, (t_, v_) in zip(assigns, pairs):
                                if isinstance(t_, ast.Name) and _substitute_row_value(copy_body, t_.id, v_):
                                    continue
                                kept.append(a_)
                            assigns = kept
                            if len(kept) < len(pairs):
                                copy_body = _fold_constants(copy_body) or [ast.Pass()]
                        if uses_continue:
                            class _C(ast.NodeTransformer):
                                def visit_For(self, n):
                                    return n
                                visit_While = visit_For
                                visit_FunctionDef = visit_For

                                def visit_Continue(self, n):
                                    return ast.copy_location(ast.Break(), n)
                            copy_body = [_C().visit(b) for b in copy_body]
                            wrapper = ast.While(test=ast.Constant(value=True), body=copy_body + [ast.Break()], orelse=[])
                            new += assigns + [wrapper]
                        else:
                            new += assigns + copy_body
                    for x in new:
                        ast.copy_location(x, st)
                        ast.fix_missing_locations(x)
                    body[i:i + 1] = new
                    changed = True
                    continue
        i += 1
    return changed


# ---------------------------------------------------------------------------------------------------------- conditional expressions on a flag
def _split_flag_ifexp(fn: ast.FunctionDef) -> bool:
    """`x = A if flag else B` where the local flag (bound once) also guards statements elsewhere in the function becomes
    `if flag: x = A else: x = B`: the two definitions of x are then tied to the flag's outcome like the later `if flag:` is."""
    stores: Dict[str, int] = {}
    for n in ast.walk(fn):
        if isinstance(n, ast.Name) and isinstance(n.ctx, ast.Store):
            stores[n.id] = stores.get(n.id, 0) + 1
    tested = set()
    for n in ast.walk(fn):
        if isinstance(n, ast.If):
            for x in ast.walk(n.test):
                if isinstance(x, ast.Name):
                    tested.add(x.id)
    changed = [False]

    def flag_of(t):
        if isinstance(t, ast.UnaryOp) and isinstance(t.op, ast.Not):
            t = t.operand
        return t.id if isinstance(t, ast.Name) and stores.get(t.id) == 1 and t.id in tested else None

    def adopt_or_create(v):
        """`y if isinstance(y, T) else make()` / `make() if not isinstance(y, T) else y`: one arm is the tested object itself"""
        t = v.test
        if isinstance(t, ast.UnaryOp) and isinstance(t.op, ast.Not):
            t = t.operand
        if isinstance(t, ast.Call) and isinstance(t.func, ast.Name) and t.func.id == "isinstance" and len(t.args) == 2 and isinstance(t.args[0], ast.Name):
            y = t.args[0].id
            return any(isinstance(arm, ast.Name) and arm.id == y for arm in (v.body, v.orelse))
        return False

    def visit(body: List[ast.stmt]):
        for i, st in enumerate(list(body)):
            for field in ("body", "orelse", "finalbody"):
                sub = getattr(st, field, None)
                if isinstance(sub, list) and sub and isinstance(sub[0], ast.stmt) and not isinstance(st, (ast.FunctionDef, ast.AsyncFunctionDef, ast.ClassDef)):
                    visit(sub)
            if isinstance(st, ast.Try):
                for h in st.handlers:
                    visit(h.body)
            # `super().extend(x if trusted else (self._validate(i) for i in x))`: one call per arm -- the arm that hands the
            # data on unchecked then sits under the test that allows it, like in the statement form
            if isinstance(st, (ast.Expr, ast.Return)) and isinstance(getattr(st, "value", None), ast.Call) and not st.value.keywords:
                c_ = st.value
                cond = [a_ for a_ in c_.args if isinstance(a_, ast.IfExp)]
                # (only for delegation to the parent class -- `super().extend(...)`, `list.extend(self, ...)` -- where the rules ask
                # under which test the data is handed on; elsewhere a conditional argument stays one call)
                if len(cond) == 1 and all(_simple_arg(a_) or isinstance(a_, ast.Constant) for a_ in c_.args if a_ is not cond[0]) \
                        and isinstance(c_.func, ast.Attribute) and (
                            (isinstance(c_.func.value, ast.Call) and isinstance(c_.func.value.func, ast.Name) and c_.func.value.func.id == "super")
                            or (isinstance(c_.func.value, ast.Name) and c_.func.value.id in ("list", "dict", "set"))):
                    def arm_stmt(e_, st=st, c_=c_, cond=cond):
                        ns = copy.deepcopy(st)
                        idx = c_.args.index(cond[0])
                        ns.value.args[idx] = copy.deepcopy(e_)
                        return ast.copy_location(ns, st)
                    new = ast.If(test=copy.deepcopy(cond[0].test), body=[arm_stmt(cond[0].body)], orelse=[arm_stmt(cond[0].orelse)])
                    ast.copy_location(new, st)
                    ast.fix_missing_locations(new)
                    body[body.index(st)] = new
                    changed[0] = True
                    continue
            tgt_ = st.targets[0] if isinstance(st, ast.Assign) and len(st.targets) == 1 else (st.target if isinstance(st, ast.AnnAssign) else None)
            if isinstance(tgt_, ast.Name) and isinstance(getattr(st, "value", None), ast.IfExp) \
                    and ((flag_of(st.value.test) and tgt_.id != flag_of(st.value.test)) or adopt_or_create(st.value)):
                a = ast.Assign(targets=[copy.deepcopy(tgt_)], value=st.value.body)
                b = ast.Assign(targets=[copy.deepcopy(tgt_)], value=st.value.orelse)
                new = ast.If(test=st.value.test, body=[a], orelse=[b])
                for x in (a, b, new):
                    ast.copy_location(x, st)
                ast.fix_missing_locations(new)
                body[body.index(st)] = new
                changed[0] = True
    visit(fn.body)
    return changed[0]


def _split_attribute_tuple_assign(body: List[ast.stmt]) -> bool:
    """`o.a, o.b = (x, y)` / `a, b = (x, y)` (a display of the same length on the right, no element on the right reads a target
    assigned before it) -> one assignment per target, in order."""
    changed = False
    i = 0
    while i < len(body):
        st = body[i]
        for field in ("body", "orelse", "finalbody"):
            sub = getattr(st, field, None)
            if isinstance(sub, list) and sub and isinstance(sub[0], ast.stmt) and not isinstance(st, (ast.FunctionDef, ast.AsyncFunctionDef, ast.ClassDef)):
                changed |= _split_attribute_tuple_assign(sub)
        if isinstance(st, ast.Try):
            for h in st.handlers:
                changed |= _split_attribute_tuple_assign(h.body)
        if isinstance(st, ast.Assign) and len(st.targets) == 1 and isinstance(st.targets[0], (ast.Tuple, ast.List)) and isinstance(st.value, (ast.Tuple, ast.List)) \
                and len(st.targets[0].elts) == len(st.value.elts) and not any(isinstance(e, ast.Starred) for e in st.targets[0].elts + st.value.elts) \
                and all(isinstance(t, (ast.Attribute, ast.Subscript, ast.Name)) for t in st.targets[0].elts):
            # sequential assignment is the same when no right-hand element reads a target that was assigned before it
            ok_seq = True
            for ti, t in enumerate(st.targets[0].elts):
                later = st.value.elts[ti + 1:]
                if isinstance(t, ast.Name):
                    if any(isinstance(n, ast.Name) and n.id == t.id for v in later for n in ast.walk(v)):
                        ok_seq = False
                else:
                    tt_ = ast.unparse(t)
                    if any(tt_ in ast.unparse(v) for v in later):
                        ok_seq = False
            if ok_seq:
                new = []
                for t, v in zip(st.targets[0].elts, st.value.elts):
                    a = ast.copy_location(ast.Assign(targets=[t], value=v), st)
                    ast.fix_missing_locations(a)
                    new.append(a)
                body[i:i + 1] = new
                changed = True
                i += len(new)
                continue
        i += 1
    return changed


# ---------------------------------------------------------------------------------------------------------- assignment expressions
def _hoist_walrus(body: List[ast.stmt]) -> bool:
    """`if isinstance((x := E), T):` -> `x = E` / `if isinstance(x, T):` when the assignment expression is what the statement
    evaluates first (the leftmost-evaluation spine of an if test, an assignment value, a return value, an expression statement);
    `if A and (x := B): BODY` without else -> `if A: x = B; if x: BODY`.  `while` tests and comprehensions are left alone."""
    changed = False

    def spine_walrus(e, parent=None, field=None, index=None):
        """(NamedExpr, setter that replaces it) when it sits on the leftmost-evaluation spine of e"""
        if isinstance(e, ast.NamedExpr):
            return e, parent, field, index
        if isinstance(e, ast.BoolOp):
            return spine_walrus(e.values[0], e, "values", 0)
        if isinstance(e, ast.Compare):
            return spine_walrus(e.left, e, "left", None)
        if isinstance(e, ast.UnaryOp):
            return spine_walrus(e.operand, e, "operand", None)
        if isinstance(e, ast.Call) and isinstance(e.func, ast.Name) and e.args and not isinstance(e.args[0], ast.Starred):
            return spine_walrus(e.args[0], e, "args", 0)
        if isinstance(e, ast.Call) and isinstance(e.func, ast.Attribute):
            return spine_walrus(e.func.value, e.func, "value", None)
        if isinstance(e, ast.Attribute):
            return spine_walrus(e.value, e, "value", None)
        if isinstance(e, ast.Subscript):
            return spine_walrus(e.value, e, "value", None)
        if isinstance(e, ast.BinOp):
            return spine_walrus(e.left, e, "left", None)
        if isinstance(e, ast.IfExp):
            return spine_walrus(e.test, e, "test", None)
        return None
    i = 0
    while i < len(body):
        st = body[i]
        for field in ("body", "orelse", "finalbody"):
            sub = getattr(st, field, None)
            if isinstance(sub, list) and sub and isinstance(sub[0], ast.stmt) and not isinstance(st, (ast.FunctionDef, ast.AsyncFunctionDef, ast.ClassDef)):
                changed |= _hoist_walrus(sub)
        if isinstance(st, ast.Try):
            for h in st.handlers:
                changed |= _hoist_walrus(h.body)
        holder, attr = None, None
        if isinstance(st, ast.If):
            holder, attr = st, "test"
        elif isinstance(st, (ast.Assign, ast.AnnAssign, ast.Return, ast.Expr, ast.AugAssign)) and getattr(st, "value", None) is not None:
            holder, attr = st, "value"
        if holder is not None:
            e = getattr(holder, attr)
            found = spine_walrus(e, holder, attr, None)
            if found is not None and isinstance(found[0].target, ast.Name):
                w, par, fld, idx = found
                name = ast.copy_location(ast.Name(id=w.target.id, ctx=ast.Load()), w)
                if idx is None:
                    setattr(par, fld, name)
                else:
                    getattr(par, fld)[idx] = name
                assign = ast.copy_location(ast.Assign(targets=[ast.Name(id=w.target.id, ctx=ast.Store())], value=w.value), st)
                ast.fix_missing_locations(assign)
                body.insert(i, assign)
                changed = True
                continue        # the same statement again (there may be another one)
            # if A and (x := B): BODY   (no else)
            if isinstance(st, ast.If) and not st.orelse and isinstance(st.test, ast.BoolOp) and isinstance(st.test.op, ast.And) and len(st.test.values) >= 2:
                for k in range(1, len(st.test.values)):
                    f2 = spine_walrus(st.test.values[k], st.test, "values", k)
                    if f2 is not None and isinstance(f2[0], ast.NamedExpr) and not any(isinstance(x, ast.NamedExpr) for v in st.test.values[:k] for x in ast.walk(v)):
                        first = st.test.values[:k]
                        rest = st.test.values[k:]
                        outer_test = first[0] if len(first) == 1 else ast.BoolOp(op=ast.And(), values=first)
                        inner_test = rest[0] if len(rest) == 1 else ast.BoolOp(op=ast.And(), values=rest)
                        inner = ast.If(test=inner_test, body=st.body, orelse=[])
                        outer = ast.If(test=outer_test, body=[inner], orelse=[])
                        for x in (inner, outer):
                            ast.copy_location(x, st)
                        ast.fix_missing_locations(outer)
                        body[i] = outer
                        changed = True
                        break
                else:
                    i += 1
                    continue
                continue
        i += 1
    return changed


# ---------------------------------------------------------------------------------------------------------- reflective calls over a closed domain
def _attr_domain(cls: ast.ClassDef, attr: str):
    """The constants an instance attribute can hold besides a falsy "not set": `__init__` rejects every other value
    (`if self.A and self.A not in ("lower", "upper"): raise`) and no other method of the class assigns it."""
    init = next((n for n in cls.body if isinstance(n, ast.FunctionDef) and n.name == "__init__"), None)
    if init is None or not init.args.args:
        return None
    me = init.args.args[0].arg
    for m in cls.body:
        if isinstance(m, ast.FunctionDef) and m is not init:
            if any(isinstance(t, ast.Attribute) and t.attr == attr and isinstance(t.ctx, ast.Store) for t in ast.walk(m)):
                return None
    for st in ast.walk(init):
        if isinstance(st, ast.If) and st.body and isinstance(st.body[0], ast.Raise):
            for c in ast.walk(st.test):
                if isinstance(c, ast.Compare) and len(c.ops) == 1 and isinstance(c.ops[0], ast.NotIn) and isinstance(c.left, ast.Attribute) \
                        and c.left.attr == attr and isinstance(c.left.value, ast.Name) and c.left.value.id == me \
                        and isinstance(c.comparators[0], (ast.Tuple, ast.List, ast.Set)) and c.comparators[0].elts \
                        and all(isinstance(e, ast.Constant) and isinstance(e.value, str) and e.value.isidentifier() for e in c.comparators[0].elts) \
                        and len(c.comparators[0].elts) <= MAX_UNROLL:
                    return [e.value for e in c.comparators[0].elts]
    return None


def _rewrite_dict_attr(fn: ast.FunctionDef) -> int:
    """`x.__dict__["n"]`, `x.__dict__.get("n"[, d])`, `x.__dict__.setdefault("n", d)` with a constant identifier name are the
    attribute `x.n` read directly / with a default (`getattr(x, "n", d)`); `x.__dict__["n"] = v` is `x.n = v`.  (setdefault also
    stores the default when the attribute is missing: the store is not represented, the value read is.)"""
    count = [0]

    def is_dict_of(e):
        return isinstance(e, ast.Attribute) and e.attr == "__dict__" and _plain_chain(e.value)

    def ident(c):
        return isinstance(c, ast.Constant) and isinstance(c.value, str) and c.value.isidentifier()

    class D(ast.NodeTransformer):
        def visit_Subscript(self, node):
            self.generic_visit(node)
            if is_dict_of(node.value) and ident(node.slice):
                count[0] += 1
                return ast.copy_location(ast.Attribute(value=node.value.value, attr=node.slice.value, ctx=node.ctx), node)
            return node

        def visit_Call(self, node):
            self.generic_visit(node)
            f = node.func
            if isinstance(f, ast.Attribute) and f.attr in ("get", "setdefault") and is_dict_of(f.value) and node.args and ident(node.args[0]) \
                    and len(node.args) <= 2 and not node.keywords:
                count[0] += 1
                default = node.args[1] if len(node.args) == 2 else ast.Constant(value=None)
                return ast.copy_location(ast.Call(func=ast.Name(id="getattr", ctx=ast.Load()),
                                                  args=[f.value.value, node.args[0], default], keywords=[]), node)
            return node
    D().visit(fn)
    if count[0]:
        ast.fix_missing_locations(fn)
    return count[0]


def _rewrite_domain_getattr(fn: ast.FunctionDef, cls: Optional[ast.ClassDef]) -> int:
    """`getattr(x, self.A)` where `self.A` ranges over a closed set of names (see _attr_domain) is the chain
    `x.n1 if self.A == "n1" else x.n2 ...`"""
    if cls is None or not fn.args.args:
        return 0
    me = fn.args.args[0].arg
    count = [0]

    class G(ast.NodeTransformer):
        def visit_Call(self, node):
            self.generic_visit(node)
            if isinstance(node.func, ast.Name) and node.func.id == "getattr" and len(node.args) == 2 and not node.keywords \
                    and isinstance(node.args[1], ast.Attribute) and isinstance(node.args[1].value, ast.Name) and node.args[1].value.id == me \
                    and _simple_arg(node.args[0]):
                dom = _attr_domain(cls, node.args[1].attr)
                if dom:
                    out = ast.Attribute(value=copy.deepcopy(node.args[0]), attr=dom[-1], ctx=ast.Load())
                    for name in reversed(dom[:-1]):
                        test = ast.Compare(left=copy.deepcopy(node.args[1]), ops=[ast.Eq()], comparators=[ast.Constant(value=name)])
                        out = ast.IfExp(test=test, body=ast.Attribute(value=copy.deepcopy(node.args[0]), attr=name, ctx=ast.Load()), orelse=out)
                    count[0] += 1
                    out._domain_chain = True
                    return ast.copy_location(out, node)
            if isinstance(node.func, ast.IfExp) and getattr(node.func, "_domain_chain", False) and all(_simple_arg(a) for a in node.args) and not node.keywords:
                # (x.a if c else x.b)(args)  ->  x.a(args) if c else x.b(args)
                def spread(e):
                    if isinstance(e, ast.IfExp):
                        return ast.IfExp(test=e.test, body=spread(e.body), orelse=spread(e.orelse))
                    return ast.Call(func=e, args=[copy.deepcopy(a) for a in node.args], keywords=[])
                return ast.copy_location(spread(node.func), node)
            return node
    G().visit(fn)
    if count[0]:
        ast.fix_missing_locations(fn)
    return count[0]


# ---------------------------------------------------------------------------------------------------------- dispatch through a constant dict
def _rewrite_dict_dispatch(fn: ast.FunctionDef, dict_of) -> bool:
    """`h = TABLE.get(key, default)` ... `return h(args)` (TABLE a constant dict display of at most MAX_UNROLL entries with
    constant keys; h bound once and only ever called as the whole value of a return / assignment / expression statement)
    becomes the chain `if key == k1: return v1(args) elif ... else: return default(args)`; `TABLE[key](args)` and
    `TABLE.get(key, default)(args)` written in place likewise (a missing key of `TABLE[key]` raises KeyError)."""
    stores: Dict[str, int] = {}
    loads: Dict[str, List[ast.Name]] = {}
    for n in ast.walk(fn):
        if isinstance(n, ast.Name):
            if isinstance(n.ctx, ast.Store):
                stores[n.id] = stores.get(n.id, 0) + 1
            else:
                loads.setdefault(n.id, []).append(n)
    params = {a.arg for a in fn.args.posonlyargs + fn.args.args + fn.args.kwonlyargs}
    # for the enclosing-block form: the unique assignment statement of every local, the chain of body lists around every
    # statement, and parent links of the name loads
    assign_of: Dict[str, ast.Assign] = {}
    ancestors: Dict[int, tuple] = {}
    for n in ast.walk(fn):
        for ch in ast.iter_child_nodes(n):
            if isinstance(ch, ast.Name):
                ch._nparent = n  # type: ignore
        if isinstance(n, ast.Assign) and len(n.targets) == 1 and isinstance(n.targets[0], ast.Name) and stores.get(n.targets[0].id) == 1:
            assign_of[n.targets[0].id] = n

    def index_blocks(stmts, chain_):
        here = chain_ + (id(stmts),)
        for st_ in stmts:
            ancestors[id(st_)] = here
            if isinstance(st_, (ast.FunctionDef, ast.AsyncFunctionDef, ast.ClassDef)):
                continue
            for f_ in ("body", "orelse", "finalbody"):
                sub_ = getattr(st_, f_, None)
                if isinstance(sub_, list) and sub_ and isinstance(sub_[0], ast.stmt):
                    index_blocks(sub_, here)
            if isinstance(st_, ast.Try):
                for h_ in st_.handlers:
                    index_blocks(h_.body, here)
    index_blocks(fn.body, ())
    order: Dict[int, int] = {}

    def number(n_):
        order[id(n_)] = len(order)
        for ch_ in ast.iter_child_nodes(n_):
            number(ch_)
    number(fn)

    def lookup(e):
        """(rows, key expr, default expr or None) of TABLE.get(K[, D]) / TABLE[K]"""
        if isinstance(e, ast.Call) and isinstance(e.func, ast.Attribute) and e.func.attr == "get" and 1 <= len(e.args) <= 2 and not e.keywords:
            rows = dict_of(e.func.value)
            if rows is not None:
                return rows, e.args[0], (e.args[1] if len(e.args) == 2 else ast.Constant(value=None))
        if isinstance(e, ast.Subscript):
            rows = dict_of(e.value)
            if rows is not None:
                return rows, e.slice, None
        return None

    def stable(k):
        return isinstance(k, ast.Constant) or (_plain_chain(k) and not isinstance(k, ast.Call))
    changed = [False]

    def chain(st: ast.stmt, call: ast.Call, rows, key, default) -> List[ast.stmt]:
        def variant(func_expr):
            new_call = ast.Call(func=copy.deepcopy(func_expr), args=[copy.deepcopy(a) for a in call.args], keywords=[copy.deepcopy(k) for k in call.keywords])
            # put the new call where the old one was (the statement's whole value, or inside it)
            call._dispatch_here = True
            new_st = copy.deepcopy(st)
            del call._dispatch_here

            class P(ast.NodeTransformer):
                def visit_Call(self, node):
                    if getattr(node, "_dispatch_here", False):
                        return new_call
                    self.generic_visit(node)
                    return node
            new_st = P().visit(new_st)
            return ast.copy_location(new_st, st)
        if default is not None:
            tail: List[ast.stmt] = [variant(default)]
        else:
            tail = [ast.copy_location(ast.Raise(exc=ast.Call(func=ast.Name(id="KeyError", ctx=ast.Load()), args=[copy.deepcopy(key)], keywords=[]), cause=None), st)]
        for k, v in reversed(rows):
            test = ast.Compare(left=copy.deepcopy(key), ops=[ast.Eq()], comparators=[copy.deepcopy(k)])
            tail = [ast.copy_location(ast.If(test=test, body=[variant(v)], orelse=tail), st)]
        for x in tail:
            ast.fix_missing_locations(x)
        return tail

    def visit(body: List[ast.stmt]):
        i = 0
        while i < len(body):
            st = body[i]
            for field in ("body", "orelse", "finalbody"):
                sub = getattr(st, field, None)
                if isinstance(sub, list) and sub and isinstance(sub[0], ast.stmt) and not isinstance(st, (ast.FunctionDef, ast.AsyncFunctionDef, ast.ClassDef)):
                    visit(sub)
            if isinstance(st, ast.Try):
                for h in st.handlers:
                    visit(h.body)
            # `x = TABLE.get(k) if cond else None`: the conditional assignment as the statement it abbreviates
            if phase[0] == 1 and isinstance(st, (ast.Return, ast.Assign)) and isinstance(getattr(st, "value", None), ast.IfExp) and not (
                    isinstance(st, ast.Assign) and not (len(st.targets) == 1 and isinstance(st.targets[0], ast.Name))) \
                    and (lookup(st.value.body) is not None or lookup(st.value.orelse) is not None):
                def arm(v, st=st):
                    new_st = copy.deepcopy(st)
                    new_st.value = copy.deepcopy(v)
                    return ast.copy_location(new_st, st)
                split = ast.copy_location(ast.If(test=copy.deepcopy(st.value.test), body=[arm(st.value.body)], orelse=[arm(st.value.orelse)]), st)
                ast.fix_missing_locations(split)
                body[i] = split
                changed[0] = True
                continue
            # the looked-up entry itself: `pair = TABLE[key]` / `return TABLE.get(key, default)`
            if phase[0] == 1 and isinstance(st, (ast.Return, ast.Assign)) and getattr(st, "value", None) is not None and not (
                    isinstance(st, ast.Assign) and not (len(st.targets) == 1 and isinstance(st.targets[0], ast.Name))):
                lk0 = lookup(st.value)
                if lk0 is not None and isinstance(st, ast.Assign):
                    uses0 = loads.get(st.targets[0].id, [])
                    par0 = getattr(uses0[0], "_nparent", None) if len(uses0) == 1 else None
                    only_called = len(uses0) == 1 and stores.get(st.targets[0].id) == 1 and any(
                        isinstance(c_, ast.Call) and c_.func is uses0[0] for c_ in ast.walk(fn))
                    if only_called:
                        lk0 = None          # `h = TABLE.get(k, d)` ... `return h(x)`: written out at the call below
                if lk0 is not None and stable(lk0[1]) and not isinstance(lk0[1], ast.Constant):
                    rows0, key0, default0 = lk0

                    def entry(v):
                        new_st = copy.deepcopy(st)
                        new_st.value = copy.deepcopy(v)
                        return ast.copy_location(new_st, st)
                    if default0 is not None:
                        tail0: List[ast.stmt] = [entry(default0)]
                    else:
                        tail0 = [ast.copy_location(ast.Raise(exc=ast.Call(func=ast.Name(id="KeyError", ctx=ast.Load()), args=[copy.deepcopy(key0)], keywords=[]), cause=None), st)]
                    for k0, v0 in reversed(rows0):
                        test0 = ast.Compare(left=copy.deepcopy(key0), ops=[ast.Eq()], comparators=[copy.deepcopy(k0)])
                        tail0 = [ast.copy_location(ast.If(test=test0, body=[entry(v0)], orelse=tail0), st)]
                    for x0 in tail0:
                        ast.fix_missing_locations(x0)
                    body[i:i + 1] = tail0
                    changed[0] = True
                    continue
            call = st.value if isinstance(st, (ast.Return, ast.Assign, ast.Expr)) and isinstance(getattr(st, "value", None), ast.Call) else None
            if call is None and isinstance(st, (ast.Return, ast.Assign)) and isinstance(getattr(st, "value", None), (ast.Tuple, ast.List)):
                # the dispatched call as one element of a returned / assigned display: return (TABLE[k](x), k)
                cands = [e_ for e_ in st.value.elts if isinstance(e_, ast.Call) and lookup(e_.func) is not None]
                others = [e_ for e_ in st.value.elts if e_ not in cands]
                if len(cands) == 1 and all(_simple_arg(o) for o in others) and st.value.elts.index(cands[0]) == 0:
                    call = cands[0]
            if call is not None and not any(isinstance(a, ast.Starred) for a in call.args):
                # written in place
                lk = lookup(call.func) if phase[0] == 1 else None
                if lk is not None and stable(lk[1]):
                    body[i:i + 1] = chain(st, call, *lk)
                    changed[0] = True
                    continue
                # through a local bound once by a statement of an enclosing block (the call may sit inside a try: / if:), where the
                # local is otherwise only tested for None (`p = TABLE.get(k) if k else None` / `if p is None: ...` / `p(x)`):
                # the call is written out, the binding stays for the tests
                if isinstance(call.func, ast.Name) and stores.get(call.func.id) == 1 and call.func.id not in params \
                        and not getattr(call, "_dispatched", False):
                    nm = call.func.id
                    A = assign_of.get(nm)
                    lkc = None
                    if A is not None:
                        v = A.value
                        if isinstance(v, ast.IfExp) and isinstance(v.orelse, ast.Constant) and v.orelse.value is None:
                            v = v.body
                        elif isinstance(v, ast.IfExp) and isinstance(v.body, ast.Constant) and v.body.value is None:
                            v = v.orelse
                        lkc = lookup(v)
                    if lkc is not None and stable(lkc[1]) and not isinstance(lkc[1], ast.Constant):
                        others = [u for u in loads.get(nm, []) if u is not call.func]
                        def none_tested(u):
                            par = getattr(u, "_nparent", None)
                            if isinstance(par, ast.Compare) and len(par.ops) == 1 and isinstance(par.ops[0], (ast.Is, ast.IsNot, ast.Eq, ast.NotEq)) \
                                    and isinstance(par.comparators[0], ast.Constant) and par.comparators[0].value is None and par.left is u:
                                return True
                            if isinstance(par, ast.UnaryOp) and isinstance(par.op, ast.Not):
                                return True
                            return isinstance(par, (ast.If, ast.While, ast.IfExp)) and par.test is u
                        kn = {n.id for n in ast.walk(lkc[1]) if isinstance(n, ast.Name)}
                        # (positions in the tree, not line numbers: expanded code keeps the lines of the file it came from)
                        later_store = any(isinstance(n, ast.Name) and isinstance(n.ctx, ast.Store) and n.id in kn and order.get(id(n), 0) > order.get(id(A), 0)
                                          for n in ast.walk(fn))
                        encl = ancestors.get(id(st), ())
                        if others and all(none_tested(u) for u in others) and not later_store and order.get(id(A), 0) < order.get(id(st), 0) \
                                and ancestors.get(id(A), (None,))[-1] in encl:
                            rows_, key_, default_ = lkc
                            if default_ is None or (isinstance(default_, ast.Constant) and default_.value is None):
                                default_ = ast.Name(id="__not_callable__", ctx=ast.Load())     # calling None: TypeError
                            call._dispatched = True
                            # the binding is kept for the None tests only: it no longer needs to hold the callables themselves
                            # (which would count as passing them around) -- `k in (<keys>)` says the same about None-ness
                            if all(isinstance(v_, (ast.Name, ast.Attribute, ast.Lambda)) for _, v_ in rows_) and isinstance(v, ast.Call):
                                marker = ast.IfExp(test=ast.Compare(left=copy.deepcopy(key_), ops=[ast.In()],
                                                                    comparators=[ast.Tuple(elts=[copy.deepcopy(k_) for k_, _ in rows_], ctx=ast.Load())]),
                                                   body=ast.Constant(value=True), orelse=copy.deepcopy(lkc[2]) if lkc[2] is not None else ast.Constant(value=None))
                                ast.copy_location(marker, v)
                                ast.fix_missing_locations(marker)
                                if A.value is v:
                                    A.value = marker
                                elif isinstance(A.value, ast.IfExp) and A.value.body is v:
                                    A.value.body = marker
                                elif isinstance(A.value, ast.IfExp) and A.value.orelse is v:
                                    A.value.orelse = marker
                            new_stmts = chain(st, call, rows_, key_, default_)
                            for ns in new_stmts:
                                for c_ in ast.walk(ns):
                                    if isinstance(c_, ast.Call):
                                        c_._dispatched = True
                            body[i:i + 1] = new_stmts
                            changed[0] = True
                            continue
                # through a local bound once, just before or earlier in this block, and only ever called
                if phase[0] == 1 and isinstance(call.func, ast.Name) and stores.get(call.func.id) == 1 and call.func.id not in params:
                    nm = call.func.id
                    for j in range(i - 1, -1, -1):
                        prev = body[j]
                        if isinstance(prev, ast.Assign) and len(prev.targets) == 1 and isinstance(prev.targets[0], ast.Name) and prev.targets[0].id == nm:
                            lk = lookup(prev.value)
                            uses = loads.get(nm, [])
                            if lk is not None and stable(lk[1]) and len(uses) == 1 and uses[0] is call.func:
                                key = lk[1]
                                kn = {n.id for n in ast.walk(key) if isinstance(n, ast.Name)}
                                between = body[j + 1:i]
                                if not any(isinstance(n, ast.Name) and isinstance(n.ctx, ast.Store) and n.id in kn for b in between for n in ast.walk(b)):
                                    body[i:i + 1] = chain(st, call, *lk)
                                    del body[j]
                                    changed[0] = True
                                    i -= 1
                            break
            i += 1
    phase = [0]         # first the calls through a local that is also tested (the binding must still be in its original form)
    visit(fn.body)
    phase[0] = 1
    visit(fn.body)
    return changed[0]


def _flatten_closure_factories(modules: Dict[str, ast.Module], is_new) -> List[str]:
    """A new module-level function whose body is `def inner(...): ...; return inner` is a two-stage function: every
    `factory(a)(b)` is the call `_flat_factory(a, b)` of the flattened definition, added next to the factory."""
    log: List[str] = []
    for mn, mod in modules.items():
        for d in list(mod.body):
            if not (isinstance(d, ast.FunctionDef) and is_new(d.name) and not d.decorator_list):
                continue
            body = [s_ for s_ in d.body if not (isinstance(s_, ast.Expr) and isinstance(s_.value, ast.Constant) and isinstance(s_.value.value, str))]
            if not (len(body) == 2 and isinstance(body[0], ast.FunctionDef) and isinstance(body[1], ast.Return) and isinstance(body[1].value, ast.Name)
                    and body[1].value.id == body[0].name):
                continue
            inner = body[0]
            a, b = d.args, inner.args
            if any((x.vararg, x.kwarg, x.kwonlyargs, x.posonlyargs, x.defaults) != (None, None, [], [], []) for x in (a, b)) or inner.decorator_list:
                continue
            if {x.arg for x in a.args} & {x.arg for x in b.args}:
                continue
            if any(isinstance(n, (ast.Nonlocal, ast.Global)) for n in ast.walk(inner)):
                continue
            flat_name = "_flat_" + d.name.lstrip("_")
            exists = any(isinstance(x, ast.FunctionDef) and x.name == flat_name for x in mod.body)
            flat = ast.FunctionDef(name=flat_name, args=ast.arguments(posonlyargs=[], args=[copy.deepcopy(x) for x in a.args + b.args], vararg=None, kwonlyargs=[],
                                                                       kw_defaults=[], kwarg=None, defaults=[]),
                                   body=[copy.deepcopy(s_) for s_ in inner.body], decorator_list=[], returns=None, type_comment=None)
            if hasattr(d, "type_params"):
                flat.type_params = []
            ast.copy_location(flat, inner)
            ast.fix_missing_locations(flat)
            if not exists:
                mod.body.insert(mod.body.index(d) + 1, flat)
            na = len(a.args)
            hits = [0]

            class R(ast.NodeTransformer):
                def visit_Call(self, node, d=d, flat_name=flat_name, na=na):
                    self.generic_visit(node)
                    f = node.func
                    if isinstance(f, ast.Call) and isinstance(f.func, ast.Name) and f.func.id == d.name and len(f.args) == na and not f.keywords \
                            and not node.keywords and not any(isinstance(x, ast.Starred) for x in f.args + node.args):
                        hits[0] += 1
                        return ast.copy_location(ast.Call(func=ast.copy_location(ast.Name(id=flat_name, ctx=ast.Load()), f.func), args=f.args + node.args, keywords=[]), node)
                    return node
            for m2 in modules.values():
                R().visit(m2)
                ast.fix_missing_locations(m2)
            if hits[0] or not exists:
                log.append("%s.%s: closure factory flattened as %s (%d call sites)" % (mn, d.name, flat_name, hits[0]))
    return log


# ---------------------------------------------------------------------------------------------------------- for over a generator expression
class _CompCounter:
    n = 0


def _unfold_comprehensions(body: List[ast.stmt], wants) -> bool:
    """`return {k: self._helper(f) for k, f in self._gen()}` cannot take a statement-level expansion of `_helper` / `_gen` where it
    stands.  A list / dict / set comprehension that is the whole value of a return or of an assignment to a plain name, and that
    contains a call `wants` (a new multi-statement helper, a new generator), is written as the loop it abbreviates:
        __cmpN = {};  for k, f in self._gen(): __cmpN[k] = self._helper(f);  return __cmpN
    The comprehension's own variables are renamed (they are not visible outside it in the original)."""
    changed = False
    i = 0
    while i < len(body):
        st = body[i]
        for f_ in ("body", "orelse", "finalbody"):
            sub = getattr(st, f_, None)
            if isinstance(sub, list) and sub and isinstance(sub[0], ast.stmt) and not isinstance(st, (ast.FunctionDef, ast.AsyncFunctionDef, ast.ClassDef)):
                if _unfold_comprehensions(sub, wants):
                    changed = True
        if isinstance(st, ast.Try):
            for h in st.handlers:
                if _unfold_comprehensions(h.body, wants):
                    changed = True
        comp = None
        if isinstance(st, ast.Return) and isinstance(st.value, (ast.ListComp, ast.DictComp, ast.SetComp)):
            comp = st.value
        elif isinstance(st, ast.Assign) and len(st.targets) == 1 and isinstance(st.targets[0], ast.Name) \
                and isinstance(st.value, (ast.ListComp, ast.DictComp, ast.SetComp)):
            comp = st.value
        if comp is None or any(g.is_async for g in comp.generators) or not any(isinstance(c, ast.Call) and wants(c) for c in ast.walk(comp)):
            i += 1
            continue
        _CompCounter.n += 1
        acc = "__cmp%d" % _CompCounter.n
        bound = {n.id for g in comp.generators for n in ast.walk(g.target) if isinstance(n, ast.Name)}
        mapping = {b: "%s_%s" % (acc, b) for b in bound}

        class R(ast.NodeTransformer):
            def visit_Name(self, node):
                if node.id in mapping:
                    return ast.copy_location(ast.Name(id=mapping[node.id], ctx=node.ctx), node)
                return node
        if isinstance(comp, ast.DictComp):
            init: ast.expr = ast.Dict(keys=[], values=[])
            leaf: ast.stmt = ast.Assign(targets=[ast.Subscript(value=ast.Name(id=acc, ctx=ast.Load()), slice=R().visit(copy.deepcopy(comp.key)), ctx=ast.Store())],
                                        value=R().visit(copy.deepcopy(comp.value)))
        elif isinstance(comp, ast.ListComp):
            init = ast.List(elts=[], ctx=ast.Load())
            leaf = ast.Expr(value=ast.Call(func=ast.Attribute(value=ast.Name(id=acc, ctx=ast.Load()), attr="append", ctx=ast.Load()),
                                           args=[R().visit(copy.deepcopy(comp.elt))], keywords=[]))
        else:
            init = ast.Call(func=ast.Name(id="set", ctx=ast.Load()), args=[], keywords=[])
            leaf = ast.Expr(value=ast.Call(func=ast.Attribute(value=ast.Name(id=acc, ctx=ast.Load()), attr="add", ctx=ast.Load()),
                                           args=[R().visit(copy.deepcopy(comp.elt))], keywords=[]))
        inner: List[ast.stmt] = [leaf]
        for gi, g in reversed(list(enumerate(comp.generators))):
            for cond in reversed(g.ifs):
                inner = [ast.If(test=R().visit(copy.deepcopy(cond)), body=inner, orelse=[])]
            it = copy.deepcopy(g.iter)
            if gi > 0:
                it = R().visit(it)          # the first iterable is evaluated outside the comprehension's scope
            inner = [ast.For(target=R().visit(copy.deepcopy(g.target)), iter=it, body=inner, orelse=[])]
        pre = [ast.Assign(targets=[ast.Name(id=acc, ctx=ast.Store())], value=init)] + inner
        st.value = ast.Name(id=acc, ctx=ast.Load())
        for x in pre:
            ast.copy_location(x, st)
            ast.fix_missing_locations(x)
        ast.fix_missing_locations(st)
        body[i:i] = pre
        i += len(pre) + 1
        changed = True
    return changed


def _fuse_generator_loops(fn: ast.FunctionDef) -> bool:
    """`for T in (E for a in X if c): BODY` (the generator given directly, or through a local bound once and used only there)
    is the nested loop `for a in X: if c: T = E; BODY` -- generator expressions are lazy, so the interleaving is the same."""
    stores: Dict[str, int] = {}
    loads: Dict[str, int] = {}
    for n in ast.walk(fn):
        if isinstance(n, ast.Name):
            d = stores if isinstance(n.ctx, ast.Store) else loads
            d[n.id] = d.get(n.id, 0) + 1
    changed = [False]

    def visit(body: List[ast.stmt]):
        i = 0
        while i < len(body):
            st = body[i]
            for field in ("body", "orelse", "finalbody"):
                sub = getattr(st, field, None)
                if isinstance(sub, list) and sub and isinstance(sub[0], ast.stmt) and not isinstance(st, (ast.FunctionDef, ast.AsyncFunctionDef, ast.ClassDef)):
                    visit(sub)
            if isinstance(st, ast.Try):
                for h in st.handlers:
                    visit(h.body)
            if isinstance(st, ast.For) and not st.orelse:
                gen = None
                drop = None
                if isinstance(st.iter, ast.GeneratorExp):
                    gen = st.iter
                elif isinstance(st.iter, ast.Name) and stores.get(st.iter.id) == 1 and loads.get(st.iter.id) == 1 and i > 0:
                    prev = body[i - 1]
                    if isinstance(prev, ast.Assign) and len(prev.targets) == 1 and isinstance(prev.targets[0], ast.Name) \
                            and prev.targets[0].id == st.iter.id and isinstance(prev.value, ast.GeneratorExp):
                        gen, drop = prev.value, i - 1
                    elif isinstance(prev, ast.Assign) and len(prev.targets) == 1 and isinstance(prev.targets[0], ast.Name) \
                            and prev.targets[0].id == st.iter.id and isinstance(prev.value, ast.ListComp) and len(prev.value.generators) == 1:
                        # a list built only to be looped over once: the eager evaluation differs from the fused loop only
                        # if the loop body touches what the selection reads -- refused when the body mentions any of those names
                        g0_ = prev.value.generators[0]
                        tnames = {n.id for n in ast.walk(g0_.target) if isinstance(n, ast.Name)}
                        read = {n.id for part in [g0_.iter] + g0_.ifs for n in ast.walk(part) if isinstance(n, ast.Name)} - tnames
                        body_names = {n.id for b_ in st.body for n in ast.walk(b_) if isinstance(n, ast.Name)}
                        if not (read & body_names) and not (tnames & {n.id for n in ast.walk(st.target) if isinstance(n, ast.Name)} - tnames):
                            gen, drop = prev.value, i - 1
                if gen is not None and len(gen.generators) == 1 and not gen.generators[0].is_async:
                    g0 = gen.generators[0]
                    same = ast.unparse(st.target) == ast.unparse(gen.elt)
                    inner: List[ast.stmt] = ([] if same else [ast.Assign(targets=[st.target], value=gen.elt)]) + st.body
                    for c in reversed(g0.ifs):
                        inner = [ast.If(test=c, body=inner, orelse=[])]
                    loop = ast.For(target=g0.target, iter=g0.iter, body=inner, orelse=[], type_comment=None)
                    ast.copy_location(loop, st)
                    ast.fix_missing_locations(loop)
                    body[i] = loop
                    if drop is not None:
                        del body[drop]
                        i -= 1
                    changed[0] = True
                    continue
            i += 1
    visit(fn.body)
    return changed[0]


def _adopt_recursive_delegates(modules: Dict[str, ast.Module], is_new) -> List[str]:
    """`def combine_trees(self, base, child): return merge_trees(base, child)` where `merge_trees` is a *new* recursive
    module-level function that nothing else calls: the algorithm moved out of the method, the method only delegates.  The method
    gets the function's body back, with the function's calls of itself written as `self.combine_trees(...)` (which, through the
    delegation, is what they are) -- the rules anchored in the method read the algorithm where they expect it."""
    log: List[str] = []
    funcs: Dict[str, List[tuple]] = {}
    class_defs_all = [n for m in modules.values() for n in m.body if isinstance(n, ast.ClassDef)]
    for mn, m in modules.items():
        for n in m.body:
            if isinstance(n, ast.FunctionDef):
                funcs.setdefault(n.name, []).append((mn, n))
    for mn, m in modules.items():
        for c in [n for n in m.body if isinstance(n, ast.ClassDef)]:
            for meth in [n for n in c.body if isinstance(n, ast.FunctionDef)]:
                body = [st for st in meth.body if not (isinstance(st, ast.Expr) and isinstance(st.value, ast.Constant) and isinstance(st.value.value, str))]
                if len(body) != 1 or not isinstance(body[0], ast.Return) or not isinstance(body[0].value, ast.Call):
                    continue
                call = body[0].value
                if not isinstance(call.func, ast.Name) or call.keywords or not (is_new(call.func.id) or call.func.id == meth.name) \
                        or len(funcs.get(call.func.id, [])) != 1:
                    continue
                if meth.decorator_list or not meth.args.args:
                    continue
                fmn, f = funcs[call.func.id][0]
                mparams = [a.arg for a in meth.args.args[1:]]
                fparams = [a.arg for a in f.args.args]
                if f.decorator_list or f.args.vararg or f.args.kwarg or f.args.kwonlyargs or f.args.defaults or meth.args.vararg or meth.args.kwarg:
                    continue
                if not (len(call.args) == len(fparams) == len(mparams) and all(isinstance(a, ast.Name) for a in call.args)
                        and [a.id for a in call.args] == mparams):
                    continue
                self_calls = [x for x in ast.walk(f) if isinstance(x, ast.Call) and isinstance(x.func, ast.Name) and x.func.id == f.name]
                if not self_calls or any(x.keywords or len(x.args) != len(fparams) for x in self_calls):
                    continue
                others = [x for m2 in modules.values() for x in ast.walk(m2) if isinstance(x, ast.Name) and x.id == f.name and isinstance(x.ctx, ast.Load)]
                exclusive = len(others) == len(self_calls) + 1      # nobody else calls (or passes around) the function
                if not exclusive and sum(1 for k_ in class_defs_all if any(isinstance(x, ast.FunctionDef) and x.name == meth.name for x in k_.body)) > 1:
                    continue            # shared with other callers *and* the method is overridden somewhere: not the same recursion
                if _has(f, (ast.Yield, ast.YieldFrom, ast.Await, ast.Global, ast.Nonlocal)) or any(
                        isinstance(x, (ast.FunctionDef, ast.Lambda)) and x is not f for x in ast.walk(f)):
                    continue
                sname = meth.args.args[0].arg
                local_f = _assigned_names(f) | set(fparams)
                if sname in local_f:
                    continue
                ren = dict(zip(fparams, mparams))
                new_body = [copy.deepcopy(st) for st in f.body
                            if not (isinstance(st, ast.Expr) and isinstance(st.value, ast.Constant) and isinstance(st.value.value, str))]

                class R(ast.NodeTransformer):
                    def visit_Name(self, node):
                        if node.id in ren:
                            return ast.copy_location(ast.Name(id=ren[node.id], ctx=node.ctx), node)
                        return node

                    def visit_Call(self, node):
                        self.generic_visit(node)
                        if isinstance(node.func, ast.Name) and node.func.id == f.name:
                            node.func = ast.copy_location(ast.Attribute(value=ast.Name(id=sname, ctx=ast.Load()), attr=meth.name, ctx=ast.Load()), node.func)
                        return node
                # a parameter name of the method that the function uses for something else would be captured
                if (set(mparams) - set(ren.values())) or (set(mparams) & (local_f - set(fparams))):
                    continue
                doc = [st for st in meth.body if st not in body]
                meth.body = doc + [R().visit(st) for st in new_body]
                ast.fix_missing_locations(meth)
                if exclusive:
                    modules[fmn].body.remove(f)
                log.append("%s.%s: the recursive function %s it delegated to is written back into it" % (c.name, meth.name, f.name))
    return log


def _import_foreign_globals(modules: Dict[str, ast.Module]) -> List[str]:
    """Code expanded where it is called (or copied down from a new base class) may come from another module of the package
    and read that module's globals (`os`, `base64`, a constant, another helper).  Every such name that the receiving module does
    not bind is imported there from the module that provides it, so that name resolution reads the moved code as it read it at
    home.  Only names no function of the module binds locally and the module does not bind at all are touched."""
    import builtins
    log: List[str] = []
    is_pkg = {mn: any(o.startswith(mn + ".") for o in modules) for mn in modules}

    def top_bindings(tree):
        defs, imps = set(), {}
        for n in tree.body:
            if isinstance(n, (ast.FunctionDef, ast.AsyncFunctionDef, ast.ClassDef)):
                defs.add(n.name)
            elif isinstance(n, (ast.Assign, ast.AnnAssign)):
                for t in (n.targets if isinstance(n, ast.Assign) else [n.target]):
                    for x in ast.walk(t):
                        if isinstance(x, ast.Name):
                            defs.add(x.id)
        for n in ast.walk(tree):
            if isinstance(n, ast.Import):
                for a in n.names:
                    imps[a.asname or a.name.split(".")[0]] = ("import", a.name, a.asname)
            elif isinstance(n, ast.ImportFrom):
                for a in n.names:
                    imps[a.asname or a.name] = ("from", n, a)
        return defs, imps
    info = {mn: top_bindings(t) for mn, t in modules.items()}

    def absolute(mn, node: ast.ImportFrom) -> str:
        if not node.level:
            return node.module or ""
        base = mn.split(".")
        if not is_pkg[mn]:
            base = base[:-1]
        if node.level > 1:
            base = base[: len(base) - (node.level - 1)]
        return ".".join(base + ([node.module] if node.module else []))

    for mn, tree in modules.items():
        defs, imps = info[mn]
        bound_any = set()
        for n in ast.walk(tree):
            if isinstance(n, ast.Name) and isinstance(n.ctx, (ast.Store, ast.Del)):
                bound_any.add(n.id)
            elif isinstance(n, ast.arg):
                bound_any.add(n.arg)
            elif isinstance(n, ast.ExceptHandler) and n.name:
                bound_any.add(n.name)
            elif isinstance(n, (ast.FunctionDef, ast.AsyncFunctionDef, ast.ClassDef)):
                bound_any.add(n.name)
        missing = set()
        for n in ast.walk(tree):
            if isinstance(n, ast.Name) and isinstance(n.ctx, ast.Load) and n.id not in defs and n.id not in imps and n.id not in bound_any \
                    and not hasattr(builtins, n.id) and not n.id.startswith("__"):
                missing.add(n.id)
        new_imports: List[ast.stmt] = []
        for nm in sorted(missing):
            provider = [o for o in modules if o != mn and nm in info[o][0]]
            if len(provider) == 1:
                new_imports.append(ast.ImportFrom(module=provider[0], names=[ast.alias(name=nm, asname=None)], level=0))
                log.append("%s: %s imported from %s (read by code that moved here)" % (mn, nm, provider[0]))
                continue
            via = [o for o in modules if o != mn and nm in info[o][1]]
            if via:
                kind = info[via[0]][1][nm]
                if kind[0] == "import":
                    new_imports.append(ast.Import(names=[ast.alias(name=kind[1], asname=kind[2])]))
                else:
                    new_imports.append(ast.ImportFrom(module=absolute(via[0], kind[1]), names=[ast.alias(name=kind[2].name, asname=kind[2].asname)], level=0))
                log.append("%s: %s imported as in %s (read by code that moved here)" % (mn, nm, via[0]))
        for st in new_imports:
            st.lineno = st.end_lineno = 1
            st.col_offset = st.end_col_offset = 0
            ast.fix_missing_locations(st)
        tree.body[0:0] = new_imports
    return log


def _push_down_new_bases(modules: Dict[str, ast.Module]) -> List[str]:
    """A refactoring that moves code shared by sibling classes into a *new* base class or mixin (template method, hooks, class
    attributes as parameters) leaves the known classes without the methods the rules are anchored in.  Inheriting a method is
    the same as defining a copy of it: every method a known class inherits from a new class of the package is copied into the
    known class (zero-argument `super()` in the copy becomes `super(<the new base>, self)`, which means the same thing there).
    Hooks called on self in the copy then resolve against the known class, where the usual inlining writes them out."""
    from .known_names import KNOWN_CLASSES, KNOWN_NAMES
    log: List[str] = []
    class_defs: Dict[str, ast.ClassDef] = {}
    for m in modules.values():
        for n in m.body:
            if isinstance(n, ast.ClassDef):
                class_defs[n.name] = n

    def bases_of(c: ast.ClassDef) -> List[str]:
        out = []
        for b in c.bases:
            nm = b.id if isinstance(b, ast.Name) else (b.attr if isinstance(b, ast.Attribute) else None)
            if nm in class_defs:
                out.append(nm)
        return out

    def mro(cn: str, _depth=0) -> List[str]:
        # C3 over the package's own classes (foreign bases have no methods the rules look at)
        if _depth > 20:
            return [cn]
        seqs = [mro(b, _depth + 1) for b in bases_of(class_defs[cn])] + [list(bases_of(class_defs[cn]))]
        out = [cn]
        seqs = [list(x) for x in seqs if x]
        while seqs:
            for sq in seqs:
                cand = sq[0]
                if not any(cand in other[1:] for other in seqs):
                    break
            else:
                return out + [x for sq in seqs for x in sq if x not in out]       # inconsistent hierarchy: give up on order
            out.append(cand)
            seqs = [[x for x in sq if x != cand] for sq in seqs]
            seqs = [sq for sq in seqs if sq]
        return out

    new_bases = {bn for cn in class_defs for bn in mro(cn)[1:] if bn not in KNOWN_CLASSES}
    copied: Dict[str, Dict[str, Set[str]]] = {}      # new base -> method -> classes that received a copy
    has_new_methods = {bn for bn, b in class_defs.items() if bn in KNOWN_CLASSES and any(
        isinstance(n, ast.FunctionDef) and n.name not in KNOWN_NAMES and not (n.name.startswith("__") and n.name.endswith("__")) for n in b.body)}
    for cn, c in class_defs.items():
        if not (set(mro(cn)[1:]) & (new_bases | has_new_methods)):
            continue
        order = mro(cn)
        own = {n.name for n in c.body if isinstance(n, (ast.FunctionDef, ast.AsyncFunctionDef))}
        own_attrs = {t.id for n in c.body if isinstance(n, (ast.Assign, ast.AnnAssign)) for t in (n.targets if isinstance(n, ast.Assign) else [n.target])
                     if isinstance(t, ast.Name)}
        for bn in order[1:]:
            b = class_defs[bn]
            known_base = bn in KNOWN_CLASSES
            for n in b.body:
                # from a new base class: every method; from a known one: the methods that are new there (a shared helper moved up
                # into an existing mixin is inherited -- and overridden by siblings -- just the same)
                if known_base and not (isinstance(n, ast.FunctionDef) and n.name not in KNOWN_NAMES
                                       and not (n.name.startswith("__") and n.name.endswith("__"))):
                    continue
                if isinstance(n, ast.FunctionDef) and n.name not in own and n.args.args:
                    decos = [ast.unparse(d) for d in n.decorator_list]
                    if decos and decos != ["property"]:
                        continue
                    cp = copy.deepcopy(n)
                    sname = cp.args.args[0].arg
                    for x in ast.walk(cp):
                        if isinstance(x, ast.Call) and isinstance(x.func, ast.Name) and x.func.id == "super" and not x.args and not x.keywords:
                            x.args = [ast.Name(id=bn, ctx=ast.Load()), ast.Name(id=sname, ctx=ast.Load())]
                    ast.fix_missing_locations(cp)
                    cp._pushed_from = bn  # type: ignore
                    cp._origin = getattr(n, "_origin", id(n))  # type: ignore
                    c.body.append(cp)
                    own.add(n.name)
                    copied.setdefault(bn, {}).setdefault(n.name, set()).add(cn)
                    log.append("%s.%s: copied from the %s base class %s" % (cn, n.name, "known" if known_base else "new", bn))
            if known_base:
                # what a known class further up defines shadows everything behind it
                own |= {n.name for n in b.body if isinstance(n, (ast.FunctionDef, ast.AsyncFunctionDef))}
    # a new base class that the package never instantiates and that has subclasses is abstract: a method of it that every
    # subclass now defines itself (or gets from a class in between) and that nothing reaches through super() / by naming
    # the class is dead there -- analysing it on its own would judge hooks no object ever runs
    instantiated = {x.func.id for m in modules.values() for x in ast.walk(m) if isinstance(x, ast.Call) and isinstance(x.func, ast.Name)}
    for bn in sorted(new_bases):
        b = class_defs[bn]
        subs = [cn for cn in class_defs if cn != bn and bn in mro(cn)]
        if bn in instantiated or not subs:
            continue
        for n in list(b.body):
            if not isinstance(n, ast.FunctionDef):
                continue
            nm = n.name
            if nm.startswith("__") and nm.endswith("__") and nm in ("__init__", "__new__", "__init_subclass__"):
                continue
            # every subclass resolves nm to something other than b's definition
            def resolves_elsewhere(cn):
                for k in mro(cn):
                    if k == bn:
                        return False
                    if any(isinstance(x, ast.FunctionDef) and x.name == nm for x in class_defs[k].body):
                        return True
                return True
            if not all(resolves_elsewhere(cn) for cn in subs):
                continue
            reached = False
            for kn, k in class_defs.items():
                for x in ast.walk(k):
                    if isinstance(x, ast.Attribute) and x.attr == nm:
                        v = x.value
                        if isinstance(v, ast.Call) and isinstance(v.func, ast.Name) and v.func.id == "super" and bn in mro(kn)[1:]:
                            # super().nm inside a subclass of b; super(K, self).nm written by the copy step looks behind K
                            if not (len(v.args) == 2 and isinstance(v.args[0], ast.Name) and v.args[0].id in class_defs
                                    and (v.args[0].id == bn or bn not in mro(v.args[0].id))):
                                reached = True
            for m in modules.values():
                for x in ast.walk(m):
                    if isinstance(x, ast.Attribute) and x.attr == nm and isinstance(x.value, ast.Name) and x.value.id == bn:
                        reached = True
            # (the rewritten super(bn, self) in the copies looks *behind* bn: it does not reach bn's own definition)
            if reached:
                continue
            b.body.remove(n)
            log.append("%s.%s: dropped from the abstract new base (every subclass has its own copy)" % (bn, nm))
        if not b.body:
            b.body.append(ast.Pass())
    return log


def normalize_module_trees(modules: Dict[str, ast.Module]) -> List[str]:
    """Inline single-caller private helpers / closures in place. Returns a log of what was inlined."""
    log: List[str] = []
    _ORIG_SIZE.clear()
    _INLINED_DEFS.clear()
    log += _push_down_new_bases(modules)
    from .known_names import KNOWN_NAMES as _KN
    log += _adopt_recursive_delegates(modules, lambda nm: nm not in _KN)
    for m in modules.values():
        for n in ast.walk(m):
            if isinstance(n, (ast.FunctionDef, ast.AsyncFunctionDef)):
                _ORIG_SIZE[id(n)] = sum(1 for _ in ast.walk(n) if isinstance(_, ast.stmt))
    # ---- index definitions
    class_defs: Dict[str, ast.ClassDef] = {}
    for m in modules.values():
        for n in m.body:
            if isinstance(n, ast.ClassDef):
                class_defs[n.name] = n
    property_owner: Dict[str, List[str]] = {}
    stored_attrs: Set[str] = set()
    for m in modules.values():
        for n in ast.walk(m):
            if isinstance(n, ast.Attribute) and isinstance(n.ctx, (ast.Store, ast.Del)):
                stored_attrs.add(n.attr)
    for cn, c in class_defs.items():
        for n in c.body:
            if isinstance(n, ast.FunctionDef) and [ast.unparse(d_) for d_ in n.decorator_list] == ["property"]:
                property_owner.setdefault(n.name, []).append(cn)
    method_owner: Dict[str, List[str]] = {}
    for cn, c in class_defs.items():
        for n in c.body:
            if isinstance(n, (ast.FunctionDef, ast.AsyncFunctionDef)):
                method_owner.setdefault(n.name, []).append(cn)
    module_imports: Dict[str, Set[str]] = {}
    for mn, m in modules.items():
        names: Set[str] = set()
        for n in ast.walk(m):
            if isinstance(n, ast.ImportFrom):
                names |= {a.asname or a.name for a in n.names}
            elif isinstance(n, ast.Import):
                names |= {(a.asname or a.name).split(".")[0] for a in n.names}
        module_imports[mn] = names
    module_funcs: Dict[str, List[str]] = {}
    for mn, m in modules.items():
        for n in m.body:
            if isinstance(n, (ast.FunctionDef, ast.AsyncFunctionDef)):
                module_funcs.setdefault(n.name, []).append(mn)

    from .known_names import KNOWN_NAMES, KNOWN_CLASSES, KNOWN_TABLES

    def derives(sub: str, base: str, _seen=None) -> bool:
        """does class *sub* (by name) derive from *base* inside the package?"""
        _seen = _seen or set()
        if sub in _seen or sub not in class_defs:
            return False
        _seen.add(sub)
        for b in class_defs[sub].bases:
            bn = b.id if isinstance(b, ast.Name) else (b.attr if isinstance(b, ast.Attribute) else None)
            if bn == base or (bn and derives(bn, base, _seen)):
                return True
        return False

    def moved_global(name: str, here: str, there: str) -> bool:
        """a module-level constant read by code that was expanded in module *here* but lives in *there*: *here* binds no such name
        and *there* is the only module of the package that does"""
        def binds(mod):
            for n in modules[mod].body:
                if isinstance(n, (ast.Assign, ast.AnnAssign)) and any(isinstance(t, ast.Name) and t.id == name
                                                                      for t in (n.targets if isinstance(n, ast.Assign) else [n.target])):
                    return True
                if isinstance(n, (ast.FunctionDef, ast.ClassDef)) and n.name == name:
                    return True
            return False
        if name in module_imports.get(here, ()) or binds(here):
            return False
        return [m_ for m_ in modules if binds(m_)] == [there]

    def private(name: str) -> bool:
        """candidate for inlining: a private helper that is no rule anchor, or any function (public too) whose name did not
        exist when the rules were written"""
        if name.startswith("__") and name.endswith("__"):
            return False
        if name in KEEP:
            return False
        return name.startswith("_") or name not in KNOWN_NAMES

    for _pass in range(MAX_PASSES):
        any_change = False
        fl = _flatten_closure_factories(modules, lambda nm: nm not in KNOWN_NAMES and nm not in KEEP)
        if any("(0 call sites)" not in x for x in fl):
            any_change = True
        log += fl
        for mn, m in modules.items():
            for n in m.body:
                if isinstance(n, ast.FunctionDef) and mn not in module_funcs.get(n.name, []):
                    module_funcs.setdefault(n.name, []).append(mn)
        # ---- count callers of every candidate name (by function)
        callers: Dict[str, Set[int]] = {}
        all_fns = []
        for mn, m in modules.items():
            for n in ast.walk(m):
                if isinstance(n, (ast.FunctionDef, ast.AsyncFunctionDef)):
                    all_fns.append((mn, n))
        for mn, fn in all_fns:
            for c in ast.walk(fn):
                if isinstance(c, ast.Call):
                    f = c.func
                    nm = f.attr if isinstance(f, ast.Attribute) else (f.id if isinstance(f, ast.Name) else None)
                    if nm:
                        # attribute to the innermost enclosing function only
                        callers.setdefault(nm, set()).add(id(_innermost(fn, c)))
                elif isinstance(c, (ast.Attribute, ast.Name)) and not isinstance(getattr(c, "ctx", None), ast.Store):
                    pass
        # references that are not calls (passing the function around) disqualify
        non_call_refs: Set[str] = set()
        for mn, m in modules.items():
            call_funcs = {id(c.func) for c in ast.walk(m) if isinstance(c, ast.Call)}
            # entries of module- / class-level constant tables are not "passing the function around": the loops and lookups over
            # such tables are written out above, and inlining a direct call is valid whatever else refers to the function
            for holder in [m] + [c_ for c_ in m.body if isinstance(c_, ast.ClassDef)]:
                for st_ in holder.body:
                    if isinstance(st_, (ast.Assign, ast.AnnAssign)) and isinstance(getattr(st_, "value", None), (ast.Dict, ast.Tuple, ast.List)):
                        tnames = [t.id for t in (st_.targets if isinstance(st_, ast.Assign) else [st_.target]) if isinstance(t, ast.Name)]
                        if tnames and all(t not in KNOWN_TABLES for t in tnames):
                            call_funcs |= {id(x) for x in ast.walk(st_.value) if isinstance(x, (ast.Name, ast.Attribute))}
            for n in ast.walk(m):
                if isinstance(n, ast.Attribute) and id(n) not in call_funcs and isinstance(n.ctx, ast.Load):
                    non_call_refs.add(n.attr)
                if isinstance(n, ast.Name) and id(n) not in call_funcs and isinstance(n.ctx, ast.Load):
                    non_call_refs.add(n.id)

        for mn, m in modules.items():
            for cls in [None] + [n for n in m.body if isinstance(n, ast.ClassDef)]:
                fns = [n for n in (cls.body if cls is not None else m.body) if isinstance(n, (ast.FunctionDef, ast.AsyncFunctionDef))]
                for fn in fns:
                    closures = {n.name: n for n in fn.body if isinstance(n, (ast.FunctionDef,))} if True else {}
                    self_name = fn.args.args[0].arg if (cls is not None and fn.args.args and "staticmethod" not in [
                        ast.unparse(d) for d in fn.decorator_list]) else None

                    def resolve(call: ast.Call, fn=fn, cls=cls, closures=closures, self_name=self_name, mn=mn):
                        f = call.func
                        if isinstance(f, ast.Name):
                            nm = f.id
                            if nm in closures and _inlinable_def(closures[nm]) and nm not in non_call_refs \
                                    and not _calls(closures[nm], nm):
                                # a closure must not assign names of the enclosing scope it only reads -- fine: plain locals
                                return closures[nm], False, None
                            if private(nm) and module_funcs.get(nm) == [mn] and nm not in non_call_refs and nm not in closures:
                                d = [n for n in modules[mn].body if isinstance(n, ast.FunctionDef) and n.name == nm]
                                if d and d[0] is not fn and _inlinable_def(d[0]) and not _calls(d[0], nm):
                                    return d[0], False, None
                            # a new helper defined in another module of the package and imported by name
                            owners_m = module_funcs.get(nm) or []
                            if private(nm) and len(owners_m) == 1 and owners_m[0] != mn and nm not in non_call_refs and nm not in closures \
                                    and nm not in method_owner and (nm in module_imports.get(mn, ()) or moved_global(nm, mn, owners_m[0])):
                                d = [n for n in modules[owners_m[0]].body if isinstance(n, ast.FunctionDef) and n.name == nm]
                                if d and _inlinable_def(d[0]) and not _calls(d[0], nm):
                                    return d[0], False, None
                            return None
                        if isinstance(f, ast.Attribute) and isinstance(f.value, ast.Call) and isinstance(f.value.func, ast.Name) and f.value.func.id == "super" \
                                and cls is not None and self_name and not f.value.keywords and len(f.value.args) in (0, 2):
                            # super().<new helper>(...): the next definition behind this class (behind K for super(K, self))
                            nm = f.attr
                            if not private(nm) or nm in non_call_refs:
                                return None
                            start = cls.name
                            if f.value.args:
                                if not (isinstance(f.value.args[0], ast.Name) and f.value.args[0].id in class_defs):
                                    return None
                                start = f.value.args[0].id
                            if any(o != cls.name and derives(o, cls.name) for o in class_defs):
                                return None     # a subclass of this class changes what super() means for its instances
                            def lin(cn_, seen_=None):
                                seen_ = seen_ if seen_ is not None else []
                                if cn_ in seen_ or cn_ not in class_defs:
                                    return seen_
                                seen_.append(cn_)
                                for b_ in class_defs[cn_].bases:
                                    bn_ = b_.id if isinstance(b_, ast.Name) else (b_.attr if isinstance(b_, ast.Attribute) else None)
                                    if bn_:
                                        lin(bn_, seen_)
                                return seen_
                            order_ = lin(cls.name)
                            if start not in order_:
                                return None
                            for kn_ in order_[order_.index(start) + 1:]:
                                dd = [n for n in class_defs[kn_].body if isinstance(n, ast.FunctionDef) and n.name == nm]
                                if dd:
                                    if dd[0] is fn or not _inlinable_def(dd[0]) or _calls(dd[0], nm) or dd[0].decorator_list:
                                        return None
                                    return dd[0], True, ast.Name(id=self_name, ctx=ast.Load())
                            return None
                        if isinstance(f, ast.Attribute) and isinstance(f.value, ast.Name) and f.value.id in class_defs and f.value.id != self_name:
                            # a new helper method called through its class: Config._link_child(parent, child, ...) -- every
                            # parameter, the receiver included, is bound from the arguments
                            nm = f.attr
                            if not private(nm) or nm in non_call_refs:
                                return None
                            d = None
                            for kname in [f.value.id] + [o for o in (method_owner.get(nm) or []) if derives(f.value.id, o)]:
                                dd = [n for n in class_defs[kname].body if isinstance(n, ast.FunctionDef) and n.name == nm]
                                if dd:
                                    d = dd
                                    break
                            if not d or d[0] is fn or not _inlinable_def(d[0]) or _calls(d[0], nm):
                                return None
                            decos = [ast.unparse(x) for x in d[0].decorator_list]
                            if "classmethod" in decos or "property" in decos:
                                return None
                            return d[0], False, None
                        if isinstance(f, ast.Attribute) and _plain_chain(f.value) and not (
                                isinstance(f.value, ast.Name) and self_name and f.value.id == self_name and cls is not None):
                            # a new helper method called on another object (field._env_lookup()): unique definition in the package
                            nm = f.attr
                            if not private(nm) or nm in non_call_refs or nm in module_funcs:
                                return None
                            if nm in _BUILTIN_METHOD_NAMES:
                                return None     # `keys.add(k)` on a builtin set is not the `add` a new proxy class defines
                            owners = method_owner.get(nm) or []
                            alldefs = [n for o in owners for n in class_defs[o].body if isinstance(n, ast.FunctionDef) and n.name == nm]
                            # one definition -- copies of it made when methods were copied down into subclasses do not count
                            if len({getattr(n, "_origin", id(n)) for n in alldefs}) != 1:
                                return None
                            d = [n for n in alldefs if not hasattr(n, "_pushed_from")] or alldefs[:1]
                            if not d or d[0] is fn or not _inlinable_def(d[0]) or _calls(d[0], nm):
                                return None
                            decos = [ast.unparse(x) for x in d[0].decorator_list]
                            if "staticmethod" in decos:
                                return d[0], False, None
                            if "classmethod" in decos:
                                return None
                            if isinstance(f.value, ast.Name) and f.value.id in module_imports.get(mn, ()):     # module.function(...)
                                return None
                            return d[0], True, f.value
                        if isinstance(f, ast.Attribute) and isinstance(f.value, ast.Name) and self_name and f.value.id == self_name and cls is not None:
                            nm = f.attr
                            if not private(nm) or nm in non_call_refs:
                                return None
                            owners = method_owner.get(nm) or []
                            # the definition an instance of this class runs: the first one along the class's bases ...
                            def lin_(cn_, seen_=None):
                                seen_ = seen_ if seen_ is not None else []
                                if cn_ in seen_ or cn_ not in class_defs:
                                    return seen_
                                seen_.append(cn_)
                                for b_ in class_defs[cn_].bases:
                                    bn_ = b_.id if isinstance(b_, ast.Name) else (b_.attr if isinstance(b_, ast.Attribute) else None)
                                    if bn_:
                                        lin_(bn_, seen_)
                                return seen_
                            d = None
                            for kn_ in lin_(cls.name):
                                dd = [n for n in class_defs[kn_].body if isinstance(n, ast.FunctionDef) and n.name == nm]
                                if dd:
                                    d = dd
                                    break
                            if d is None:
                                # ... or, for a mixin that is not among the bases (duck-typed helper), the only one in the package
                                if len(owners) != 1:
                                    return None
                                d = [n for n in class_defs[owners[0]].body if isinstance(n, ast.FunctionDef) and n.name == nm]
                            # ... unless a subclass of this class overrides it (a copy of the same definition, made when methods
                            # of new bases were copied down, is no override)
                            org = getattr(d[0], "_origin", id(d[0])) if d else None
                            for o in owners:
                                if o != cls.name and derives(o, cls.name):
                                    od = [n for n in class_defs[o].body if isinstance(n, ast.FunctionDef) and n.name == nm]
                                    if od and getattr(od[0], "_origin", id(od[0])) != org:
                                        return None
                            if not d or d[0] is fn or not _inlinable_def(d[0]) or _calls(d[0], nm):
                                return None
                            if "staticmethod" in [ast.unparse(x) for x in d[0].decorator_list]:
                                return d[0], False, None
                            if "classmethod" in [ast.unparse(x) for x in d[0].decorator_list] and \
                                    "classmethod" not in [ast.unparse(x) for x in fn.decorator_list]:
                                return None     # self.helper() of a classmethod: the receiver becomes type(self)
                            return d[0], True, f.value
                        return None

                    def find_cm_func(call, mn=mn, cls=cls, self_name=self_name):
                        f = call.func
                        if isinstance(f, ast.Name) and private(f.id):
                            owners_m = module_funcs.get(f.id) or []
                            if len(owners_m) == 1 and f.id not in method_owner:
                                d = [n for n in modules[owners_m[0]].body if isinstance(n, ast.FunctionDef) and n.name == f.id]
                                if d and _is_contextmanager(d[0]):
                                    return d[0]
                        if isinstance(f, ast.Attribute) and isinstance(f.value, ast.Name) and self_name and f.value.id == self_name and private(f.attr):
                            owners = method_owner.get(f.attr) or []
                            if len(owners) == 1:
                                d = [n for n in class_defs[owners[0]].body if isinstance(n, ast.FunctionDef) and n.name == f.attr]
                                if d and _is_contextmanager(d[0]) and "staticmethod" in [ast.unparse(x) for x in d[0].decorator_list]:
                                    return d[0]
                        return None

                    def find_cm_class(call):
                        f = call.func
                        if isinstance(f, ast.Name) and f.id in class_defs and f.id not in KNOWN_CLASSES:
                            return class_defs[f.id]
                        return None
                    if _split_flag_ifexp(fn):
                        any_change = True
                        log.append("%s.%s: conditional expression on a flag split into branches" % (cls.name if cls else mn, fn.name))
                    if _split_attribute_tuple_assign(fn.body):
                        any_change = True
                        log.append("%s.%s: tuple assignment to attributes split" % (cls.name if cls else mn, fn.name))
                    if _hoist_walrus(fn.body):
                        any_change = True
                        log.append("%s.%s: assignment expression(s) hoisted" % (cls.name if cls else mn, fn.name))
                        ast.fix_missing_locations(fn)
                    nd_ = _rewrite_domain_getattr(fn, cls) + _rewrite_dict_attr(fn)
                    if nd_:
                        any_change = True
                        log.append("%s.%s: %d reflective lookup(s) over a closed domain written out" % (cls.name if cls else mn, fn.name, nd_))
                    ns_ = _split_handlers_by_isinstance(fn)
                    if ns_:
                        any_change = True
                        log.append("%s.%s: %d broad handler(s) split by isinstance" % (cls.name if cls else mn, fn.name, ns_))
                    if True:
                        nf = _rewrite_functional(fn)
                        if nf:
                            any_change = True
                            log.append("%s.%s: %d functional idiom(s) spelled out" % (cls.name if cls else mn, fn.name, nf))
                    def find_gen(call, mn=mn, cls=cls, self_name=self_name, fn=fn, closures=closures):
                        f = call.func
                        if isinstance(f, ast.Name) and f.id in closures and not call.args and not call.keywords and not closures[f.id].args.args \
                                and _is_simple_generator(closures[f.id]) and not _calls(closures[f.id], f.id):
                            # a generator closure without parameters, consumed where it is defined: its body reads the enclosing
                            # function's locals directly, so it unfolds in place (names it binds must not clash with the caller's)
                            gen_ = closures[f.id]
                            bound = _assigned_names(gen_)
                            outer = {n.id for n in ast.walk(fn) if isinstance(n, ast.Name) and isinstance(n.ctx, ast.Store)
                                     and not any(n in ast.walk(gen_) for _ in [0])}
                            return gen_, False, None
                        if isinstance(f, ast.Name) and private(f.id):
                            owners_m = module_funcs.get(f.id) or []
                            if len(owners_m) == 1 and f.id not in method_owner and (owners_m[0] == mn or f.id in module_imports.get(mn, ())):
                                d = [n for n in modules[owners_m[0]].body if isinstance(n, ast.FunctionDef) and n.name == f.id]
                                if d and d[0] is not fn and _is_simple_generator(d[0]) and not _calls(d[0], f.id):
                                    return d[0], False, None
                        if isinstance(f, ast.Attribute) and _plain_chain(f.value) and private(f.attr):
                            owners = method_owner.get(f.attr) or []
                            if cls is not None and cls.name in owners and isinstance(f.value, ast.Name) and f.value.id == self_name:
                                owners = [cls.name]
                            if len(owners) == 1 and f.attr not in module_funcs:
                                d = [n for n in class_defs[owners[0]].body if isinstance(n, ast.FunctionDef) and n.name == f.attr]
                                if d and d[0] is not fn and _is_simple_generator(d[0]) and not _calls(d[0], f.attr):
                                    return d[0], True, f.value
                        return None
                    def table_of(it, mn=mn, fn=fn, cls=cls):
                        """rows of a constant table display the loop iterates over, or None"""
                        disp = None
                        if isinstance(it, (ast.Tuple, ast.List)):
                            disp = it
                        elif isinstance(it, ast.Name):
                            # a local bound exactly once to a display, else a module-level constant of this (or an imported) module
                            local = [n for n in ast.walk(fn) if isinstance(n, (ast.Assign, ast.AnnAssign)) and any(
                                isinstance(t, ast.Name) and t.id == it.id for t in (n.targets if isinstance(n, ast.Assign) else [n.target]))]
                            stores = [n for n in ast.walk(fn) if isinstance(n, ast.Name) and n.id == it.id and isinstance(n.ctx, ast.Store)]
                            if len(local) == 1 and len(stores) == 1 and isinstance(local[0].value, (ast.Tuple, ast.List)):
                                disp = local[0].value
                            elif not stores and it.id not in [a.arg for a in fn.args.args + fn.args.kwonlyargs]:
                                for m2n, m2 in modules.items():
                                    if m2n != mn and it.id not in module_imports.get(mn, ()) and not moved_global(it.id, mn, m2n):
                                        continue
                                    for n in m2.body:
                                        if isinstance(n, (ast.Assign, ast.AnnAssign)) and n.value is not None and any(
                                                isinstance(t, ast.Name) and t.id == it.id for t in (n.targets if isinstance(n, ast.Assign) else [n.target])):
                                            if isinstance(n.value, (ast.Tuple, ast.List)) and it.id not in KNOWN_TABLES:
                                                disp = n.value
                        elif isinstance(it, ast.Attribute) and isinstance(it.value, ast.Name) and cls is not None and it.value.id in ("self", "cls", cls.name):
                            for n in cls.body:
                                if isinstance(n, (ast.Assign, ast.AnnAssign)) and n.value is not None and any(
                                        isinstance(t, ast.Name) and t.id == it.attr for t in (n.targets if isinstance(n, ast.Assign) else [n.target])):
                                    if isinstance(n.value, (ast.Tuple, ast.List)) and it.attr not in KNOWN_TABLES:
                                        disp = n.value
                        if disp is None or any(isinstance(e, ast.Starred) for e in disp.elts):
                            return None
                        return list(disp.elts)
                    def dict_of(e, mn=mn, fn=fn, cls=cls):
                        """(key, value) rows of a constant dict display the expression denotes, or None"""
                        disp = None
                        if isinstance(e, ast.Dict):
                            disp = e
                        elif isinstance(e, ast.Name):
                            local = [n for n in ast.walk(fn) if isinstance(n, (ast.Assign, ast.AnnAssign)) and any(
                                isinstance(t, ast.Name) and t.id == e.id for t in (n.targets if isinstance(n, ast.Assign) else [n.target]))]
                            stores_ = [n for n in ast.walk(fn) if isinstance(n, ast.Name) and n.id == e.id and isinstance(n.ctx, ast.Store)]
                            mutated = any(isinstance(n, ast.Subscript) and isinstance(n.ctx, (ast.Store, ast.Del)) and isinstance(n.value, ast.Name) and n.value.id == e.id
                                          for n in ast.walk(fn))
                            if len(local) == 1 and len(stores_) == 1 and isinstance(local[0].value, ast.Dict) and not mutated:
                                disp = local[0].value
                            elif not stores_ and e.id not in [a.arg for a in fn.args.args + fn.args.kwonlyargs] and e.id not in KNOWN_TABLES:
                                for m2n, m2 in modules.items():
                                    if m2n != mn and e.id not in module_imports.get(mn, ()) and not moved_global(e.id, mn, m2n):
                                        continue
                                    for n in m2.body:
                                        if isinstance(n, (ast.Assign, ast.AnnAssign)) and n.value is not None and isinstance(n.value, ast.Dict) and any(
                                                isinstance(t, ast.Name) and t.id == e.id for t in (n.targets if isinstance(n, ast.Assign) else [n.target])):
                                            disp = n.value
                        elif isinstance(e, ast.Attribute) and isinstance(e.value, ast.Name) and cls is not None and e.value.id in ("self", "cls", cls.name) \
                                and e.attr not in KNOWN_TABLES:
                            for n in cls.body:
                                if isinstance(n, (ast.Assign, ast.AnnAssign)) and n.value is not None and isinstance(n.value, ast.Dict) and any(
                                        isinstance(t, ast.Name) and t.id == e.attr for t in (n.targets if isinstance(n, ast.Assign) else [n.target])):
                                    disp = n.value
                        if disp is None or not disp.keys or len(disp.keys) > MAX_UNROLL or any(k is None or not isinstance(k, ast.Constant) for k in disp.keys):
                            return None
                        return list(zip(disp.keys, disp.values))
                    nf2 = _rewrite_functional(fn, table_of)
                    if nf2:
                        any_change = True
                        log.append("%s.%s: %d idiom(s) over a new constant table spelled out" % (cls.name if cls else mn, fn.name, nf2))
                        ast.fix_missing_locations(fn)
                    if _rewrite_dict_dispatch(fn, dict_of):
                        any_change = True
                        log.append("%s.%s: dispatch through a constant dict written out" % (cls.name if cls else mn, fn.name))
                        ast.fix_missing_locations(fn)
                    def wants_stmt(call, resolve=resolve, find_gen=find_gen):
                        r_ = resolve(call)
                        if r_ is not None and _single_return_expr(r_[0]) is None:
                            return True
                        return find_gen(call) is not None
                    if _unfold_comprehensions(fn.body, wants_stmt):
                        any_change = True
                        log.append("%s.%s: comprehension over a new helper / generator written as a loop" % (cls.name if cls else mn, fn.name))
                        ast.fix_missing_locations(fn)
                    if _fuse_generator_loops(fn):
                        any_change = True
                        log.append("%s.%s: for-over-generator-expression fused" % (cls.name if cls else mn, fn.name))
                        ast.fix_missing_locations(fn)
                    if _unroll_table_loops(fn.body, table_of):
                        any_change = True
                        log.append("%s.%s: loop over a constant table unrolled" % (cls.name if cls else mn, fn.name))
                        ast.fix_missing_locations(fn)
                    if _rewrite_generator_loops(fn.body, find_gen):
                        any_change = True
                        log.append("%s.%s: new generator(s) unfolded into the consuming loop" % (cls.name if cls else mn, fn.name))
                        ast.fix_missing_locations(fn)
                        # a closure that is no longer referenced is dropped
                        for cdef in [n for n in fn.body if isinstance(n, ast.FunctionDef)]:
                            inside = {id(x) for x in ast.walk(cdef)}
                            if not any(isinstance(x, ast.Name) and x.id == cdef.name and id(x) not in inside for x in ast.walk(fn)):
                                fn.body.remove(cdef)
                    if _rewrite_withs(fn.body, find_cm_func, find_cm_class):
                        any_change = True
                        log.append("%s.%s: expanded new context manager(s)" % (cls.name if cls else mn, fn.name))
                        ast.fix_missing_locations(fn)

                    def resolve_prop(attr_node, fn=fn, cls=cls, self_name=self_name):
                        nm = attr_node.attr
                        if not private(nm) or nm in module_funcs:
                            return None
                        owners = property_owner.get(nm) or []
                        if len(owners) != 1 or (method_owner.get(nm) or []) != owners:
                            return None
                        # no assignment to an attribute of that name anywhere (a property without setter is never stored to)
                        if nm in stored_attrs:
                            return None
                        d = [n for n in class_defs[owners[0]].body if isinstance(n, ast.FunctionDef) and n.name == nm]
                        if len(d) != 1 or d[0] is fn or any(isinstance(x, ast.Attribute) and x.attr == nm for x in ast.walk(d[0])):
                            return None
                        return d[0]
                    pi = _PropertyInliner(resolve_prop)
                    for st in fn.body:
                        if not isinstance(st, (ast.FunctionDef, ast.AsyncFunctionDef)):
                            pi.visit(st)
                    if pi.count:
                        any_change = True
                        log.append("%s.%s: %d read(s) of a new single-expression property written out" % (cls.name if cls else mn, fn.name, pi.count))
                        ast.fix_missing_locations(fn)
                    before = _Counter.n
                    ei = _ExprInliner(resolve, find_gen)
                    for st in fn.body:
                        if not (isinstance(st, (ast.FunctionDef, ast.AsyncFunctionDef)) and st.name in closures):
                            ei.visit(st)
                    if ei.count:
                        any_change = True
                        log.append("%s.%s: substituted %d single-expression helper call(s)" % (cls.name if cls else mn, fn.name, ei.count))
                        ast.fix_missing_locations(fn)
                    if _inline_in_body(fn.body, resolve):
                        any_change = True
                        log.append("%s.%s: inlined %d helper call(s)" % (cls.name if cls else mn, fn.name, _Counter.n - before))
                        ast.fix_missing_locations(fn)
        if not any_change:
            break
    # ---- drop definitions that are no longer referenced (all their calls were inlined)
    if log:
        referenced: Set[str] = set()
        for m in modules.values():
            for n in ast.walk(m):
                if isinstance(n, ast.Attribute):
                    referenced.add(n.attr)
                elif isinstance(n, ast.Name):
                    referenced.add(n.id)

        exported: Set[str] = set()
        for mn_, m_ in modules.items():
            is_init = any(o.startswith(mn_ + ".") for o in modules)
            for n_ in ast.walk(m_):
                if is_init and isinstance(n_, ast.ImportFrom):
                    exported |= {a_.asname or a_.name for a_ in n_.names}
                if isinstance(n_, (ast.Assign, ast.AugAssign)) and any(isinstance(t_, ast.Name) and t_.id == "__all__"
                                                                       for t_ in (n_.targets if isinstance(n_, ast.Assign) else [n_.target])):
                    exported |= {c_.value for c_ in ast.walk(n_.value) if isinstance(c_, ast.Constant) and isinstance(c_.value, str)}

        def prune(body, is_closure_scope):
            for st in list(body):
                if isinstance(st, (ast.FunctionDef, ast.AsyncFunctionDef)):
                    # (a new public name that the package exports -- imported by an __init__, listed in __all__ -- stays an entry point)
                    cand = is_closure_scope or (private(st.name) and (st.name.startswith("_") or st.name not in exported))
                    # (a definition that was expanded earlier may have outgrown the size limit through its own inlined calls)
                    # -- and only one that *was* expanded somewhere: a new public function nobody in the package calls (a new
                    # support helper exported from __init__) is an entry point, not dead code
                    if cand and st.name not in referenced and st.name not in KEEP and (
                            id(st) in _INLINED_DEFS or getattr(st, "_origin", None) in _INLINED_DEFS):
                        body.remove(st)
                        log.append("removed fully inlined definition %s" % st.name)
                        continue
                    prune(st.body, True)
                elif isinstance(st, ast.ClassDef):
                    prune(st.body, False)
        for m in modules.values():
            prune(m.body, False)
        log += _import_foreign_globals(modules)
    return log


def _innermost(fn, node):
    """the innermost function definition of `fn`'s subtree that contains node"""
    best = fn
    for n in ast.walk(fn):
        if isinstance(n, (ast.FunctionDef, ast.AsyncFunctionDef, ast.Lambda)) and n is not fn:
            if any(x is node for x in ast.walk(n)):
                best = n
    return best


def _calls(fn, name: str) -> bool:
    """does fn call something named *name* that can be itself?  (a bare call, or a method call on a plain name / attribute
    chain; `b64encode(data).decode()` -- a method of a call result -- is not the package's `decode`)"""
    for c in ast.walk(fn):
        if isinstance(c, ast.Call):
            f = c.func
            if isinstance(f, ast.Name) and f.id == name:
                return True
            if isinstance(f, ast.Attribute) and f.attr == name and _plain_chain(f.value) and not (
                    name in ("encode", "decode", "strip", "lower", "upper", "format", "get", "items", "keys", "values", "copy", "update")
                    and not (isinstance(f.value, ast.Name) and fn.args.args and f.value.id == fn.args.args[0].arg)):
                return True
    return False
