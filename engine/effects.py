"""
Interprocedural layer: implicit calls (properties, __setattr__, __setitem__, context managers),
the may-raise oracle with its tables of external functions, typed exception escape analysis,
access paths and event summaries.
"""
from __future__ import annotations

import ast
from typing import Callable, Dict, FrozenSet, Iterable, List, Optional, Set, Tuple

from .cfg import CFG, Node, build_cfg
from .defuse import reaching_defs, value_sources
from .model import AnalysisError, ClassInfo, FunctionInfo, Model
from .types import ANY, NONE, FnTypes, Target, Types

# ---------------------------------------------------------------------------------------------
# tables (one line of reason each)
# ---------------------------------------------------------------------------------------------
EXC = "Exception"

#: externals that do not raise for the operands the package gives them (A3/A4)
NONRAISING_EXT = {
    "builtins.isinstance", "builtins.issubclass", "builtins.len", "builtins.str", "builtins.repr",
    "builtins.callable", "builtins.type", "builtins.vars", "builtins.bool", "builtins.list",
    "builtins.dict", "builtins.set", "builtins.tuple", "builtins.bytes", "builtins.bytearray",
    "builtins.range", "builtins.zip", "builtins.enumerate", "builtins.reversed", "builtins.all",
    "builtins.any", "builtins.getattr", "builtins.super", "builtins.print", "builtins.OrderedDict",
    "builtins.ValueError", "builtins.TypeError", "builtins.AttributeError", "builtins.KeyError",
    "builtins.NotImplementedError", "builtins.Exception", "builtins.OSError", "builtins.sorted",
    "builtins.min", "builtins.max", "builtins.hash", "builtins.id", "builtins.frozenset",
    "builtins.hasattr", "builtins.iter", "builtins.object", "object.__setattr__",
    "collections.OrderedDict",
    "os.path.expanduser", "os.path.join", "os.path.abspath", "os.path.exists", "os.path.isabs",
    "os.path.isdir", "os.path.isfile", "os.path.dirname", "os.path.basename",
    "os.environ.get", "os.getenv", "os.urandom", "secrets.token_bytes", "hmac.compare_digest", "warnings.warn", "base64.b64encode",
    "functools.partial", "functools.wraps", "itertools.cycle", "inspect.isclass",
    "cryptography.hazmat.backends.default_backend",
    "cryptography.hazmat.primitives.ciphers.Cipher",
    "cryptography.hazmat.primitives.ciphers.modes.CBC",
    "cryptography.hazmat.primitives.padding.PKCS7",
    "xml.etree.ElementTree.Element", "xml.etree.ElementTree.tostring",
    "argparse.ArgumentParser", "ArgumentParser.add_argument", "sys._getframe",
    "?.decryptor", "?.encryptor", "?.padder", "?.unpadder", "?.digest", "?.match", "?.search",
    "?.toprettyxml", "?.append", "?.items", "?.get", "?.lower", "?.upper", "?.startswith",
    "?.encode", "?.values", "?.keys", "?.copy", "?.strip", "?.hexdigest", "dict.get",
    "dict.items", "?.extend", "?.add", "?.discard", "?.setdefault", "?.endswith", "?.join",
    "?.split", "?.format", "?.replace", "?.insert", "?.clear",
    "?.debug", "?.info", "?.warning", "?.error", "?.exception", "?.critical", "?.log", "logging.getLogger", "logging.debug",
    "logging.info", "logging.warning", "logging.error", "logging.exception", "logging.critical", "logging.log",
    "hashlib.md5", "hashlib.sha1", "hashlib.sha224", "hashlib.sha256", "hashlib.sha384",
    "hashlib.sha512", "hashlib.new", "binascii.hexlify", "?.hex",
}

#: externals that may raise, with the exception types they raise (documented behaviour)
RAISING_EXT: Dict[str, Tuple[str, ...]] = {
    "builtins.open": ("OSError",),
    "builtins.int": ("ValueError", "TypeError"),
    "builtins.float": ("ValueError", "TypeError"),
    "type()": ("ValueError", "TypeError"),       # calling a class held in a variable (type_cls)
    "base64.b64decode": ("binascii.Error", "TypeError"),
    "bytes.fromhex": ("ValueError", "TypeError"),
    "builtins.bytes.fromhex": ("ValueError", "TypeError"),
    "binascii.unhexlify": ("binascii.Error", "TypeError"),
    "ipaddress.IPv4Address": ("ValueError",),
    "ipaddress.IPv4Network": ("ValueError",),
    "json.loads": ("ValueError", "TypeError"),
    "json.dumps": ("TypeError", "ValueError"),
    "pickle.loads": (EXC,), "pickle.dumps": (EXC,),
    "yaml.load": (EXC,), "yaml.dump": (EXC,), "yaml.safe_load": (EXC,), "yaml.safe_dump": (EXC,),
    "bson.loads": (EXC,), "bson.dumps": (EXC,),
    "xml.etree.ElementTree.fromstring": (EXC,),
    "xml.dom.minidom.parseString": (EXC,),
    "socket.gethostbyname": ("OSError",),
    "urllib.parse.urlparse": ("ValueError",),
    "inspect.getfullargspec": ("TypeError",),
    "re.compile": (EXC,),
    "cryptography.hazmat.primitives.ciphers.algorithms.AES": ("ValueError", "TypeError"),
    "?.finalize": ("ValueError",),
    "?.update": ("TypeError",),
    "?.index": ("ValueError",),
    "?.pop": ("KeyError", "IndexError"),
    "?.remove": ("ValueError", "KeyError"),
    "?.decode": ("UnicodeDecodeError",),
    "?.read": ("OSError",), "?.write": ("OSError",), "?.write_bytes": ("OSError",), "?.write_text": ("OSError",),
    "?.read_bytes": ("OSError",), "?.read_text": ("OSError",),
    "?.__getitem__": (EXC,), "?.__setitem__": (EXC,), "?.__delitem__": (EXC,),
    "os.makedirs": ("OSError",), "os.remove": ("OSError",), "os.rename": ("OSError",),
    "os.replace": ("OSError",), "os.unlink": ("OSError",), "os.stat": ("OSError",),
    "os.chmod": ("OSError",), "os.open": ("OSError",), "os.fsync": ("OSError",),
    "os.write": ("OSError",), "os.close": ("OSError",), "os.fdopen": ("OSError",),
    "tempfile.mkstemp": ("OSError",), "tempfile.NamedTemporaryFile": ("OSError",),
    "shutil.move": ("OSError",), "shutil.copy": ("OSError",), "shutil.copyfile": ("OSError",),
}

#: methods of builtin values that may raise (everything else on builtin values: A3, does not)
RAISING_BUILTIN_METHODS: Dict[str, Tuple[str, ...]] = {
    "list.index": ("ValueError",), "list.pop": ("IndexError",), "list.remove": ("ValueError",),
    "dict.pop": ("KeyError",), "dict.popitem": ("KeyError",), "dict.__getitem__": ("KeyError",),
    "list.__getitem__": ("IndexError",),
    "list.__delitem__": ("IndexError",), "dict.__delitem__": ("KeyError",),
    "bytes.decode": ("UnicodeDecodeError",), "file.read": ("OSError",), "file.write": ("OSError",),
    "tuple.index": ("ValueError",), "str.index": ("ValueError",), "str.format": ("KeyError", "IndexError"),
    "set.remove": ("KeyError",), "set.pop": ("KeyError",),
}

def _format_arity_ok(call: ast.AST) -> bool:
    """'...{}...{}'.format(a, b): a constant template whose fields are all plain `{}` (or `{0}`-style within range / names
    given as keywords) cannot raise KeyError / IndexError"""
    import string
    if not (isinstance(call, ast.Call) and isinstance(call.func, ast.Attribute) and isinstance(call.func.value, ast.Constant)
            and isinstance(call.func.value.value, str)):
        return False
    if any(isinstance(a, ast.Starred) for a in call.args) or any(k.arg is None for k in call.keywords):
        return False
    try:
        fields = [f for _, f, _, _ in string.Formatter().parse(call.func.value.value) if f is not None]
    except ValueError:
        return False
    auto = 0
    kw = {k.arg for k in call.keywords}
    for f in fields:
        head = f.split(".")[0].split("[")[0]
        if head == "":
            auto += 1
            if auto > len(call.args):
                return False
        elif head.isdigit():
            if int(head) >= len(call.args):
                return False
        elif head not in kw:
            return False
    return True


# ---------------------------------------------------------------------------------------------

AP = Tuple[object, Tuple[str, ...]]     # (root, path)
UNKNOWN_AP: AP = ("unknown", ())
MAX_PATH = 3


def ap_str(ap: Optional[AP]) -> str:
    if ap is None:
        return "-"
    root, path = ap
    if isinstance(root, tuple):
        r = "%s:%s" % root
    else:
        r = str(root)
    return ".".join([r] + list(path))


class Analysis:
    def __init__(self, model: Model):
        self.model = model
        self.types = Types(model)
        self._targets_cache: Dict[Tuple[int, int], List[Target]] = {}
        self._may_raise_fn: Optional[Dict[int, bool]] = None
        self._escapes: Optional[Dict[int, FrozenSet[Tuple[str, str]]]] = None
        self._summaries: Dict[object, "EventSummary"] = {}
        self.unclassified_ext: Set[str] = set()
        self._callers: Optional[Dict[int, List[Tuple[FunctionInfo, Node]]]] = None

    # ----------------------------------------------------------------- helpers
    def ft(self, fn: FunctionInfo) -> FnTypes:
        return self.types.of(fn)

    def cfg(self, fn: FunctionInfo) -> CFG:
        return build_cfg(fn)

    def fns(self) -> List[FunctionInfo]:
        return self.model.functions

    # ----------------------------------------------------------------- call targets
    def targets(self, fn: FunctionInfo, node: Node) -> List[Target]:
        """Everything *node* may invoke: explicit calls and implicit protocol calls."""
        key = (id(fn), node.id)
        r = self._targets_cache.get(key)
        if r is None:
            r = self._targets(fn, node)
            self._targets_cache[key] = r
        return r

    def _targets(self, fn, node) -> List[Target]:
        ft = self.ft(fn)
        env = ft.env_in.get(node) or {}
        k = node.kind
        if k == "call":
            tg = ft.resolve_call(node.ast, env)
            out = []
            for t in tg:
                if t.kind == "ext" and t.name == "builtins.object":
                    t = Target("ext", name="type()")
                out.append(t)
            return out
        if k == "attr":
            return [Target("fn", fn=f, via="property") for f in ft.property_targets(node.ast, env)]
        if k == "assign":
            st = node.ast
            out: List[Target] = []
            tgts = []
            if isinstance(st, ast.Assign):
                tgts = list(st.targets)
            elif isinstance(st, (ast.AnnAssign, ast.AugAssign, ast.NamedExpr)):
                tgts = [st.target]
            flat = []
            for t in tgts:
                if isinstance(t, (ast.Tuple, ast.List)):
                    flat.extend(t.elts)
                else:
                    flat.append(t)
            for t in flat:
                if isinstance(t, ast.Attribute):
                    for f in ft.setter_targets(t, env):
                        out.append(Target("fn", fn=f, via="setattr"))
                elif isinstance(t, ast.Subscript):
                    bt = ft.type_of(t.value, env)
                    out.extend(self.dunder_on(ft, bt, "__setitem__"))
                if isinstance(st, ast.AugAssign) and isinstance(t, (ast.Name, ast.Attribute)):
                    bt = ft.type_of(t, env)
                    op = {"Add": "__iadd__", "BitOr": "__ior__", "Mult": "__imul__",
                          "Sub": "__isub__", "BitAnd": "__iand__"}.get(type(st.op).__name__)
                    if op:
                        out.extend(self.dunder_on(ft, bt, op, builtin_ok=False))
            return out
        if k == "subscript":
            bt = ft.type_of(node.ast.value, env)
            return self.dunder_on(ft, bt, "__getitem__")
        if k == "delete":
            out = []
            for t in node.ast.targets:
                if isinstance(t, ast.Subscript):
                    out.extend(self.dunder_on(ft, ft.type_of(t.value, env), "__delitem__"))
            return out
        if k in ("with_enter", "with_exit"):
            bt = ft.type_of(node.ast.context_expr, env)
            return self.dunder_on(ft, bt, "__enter__" if k == "with_enter" else "__exit__",
                                  builtin_ok=False)
        if k == "for_iter":
            it = node.ast.iter
            bt = ft.type_of(it, env)
            return self.dunder_on(ft, bt, "__iter__", builtin_ok=False)
        return []

    def dunder_on(self, ft: FnTypes, bt, name: str, builtin_ok=True) -> List[Target]:
        out: List[Target] = []
        if bt == ANY:
            return out
        for a in bt:
            if isinstance(a, str) and a in self.model.classes:
                fs = self.types.cha(a, name)
                out.extend(Target("fn", fn=f, via="dunder") for f in fs)
                if not fs and builtin_ok:
                    for b in self.model.classes[a].builtin_bases():
                        if b in ("list", "dict"):
                            out.append(Target("builtin_method", name="%s.%s" % (b, name), cls=b))
                            break
            elif isinstance(a, tuple) and a[0] in ("dict", "list") and builtin_ok:
                out.append(Target("builtin_method", name="%s.%s" % (a[0], name), cls=a[0]))
        return out

    def callees(self, fn: FunctionInfo, node: Node) -> List[FunctionInfo]:
        """Package functions *node* may invoke (constructors -> __init__)."""
        out = []
        for t in self.targets(fn, node):
            if t.kind in ("fn", "ctor") and t.fn is not None and t.fn not in out:
                out.append(t.fn)
        return out

    def callers(self, callee: FunctionInfo) -> List[Tuple[FunctionInfo, Node]]:
        if self._callers is None:
            idx: Dict[int, List[Tuple[FunctionInfo, Node]]] = {}
            for f in self.fns():
                for n in self.cfg(f).nodes:
                    for g in self.callees(f, n):
                        idx.setdefault(id(g), []).append((f, n))
            self._callers = idx
        return self._callers.get(id(callee), [])

    def reachable_fns(self, entries: Iterable[FunctionInfo]) -> List[FunctionInfo]:
        seen: List[FunctionInfo] = []
        todo = list(entries)
        while todo:
            f = todo.pop()
            if f in seen:
                continue
            seen.append(f)
            for n in self.cfg(f).nodes:
                for g in self.callees(f, n):
                    if g not in seen:
                        todo.append(g)
        return seen

    # ----------------------------------------------------------------- may raise
    def node_raise_types(self, fn: FunctionInfo, node: Node) -> Tuple[str, ...]:
        """Exception types *node* itself may raise (not through package callees)."""
        k = node.kind
        if k == "raise":
            return self.raise_stmt_types(fn, node)
        if k == "reraise":
            return (EXC,)
        if k == "subscript" and not isinstance(node.ast.slice, ast.Slice) and self._own_local_sequence(fn, node):
            return ()
        out: List[str] = []
        for t in self.targets(fn, node):
            if t.kind == "ext":
                if t.name in NONRAISING_EXT:
                    continue
                if t.name in RAISING_EXT:
                    out.extend(RAISING_EXT[t.name])
                else:
                    base = t.name
                    if base.startswith("builtins.") and base[9:] in ("ValueError", "TypeError"):
                        continue
                    self.unclassified_ext.add(t.name)
                    out.append(EXC)
            elif t.kind == "builtin_method":
                if t.name == "str.format" and _format_arity_ok(node.ast):
                    continue        # literal template, plain `{}` fields, matching number of arguments
                out.extend(RAISING_BUILTIN_METHODS.get(t.name, ()))
            elif t.kind == "user":
                out.append(EXC)
            elif t.kind == "unknown":
                out.append(EXC)
            elif t.kind == "ctor" and t.fn is None:
                pass
        if k == "subscript":
            ft = self.ft(fn)
            bt = ft.type_of(node.ast.value, ft.env_in.get(node) or {})
            if isinstance(node.ast.slice, ast.Slice):
                pass
            elif self._own_local_sequence(fn, node):
                pass        # a constant index into a list / tuple the function itself built (its own bookkeeping, not input)
            elif bt == ANY:
                out.extend(("KeyError", "IndexError", "TypeError"))
            else:
                for a in bt:
                    if isinstance(a, tuple) and a[0] == "dict":
                        out.append("KeyError")
                    elif isinstance(a, tuple) and a[0] in ("list", "tuple"):
                        out.append("IndexError")
                    elif a in ("str", "bytes"):
                        out.append("IndexError")
        if k == "delete":
            out.append("KeyError")
        return tuple(dict.fromkeys(out))

    def _own_local_sequence(self, fn: FunctionInfo, node: Node) -> bool:
        """`acc[0]` where acc is a local bound only to list / tuple displays or comprehensions in this function and the index is
        a small constant: the length is the function's own doing, an IndexError is not something its caller's input causes"""
        sub = node.ast
        if not (isinstance(sub.value, ast.Name) and isinstance(sub.slice, ast.Constant) and isinstance(sub.slice.value, int) and 0 <= sub.slice.value < 8):
            return False
        from .defuse import value_sources
        srcs = value_sources(fn, sub.value, node)
        return bool(srcs) and all(k == "expr" and isinstance(p, (ast.List, ast.Tuple, ast.ListComp)) for k, p in srcs)

    def raise_stmt_types(self, fn: FunctionInfo, node: Node) -> Tuple[str, ...]:
        st = node.ast
        if isinstance(st, ast.Assert):
            return ("AssertionError",)
        if st.exc is None:
            return ("<reraise>",)
        e = st.exc
        if isinstance(e, ast.Call):
            e = e.func
        ft = self.ft(fn)
        if isinstance(e, ast.Name) and isinstance(st.exc, ast.Name):
            # raise <variable>: its inferred type
            t = ft.type_of(st.exc, ft.env_in.get(node) or {})
            if t != ANY:
                names = [a for a in t if isinstance(a, str)]
                tnames = [a[1] for a in t if isinstance(a, tuple) and a[0] == "type"]
                if names or tnames:
                    return tuple(names + tnames)
        r = self.model.resolve_expr_static(fn.module, e)
        if r is not None:
            if r[0] == "class":
                return (r[1].name,)
            if r[0] == "builtin":
                return (r[1],)
            if r[0] == "ext":
                return (r[1],)
        return (EXC,)

    def may_raise_fn(self, fn: FunctionInfo) -> bool:
        if self._may_raise_fn is None:
            self._solve_may_raise()
        return self._may_raise_fn.get(id(fn), True)

    def _solve_may_raise(self):
        mr: Dict[int, bool] = {id(f): False for f in self.fns()}
        self._may_raise_fn = mr
        changed = True
        rounds = 0
        while changed:
            changed = False
            rounds += 1
            if rounds > 100:
                raise AnalysisError("may-raise fix-point does not converge")
            for f in self.fns():
                if mr[id(f)]:
                    continue
                g = self.cfg(f)
                reach = g.reachable([g.entry], may_raise=lambda n, f=f: self.node_may_raise(f, n))
                if g.raise_exit in reach:
                    mr[id(f)] = True
                    changed = True

    def node_may_raise(self, fn: FunctionInfo, node: Node) -> bool:
        if node.exc is None:
            return False
        if node.kind in ("raise", "reraise"):
            return True
        if self.node_raise_types(fn, node):
            return True
        for g in self.callees(fn, node):
            if self.may_raise_fn(g):
                return True
        return False

    # ----------------------------------------------------------------- typed escapes
    def is_sub_exc(self, a: str, b: str) -> bool:
        if a == b:
            return True
        if b in ("Exception", "BaseException"):
            return True
        return self.types.is_sub(a, b)

    def escapes(self, fn: FunctionInfo) -> FrozenSet[Tuple[str, str]]:
        """(exception type, origin function qualname) pairs that can leave *fn*."""
        if self._escapes is None:
            self._solve_escapes()
        return self._escapes.get(id(fn), frozenset())

    def _solve_escapes(self):
        esc: Dict[int, FrozenSet[Tuple[str, str]]] = {id(f): frozenset() for f in self.fns()}
        self._escapes = esc
        changed = True
        rounds = 0
        while changed:
            changed = False
            rounds += 1
            if rounds > 100:
                raise AnalysisError("escape fix-point does not converge")
            for f in self.fns():
                new = self.escapes_in(f)["exit"]
                if new != esc[id(f)]:
                    esc[id(f)] = esc[id(f)] | new
                    changed = True

    def raised_at(self, fn: FunctionInfo, node: Node) -> Set[Tuple[str, str]]:
        """(type, origin) raised at *node* directly or through callees (not handled yet)."""
        out: Set[Tuple[str, str]] = set()
        if node.exc is None:
            return out
        if self._escapes is None:
            self._solve_escapes()
        for t in self.node_raise_types(fn, node):
            if t != "<reraise>":
                out.add((t, fn.qualname))
        for g in self.callees(fn, node):
            out |= self._escapes.get(id(g), frozenset())
        return out

    def escapes_in(self, fn: FunctionInfo, start_filter: Optional[Callable[[Node], bool]] = None,
                   raised: Optional[Callable[[Node], Set[Tuple[str, str]]]] = None):
        """Typed propagation of exceptions along exception edges of *fn*.

        Returns {'exit': frozenset((type, origin)), 'handler': {handler ast id: set}}.
        If *start_filter* is given only exceptions raised at nodes satisfying it are tracked.
        """
        g = self.cfg(fn)
        arriving: Dict[Node, Set[Tuple[str, str]]] = {}
        handler_in: Dict[int, Set[Tuple[str, str]]] = {}
        work: List[Tuple[Node, Tuple[str, str]]] = []

        def send(target: Optional[Node], item):
            if target is None:
                return
            s = arriving.setdefault(target, set())
            if item not in s:
                s.add(item)
                work.append((target, item))

        # which nodes are reachable at all (under the raise oracle)
        reach = g.reachable([g.entry], may_raise=lambda n: self.node_may_raise(fn, n))
        handler_nodes: Dict[int, Node] = {}
        for n in g.nodes:
            if n.kind == "handler":
                handler_nodes[id(n.ast)] = n

        def enclosing_handler(astnode) -> Optional[ast.ExceptHandler]:
            p = getattr(astnode, "_parent", None)
            while p is not None and p is not fn.node:
                if isinstance(p, ast.ExceptHandler):
                    return p
                if isinstance(p, (ast.FunctionDef, ast.Lambda, ast.AsyncFunctionDef)):
                    return None
                p = getattr(p, "_parent", None)
            return None

        reraise_sites: Dict[int, List[Node]] = {}
        convert_sites: Dict[int, List[Node]] = {}
        self._convert_sites = convert_sites
        for n in g.nodes:
            if n not in reach or n.exc is None:
                continue
            if n.kind == "raise" and isinstance(n.ast, ast.Raise) and n.ast.exc is not None and start_filter is not None:
                # a handler that raises something else converts whatever it caught
                h = enclosing_handler(n.ast)
                if h is not None:
                    convert_sites.setdefault(id(h), []).append(n)
            if n.kind == "raise" and isinstance(n.ast, ast.Raise) and n.ast.exc is None:
                h = enclosing_handler(n.ast)
                if h is not None:
                    reraise_sites.setdefault(id(h), []).append(n)
                continue
            if n.kind == "reraise":
                continue
            if start_filter is not None and not start_filter(n):
                continue
            for item in (raised(n) if raised is not None else self.raised_at(fn, n)):
                send(n.exc, item)

        # reraise nodes: pass through what arrived at their region entry
        while work:
            node, item = work.pop()
            typ, origin = item
            if node.kind == "dispatch":
                st = node.ast
                rest = True
                for h in st.handlers:
                    hn = handler_nodes.get(id(h))
                    names = self.handler_types(fn, h)
                    if names is None:           # bare except
                        self._to_handler(fn, h, item, handler_in, reraise_sites, send)
                        rest = False
                        break
                    definite = any(self.is_sub_exc(typ, nm) for nm in names)
                    maybe = [nm for nm in names if not self.is_sub_exc(typ, nm) and self.is_sub_exc(nm, typ)]
                    if definite:
                        self._to_handler(fn, h, item, handler_in, reraise_sites, send)
                        rest = False
                        break
                    for nm in maybe:
                        self._to_handler(fn, h, (nm, origin), handler_in, reraise_sites, send)
                if rest:
                    for s, lbl in node.succ:
                        if lbl == "unmatched":
                            send(s, item)
            elif node.kind == "with_exit":
                # __exit__ runs, then the exception continues (KeyFile.__exit__ returns False)
                for s, _ in node.succ:
                    send(s, item)
            elif node.kind == "reraise":
                send(node.exc, item)
            elif node.kind in ("exit", "raise_exit"):
                pass
            else:
                # exceptional finally copy: flows through the body to its reraise node
                seen = g.reachable([node], may_raise=lambda n: False)
                for s in seen:
                    if s.kind == "reraise":
                        send(s, item)
        return {"exit": frozenset(arriving.get(g.raise_exit, set())), "handler": handler_in}

    def _to_handler(self, fn, h, item, handler_in, reraise_sites, send):
        s = handler_in.setdefault(id(h), set())
        if item in s:
            return
        s.add(item)
        for rn in reraise_sites.get(id(h), []):
            send(rn.exc, item)
        for rn in getattr(self, "_convert_sites", {}).get(id(h), []):
            for t in self.raise_stmt_types(fn, rn):
                send(rn.exc, (t, item[1]))

    def handler_types(self, fn: FunctionInfo, h: ast.ExceptHandler) -> Optional[List[str]]:
        if h.type is None:
            return None
        names = h.type.elts if isinstance(h.type, ast.Tuple) else [h.type]
        out = []
        for nm in names:
            r = self.model.resolve_expr_static(fn.module, nm)
            if r and r[0] == "class":
                out.append(r[1].name)
            elif r and r[0] in ("builtin", "ext"):
                out.append(r[1])
            else:
                out.append(ast.unparse(nm))
        return out

    # ----------------------------------------------------------------- access paths
    def access_path(self, fn: FunctionInfo, expr: ast.expr, at: Optional[Node] = None, _depth=0) -> AP:
        if _depth > 6:
            return UNKNOWN_AP
        if isinstance(expr, ast.Name):
            if expr.id == fn.self_name:
                # self may be re-bound in theory; the package never does
                return ("self", ())
            srcs = value_sources(fn, expr, at)
            aps = set()
            for kind, payload in srcs:
                if kind == "param":
                    # (a local copy of self -- an inlined helper's parameter -- is the object itself)
                    aps.add(("self", ()) if payload == fn.self_name else (("param", payload), ()))
                elif kind == "expr":
                    if isinstance(payload, ast.Name):
                        aps.add(("global", (payload.id,)))
                    else:
                        rd = reaching_defs(fn)
                        aps.add(self.access_path(fn, payload, rd.node_of(payload), _depth + 1))
                else:
                    aps.add(UNKNOWN_AP)
            if len(aps) == 1:
                return aps.pop()
            # several possibilities: if all are fresh, fresh; else unknown
            if aps and all(isinstance(a[0], tuple) and a[0][0] == "fresh" and not a[1] for a in aps):
                return sorted(aps)[0]
            # a new object on one branch, something the caller can see on the other: what matters is the latter
            visible = {a for a in aps if not (isinstance(a[0], tuple) and a[0][0] == "fresh" and not a[1])}
            if len(visible) == 1 and len(visible) < len(aps) and next(iter(visible))[0] != "unknown":
                return next(iter(visible))
            roots = {a[0] for a in aps}
            if len(roots) == 1 and "unknown" not in roots:
                # several paths below one root (schema = config / config._schema / ...)
                return (roots.pop(), ("*",))
            return UNKNOWN_AP
        if isinstance(expr, ast.Attribute):
            base = self.access_path(fn, expr.value, at, _depth + 1)
            if base[0] == "unknown":
                return UNKNOWN_AP
            path = base[1] + (expr.attr,)
            if len(path) > MAX_PATH:
                return (base[0], path[:MAX_PATH - 1] + ("*",))
            return (base[0], path)
        if isinstance(expr, ast.Call):
            if at is None:
                at = reaching_defs(fn).node_of(expr)
            nodes = self.cfg(fn).nodes_for(expr)
            node = nodes[0] if nodes else at
            if node is not None and node.kind == "call":
                tg = self.targets(fn, node)
                if tg and all(self.returns_fresh(t) for t in tg):
                    return (("fresh", "%s:%d" % (fn.file, expr.lineno)), ())
            return UNKNOWN_AP
        if isinstance(expr, (ast.List, ast.Dict, ast.Set, ast.ListComp, ast.DictComp, ast.SetComp,
                             ast.Tuple, ast.Constant, ast.JoinedStr)):
            return (("fresh", "%s:%d" % (fn.file, getattr(expr, "lineno", 0))), ())
        return UNKNOWN_AP

    def returns_fresh(self, t: Target, _seen=None) -> bool:
        """Does the target return a newly allocated object (a constructor, or a function all of
        whose returns are constructor calls / fresh-returning calls)?"""
        if t.kind == "ctor":
            return True
        if t.kind == "ext":
            return t.name in ("builtins.dict", "builtins.list", "builtins.set", "builtins.OrderedDict",
                              "collections.OrderedDict", "builtins.bytearray", "builtins.bytes", "copy.copy", "copy.deepcopy",
                              "?.copy", "builtins.sorted", "builtins.tuple", "builtins.frozenset")
        if t.kind == "builtin_method":
            return t.name in ("list.copy", "dict.copy", "set.copy")
        if t.kind != "fn":
            return False
        fn = t.fn
        _seen = _seen or set()
        if id(fn) in _seen:
            return True
        _seen = _seen | {id(fn)}
        g = self.cfg(fn)
        rets = [n for n in g.nodes if n.kind == "return"]
        if not rets:
            return False
        for r in rets:
            v = r.ast.value
            if v is None:
                return False
            for kind, payload in value_sources(fn, v, r):
                if kind != "expr" or not isinstance(payload, ast.Call):
                    return False
                nodes = g.nodes_for(payload)
                if not nodes:
                    return False
                tg = self.targets(fn, nodes[0])
                if not tg or not all(self.returns_fresh(x, _seen) for x in tg):
                    return False
        return True

    # ----------------------------------------------------------------- argument binding
    def bind_args(self, target: Target, fn: FunctionInfo, node: Node) -> Dict[str, Optional[ast.expr]]:
        """formal parameter name -> actual expression at this call node (None if unknown).
        The receiver is bound under the callee's self name."""
        callee = target.fn
        out: Dict[str, Optional[ast.expr]] = {}
        if callee is None:
            return out
        pos = callee.positional_params
        k = node.kind
        recv: Optional[ast.expr] = None
        args: List[ast.expr] = []
        kws: Dict[str, ast.expr] = {}
        if k == "call":
            call = node.ast
            args = list(call.args)
            kws = {kw.arg: kw.value for kw in call.keywords if kw.arg}
            if isinstance(call.func, ast.Attribute):
                recv = call.func.value
            if callee.name == "__call__" and not (isinstance(call.func, ast.Attribute) and call.func.attr == "__call__"):
                recv = call.func        # calling an object: obj(...) is obj.__call__(...)
        elif k == "attr":
            recv = node.ast.value
        elif k == "assign":
            st = node.ast
            t = st.targets[0] if isinstance(st, ast.Assign) else st.target
            if isinstance(t, (ast.Tuple, ast.List)):
                return out
            if isinstance(t, ast.Attribute):
                recv = t.value
                if target.via == "setattr" and callee.name == "__setattr__":
                    args = [ast.Constant(value=t.attr), st.value]
                else:
                    args = [st.value]
            elif isinstance(t, ast.Subscript):
                recv = t.value
                args = [t.slice, st.value]
            elif isinstance(st, ast.AugAssign):
                recv = t
                args = [st.value]
        elif k == "subscript":
            recv = node.ast.value
            args = [node.ast.slice]
        elif k in ("with_enter", "with_exit"):
            recv = node.ast.context_expr
        elif k == "for_iter":
            recv = node.ast.iter
        selfname = callee.self_name
        params = list(pos)
        if target.kind == "ctor":
            if selfname:
                out[selfname] = None    # fresh object; handled by the caller of bind_args
                params = params[1:]
        elif selfname is not None and (target.via in ("property", "setattr", "dunder", "super", "name", None)
                                       and callee.is_method and not callee.is_staticmethod):
            # bound call: receiver is the object (super(): same self)
            if target.via == "super" or (k == "call" and FnTypes.is_super_call(node.ast.func)):
                out[selfname] = ast.Name(id=fn.self_name or "self", ctx=ast.Load()) if fn.self_name else None
                params = params[1:]
            elif recv is not None and not self._is_class_expr(fn, recv, node):
                out[selfname] = recv
                params = params[1:]
            else:
                # unbound call through the class: first positional argument is self
                pass
        if any(isinstance(a, ast.Starred) for a in args):
            for p in params:
                out.setdefault(p, None)
        else:
            for p, a in zip(params, args):
                out[p] = a
        for name, v in kws.items():
            out[name] = v
        return out

    def _is_class_expr(self, fn, expr, node) -> bool:
        ft = self.ft(fn)
        t = ft.type_of(expr, ft.env_in.get(node) or {})
        if t == ANY:
            return False
        return bool(t) and all(isinstance(a, tuple) and a[0] in ("type", "module", "ext") for a in t)

    # ----------------------------------------------------------------- event summaries
    def summary(self, spec: "EventSpec") -> "EventSummary":
        s = self._summaries.get(spec.name)
        if s is None:
            s = EventSummary(self, spec)
            self._summaries[spec.name] = s
        return s


Event = Tuple[str, Optional[AP], object]


class EventSpec:
    """A family of events: ``direct(an, fn, node)`` yields the events a node performs itself."""

    def __init__(self, name: str, direct: Callable[[Analysis, FunctionInfo, Node], Iterable[Event]],
                 follow: Optional[Callable[[Analysis, FunctionInfo, Node, Target], bool]] = None):
        self.name = name
        self.direct = direct
        self.follow = follow


class EventSummary:
    """Transitive may-events per function, expressed over the function's formals."""

    def __init__(self, an: Analysis, spec: EventSpec):
        self.an = an
        self.spec = spec
        self.may: Dict[int, Set[Event]] = {}
        self._direct: Dict[Tuple[int, int], List[Event]] = {}
        self._solve()

    def direct(self, fn, node) -> List[Event]:
        key = (id(fn), node.id)
        r = self._direct.get(key)
        if r is None:
            r = list(self.spec.direct(self.an, fn, node))
            self._direct[key] = r
        return r

    def _solve(self):
        an = self.an
        for f in an.fns():
            self.may[id(f)] = set()
        changed = True
        rounds = 0
        while changed:
            changed = False
            rounds += 1
            if rounds > 60:
                raise AnalysisError("event summary %s does not converge" % self.spec.name)
            for f in an.fns():
                cur = self.may[id(f)]
                before = len(cur)
                for n in an.cfg(f).nodes:
                    for ev in self.node_events(f, n):
                        cur.add(ev)
                if len(cur) != before:
                    changed = True

    def node_events(self, fn: FunctionInfo, node: Node, with_direct=True) -> List[Event]:
        """Events performed at *node*: its own and those of its callees, mapped into fn's terms."""
        out: List[Event] = list(self.direct(fn, node)) if with_direct else []
        an = self.an
        for t in an.targets(fn, node):
            if t.kind not in ("fn", "ctor") or t.fn is None:
                continue
            if self.spec.follow is not None and not self.spec.follow(an, fn, node, t):
                continue
            callee_events = self.may.get(id(t.fn))
            if not callee_events:
                continue
            binding = None
            for ev in callee_events:
                kind, ap, detail = ev
                if ap is None:
                    out.append(ev)
                    continue
                if binding is None:
                    binding = an.bind_args(t, fn, node)
                out.append((kind, self.map_ap(ap, t, fn, node, binding), detail))
        return out

    def map_ap(self, ap: AP, t: Target, fn, node, binding) -> AP:
        root, path = ap
        an = self.an
        callee = t.fn
        base: Optional[AP] = None
        if root == "self":
            if t.kind == "ctor":
                base = (("fresh", "%s:%s" % (fn.file, node.lineno)), ())
            else:
                e = binding.get(callee.self_name) if callee.self_name else None
                base = an.access_path(fn, e, node) if e is not None else UNKNOWN_AP
        elif isinstance(root, tuple) and root[0] == "param":
            e = binding.get(root[1])
            if e is None:
                base = UNKNOWN_AP
            else:
                base = an.access_path(fn, e, node)
        elif isinstance(root, tuple) and root[0] == "fresh":
            return ap
        elif root == "global":
            return ap
        else:
            return UNKNOWN_AP
        if base[0] == "unknown":
            return UNKNOWN_AP
        newpath = base[1] + path
        if len(newpath) > MAX_PATH:
            newpath = newpath[:MAX_PATH - 1] + ("*",)
        return (base[0], newpath)

    def fn_events(self, fn: FunctionInfo) -> Set[Event]:
        return self.may.get(id(fn), set())
