import os
import sys

sys.path.insert(0, os.path.dirname(os.path.dirname(os.path.abspath(__file__))))

from engine.report import main  # noqa: E402
from rules import registry  # noqa: E402

if __name__ == "__main__":
    sys.exit(main(sys.argv[1:], registry()))
