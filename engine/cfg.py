"""
Statement-level control-flow graph with sub-expressions linearised in Python's evaluation
order, exception edges and ``finally`` duplication.

Node kinds
----------
entry, exit (normal return), raise_exit (an exception leaves the function),
call (ast.Call), assign (Assign/AnnAssign/AugAssign/NamedExpr), bind (for/with/except/
comprehension target), test (branch on an expression; True/False successors), raise, return,
subscript (load), delete, with_enter, with_exit, for_iter, dispatch (exception handler dispatch),
handler, reraise (end of an exceptional ``finally`` copy), yield, nop.

Every node that can raise has ``exc`` = the node control goes to when it raises (innermost
handler dispatch, exceptional ``with`` exit, exceptional ``finally`` copy or ``raise_exit``).
Whether it *does* raise is decided at analysis time by a may-raise oracle.
"""
from __future__ import annotations

import ast
from typing import Callable, Dict, Iterable, List, Optional, Set, Tuple

from .model import AnalysisError, FunctionInfo

RAISING_KINDS = {"call", "raise", "subscript", "with_enter", "with_exit", "reraise", "for_iter",
                 "delete", "attr", "assign"}


class Node:
    __slots__ = ("id", "kind", "ast", "stmt", "succ", "exc", "lazy", "pred", "extra")

    def __init__(self, nid, kind, astnode=None, stmt=None):
        self.id = nid
        self.kind = kind
        self.ast = astnode
        self.stmt = stmt
        self.succ: List[Tuple["Node", object]] = []
        self.exc: Optional["Node"] = None
        self.lazy = False
        self.pred: List["Node"] = []
        self.extra = None

    @property
    def lineno(self):
        for a in (self.ast, self.stmt):
            ln = getattr(a, "lineno", None)
            if ln is not None:
                return ln
        return None

    def __repr__(self):
        txt = ""
        if self.ast is not None:
            try:
                txt = ast.unparse(self.ast).split("\n")[0][:50]
            except Exception:  # pragma: no cover
                txt = type(self.ast).__name__
        return "<%d %s %s>" % (self.id, self.kind, txt)


class CFG:
    def __init__(self, fn: FunctionInfo):
        self.fn = fn
        self.nodes: List[Node] = []
        self.entry = self._new("entry")
        self.exit = self._new("exit")
        self.raise_exit = self._new("raise_exit")
        self.by_ast: Dict[int, List[Node]] = {}

    def _new(self, kind, astnode=None, stmt=None) -> Node:
        n = Node(len(self.nodes), kind, astnode, stmt)
        self.nodes.append(n)
        if astnode is not None:
            self.by_ast.setdefault(id(astnode), []).append(n)
        return n

    def nodes_for(self, astnode) -> List[Node]:
        return self.by_ast.get(id(astnode), [])

    # ---------------------------------------------------------------- graph queries
    def edges(self, node: Node, may_raise: Optional[Callable[[Node], bool]] = None):
        """Successors of *node*: normal edges plus the exception edge if the oracle says the node
        may raise (no oracle: every potentially raising node may)."""
        for s, lbl in node.succ:
            yield s, lbl
        if node.exc is not None and (may_raise is None or may_raise(node)):
            yield node.exc, "exc"

    def reachable(self, starts: Iterable[Node], may_raise=None, stop: Optional[Callable[[Node], bool]] = None,
                  include_starts=True, edge_filter=None) -> Set[Node]:
        """Nodes reachable from *starts*. Nodes for which ``stop`` holds are not expanded (and not
        entered)."""
        seen: Set[Node] = set()
        todo = []
        for s in starts:
            if include_starts:
                if stop is not None and stop(s):
                    continue
                if s not in seen:
                    seen.add(s)
                    todo.append(s)
            else:
                todo.append(s)
        expanded = set()
        while todo:
            n = todo.pop()
            if n in expanded:
                continue
            expanded.add(n)
            for s, lbl in self.edges(n, may_raise):
                if edge_filter is not None and not edge_filter(n, s, lbl):
                    continue
                if stop is not None and stop(s):
                    continue
                if s not in seen:
                    seen.add(s)
                    todo.append(s)
        return seen

    def path(self, start: Node, goal: Callable[[Node], bool], may_raise=None, stop=None,
             from_successors=False, edge_filter=None) -> Optional[List[Node]]:
        """A shortest path (BFS) from start to a node satisfying goal, or None."""
        from collections import deque
        prev: Dict[Node, Optional[Node]] = {}
        q = deque()
        if from_successors:
            for s, lbl in self.edges(start, may_raise):
                if edge_filter is not None and not edge_filter(start, s, lbl):
                    continue
                if stop is not None and stop(s):
                    continue
                if s not in prev:
                    prev[s] = start
                    q.append(s)
            prev.setdefault(start, None)
        else:
            prev[start] = None
            q.append(start)
        while q:
            n = q.popleft()
            if goal(n) and not (n is start and from_successors and prev.get(n) is None):
                out = [n]
                while prev.get(out[-1]) is not None and out[-1] is not start:
                    out.append(prev[out[-1]])
                    if len(out) > len(self.nodes) + 2:
                        break
                return list(reversed(out))
            for s, lbl in self.edges(n, may_raise):
                if edge_filter is not None and not edge_filter(n, s, lbl):
                    continue
                if stop is not None and stop(s):
                    continue
                if s not in prev:
                    prev[s] = n
                    q.append(s)
        return None

    def compute_preds(self):
        for n in self.nodes:
            n.pred = []
        for n in self.nodes:
            for s, _ in n.succ:
                s.pred.append(n)
            if n.exc is not None:
                n.exc.pred.append(n)

    def dump(self) -> str:
        out = []
        for n in self.nodes:
            out.append("%r -> %s%s" % (n, [(s.id, l) for s, l in n.succ],
                                       (" exc->%d" % n.exc.id) if n.exc is not None else ""))
        return "\n".join(out)


Frontier = List[Tuple[Node, object]]


class _Loop:
    def __init__(self, head, fin_depth):
        self.head = head
        self.breaks: Frontier = []
        self.fin_depth = fin_depth


class Builder:
    def __init__(self, fn: FunctionInfo):
        self.fn = fn
        self.g = CFG(fn)
        self.exc_target: Node = self.g.raise_exit
        self.loops: List[_Loop] = []
        # stack of (kind, finalbody | withitem, exc_target_outside)
        self.finals: List[Tuple[str, object, Node]] = []
        self.cur_stmt: Optional[ast.stmt] = None
        self.lazy_depth = 0

    # ---------------------------------------------------------------- plumbing
    def new(self, kind, astnode=None) -> Node:
        n = self.g._new(kind, astnode, self.cur_stmt)
        if kind in RAISING_KINDS:
            n.exc = self.exc_target
        if self.lazy_depth:
            n.lazy = True
        return n

    def link(self, fr: Frontier, node: Node) -> Frontier:
        for src, lbl in fr:
            src.succ.append((node, lbl))
        return [(node, None)]

    def add(self, fr: Frontier, kind, astnode=None) -> Tuple[Node, Frontier]:
        n = self.new(kind, astnode)
        return n, self.link(fr, n)

    # ---------------------------------------------------------------- build
    def build(self) -> CFG:
        fr: Frontier = [(self.g.entry, None)]
        fr = self.stmts(self.fn.body(), fr)
        self.link(fr, self.g.exit)
        self.g.compute_preds()
        return self.g

    def stmts(self, body: List[ast.stmt], fr: Frontier) -> Frontier:
        for st in body:
            if not fr:
                break  # unreachable code
            fr = self.stmt(st, fr)
        return fr

    def stmt(self, st: ast.stmt, fr: Frontier) -> Frontier:
        prev = self.cur_stmt
        self.cur_stmt = st
        try:
            m = getattr(self, "s_" + type(st).__name__, None)
            if m is None:
                raise AnalysisError("statement kind %s not modelled (%s)" % (
                    type(st).__name__, self.fn.site(st)))
            return m(st, fr)
        finally:
            self.cur_stmt = prev

    # ---- simple statements
    def s_Expr(self, st, fr):
        return self.expr(st.value, fr)

    def s_Pass(self, st, fr):
        return fr

    def s_Import(self, st, fr):
        return fr

    s_ImportFrom = s_Import
    s_Global = s_Import
    s_Nonlocal = s_Import

    def s_FunctionDef(self, st, fr):
        # decorators and defaults are evaluated here; the body is a separate function
        for d in st.decorator_list:
            fr = self.expr(d, fr)
        _, fr = self.add(fr, "bind", st)
        return fr

    s_AsyncFunctionDef = s_FunctionDef

    def s_Assign(self, st, fr):
        fr = self.expr(st.value, fr)
        for t in st.targets:
            fr = self.target_subexprs(t, fr)
        _, fr = self.add(fr, "assign", st)
        return fr

    def s_AnnAssign(self, st, fr):
        if st.value is None:
            return fr
        fr = self.expr(st.value, fr)
        fr = self.target_subexprs(st.target, fr)
        _, fr = self.add(fr, "assign", st)
        return fr

    def s_AugAssign(self, st, fr):
        fr = self.target_subexprs(st.target, fr)
        fr = self.expr(st.value, fr)
        _, fr = self.add(fr, "assign", st)
        return fr

    def target_subexprs(self, t, fr):
        if isinstance(t, ast.Attribute):
            return self.expr(t.value, fr)
        if isinstance(t, ast.Subscript):
            fr = self.expr(t.value, fr)
            return self.expr(t.slice, fr)
        if isinstance(t, (ast.Tuple, ast.List)):
            for e in t.elts:
                fr = self.target_subexprs(e, fr)
            return fr
        if isinstance(t, ast.Starred):
            return self.target_subexprs(t.value, fr)
        return fr

    def s_Delete(self, st, fr):
        for t in st.targets:
            fr = self.target_subexprs(t, fr)
        _, fr = self.add(fr, "delete", st)
        return fr

    def s_Assert(self, st, fr):
        fr = self.expr(st.test, fr)
        n, fr = self.add(fr, "test", st.test)
        ok = [(n, True)]
        r = self.new("raise", st)
        n.succ.append((r, False))
        self.raise_from(r)
        return ok

    def s_Return(self, st, fr):
        if st.value is not None:
            fr = self.expr(st.value, fr)
        n, fr = self.add(fr, "return", st)
        fr = self.run_finals(fr, 0)
        self.link(fr, self.g.exit)
        return []

    def s_Raise(self, st, fr):
        if st.exc is not None:
            fr = self.expr(st.exc, fr)
        if st.cause is not None:
            fr = self.expr(st.cause, fr)
        n, fr = self.add(fr, "raise", st)
        self.raise_from(n)
        return []

    def raise_from(self, n: Node):
        n.exc = self.exc_target

    def s_Break(self, st, fr):
        if not self.loops:
            raise AnalysisError("break outside loop")
        lp = self.loops[-1]
        fr = self.run_finals(fr, lp.fin_depth)
        lp.breaks.extend(fr)
        return []

    def s_Continue(self, st, fr):
        if not self.loops:
            raise AnalysisError("continue outside loop")
        lp = self.loops[-1]
        fr = self.run_finals(fr, lp.fin_depth)
        self.link(fr, lp.head)
        return []

    def run_finals(self, fr: Frontier, down_to: int) -> Frontier:
        """Inline copies of the enclosing ``finally`` bodies (innermost first) for a jump."""
        saved_finals = self.finals
        saved_exc = self.exc_target
        try:
            for i in range(len(saved_finals) - 1, down_to - 1, -1):
                kind, body, outer_exc = saved_finals[i]
                self.finals = saved_finals[:i]
                self.exc_target = outer_exc
                if kind == "with":
                    if fr:
                        x, fr = self.add(fr, "with_exit", body)
                        x.extra = "normal"
                else:
                    fr = self.stmts(body, fr)
        finally:
            self.finals = saved_finals
            self.exc_target = saved_exc
        return fr

    # ---- compound statements
    def s_If(self, st, fr):
        t_fr, f_fr = self.cond(st.test, fr)
        out = self.stmts(st.body, t_fr)
        out2 = self.stmts(st.orelse, f_fr) if st.orelse else f_fr
        return out + out2

    def cond(self, test: ast.expr, fr: Frontier) -> Tuple[Frontier, Frontier]:
        """Branch on *test* with short-circuit structure; returns (true frontier, false frontier).
        Leaf conditions become ``test`` nodes."""
        if isinstance(test, ast.BoolOp):
            if isinstance(test.op, ast.And):
                falses: Frontier = []
                cur = fr
                for v in test.values:
                    t, f = self.cond(v, cur)
                    falses += f
                    cur = t
                return cur, falses
            else:
                trues: Frontier = []
                cur = fr
                for v in test.values:
                    t, f = self.cond(v, cur)
                    trues += t
                    cur = f
                return trues, cur
        if isinstance(test, ast.UnaryOp) and isinstance(test.op, ast.Not):
            t, f = self.cond(test.operand, fr)
            return f, t
        fr = self.expr(test, fr)
        n, _ = self.add(fr, "test", test)
        return [(n, True)], [(n, False)]

    def s_While(self, st, fr):
        head, fr = self.add(fr, "nop", None)
        if isinstance(st.test, ast.Constant) and st.test.value:
            t_fr, f_fr = fr, []      # `while True:` has no exit edge at the test
        else:
            t_fr, f_fr = self.cond(st.test, fr)
        lp = _Loop(head, len(self.finals))
        self.loops.append(lp)
        body_out = self.stmts(st.body, t_fr)
        self.loops.pop()
        self.link(body_out, head)
        out = self.stmts(st.orelse, f_fr) if st.orelse else f_fr
        return out + lp.breaks

    def s_For(self, st, fr):
        fr = self.expr(st.iter, fr)
        head, fr = self.add(fr, "for_iter", st)
        lp = _Loop(head, len(self.finals))
        self.loops.append(lp)
        b = self.new("bind", st.target)
        b.extra = ("for", st.iter)
        head.succ.append((b, True))
        body_out = self.stmts(st.body, [(b, None)])
        self.loops.pop()
        self.link(body_out, head)
        f_fr = [(head, False)]
        out = self.stmts(st.orelse, f_fr) if st.orelse else f_fr
        return out + lp.breaks

    s_AsyncFor = s_For

    def s_With(self, st, fr):
        saved_exc = self.exc_target
        exits = []
        for item in st.items:
            fr = self.expr(item.context_expr, fr)
            n, fr = self.add(fr, "with_enter", item)
            if item.optional_vars is not None:
                b, fr = self.add(fr, "bind", item.optional_vars)
                b.extra = ("with", item.context_expr)
            # exceptional exit: __exit__ runs, then the exception propagates
            x = self.new("with_exit", item)
            x.extra = "exc"
            x.exc = self.exc_target
            rr = self.new("reraise", item)
            rr.exc = self.exc_target
            x.succ.append((rr, None))
            self.exc_target = x
            exits.append(item)
            # a return/break/continue inside the with runs __exit__ too: pseudo-finally
            self.finals.append(("with", item, saved_exc))
        body = st.body
        fr = self.stmts(body, fr)
        for item in exits:
            self.finals.pop()
        for item in reversed(exits):
            self.exc_target = saved_exc  # conservative: __exit__ raising goes outward
            x, fr = self.add(fr, "with_exit", item)
            x.extra = "normal"
        self.exc_target = saved_exc
        return fr

    s_AsyncWith = s_With

    def s_Try(self, st, fr):
        outer_exc = self.exc_target
        has_final = bool(st.finalbody)
        fin_exc_entry = None
        if has_final:
            # exceptional copy of the finally body
            fin_exc_entry = self.new("nop", None)
            f = self.stmts(st.finalbody, [(fin_exc_entry, None)])
            if f:
                rr = self.new("reraise", st)
                rr.exc = outer_exc
                self.link(f, rr)
            self.finals.append(("stmts", st.finalbody, outer_exc))
        after_handlers_exc = fin_exc_entry if has_final else outer_exc

        dispatch = None
        if st.handlers:
            dispatch = self.new("dispatch", st)
            dispatch.exc = None
            self.exc_target = dispatch
        else:
            self.exc_target = after_handlers_exc
        body_out = self.stmts(st.body, fr)

        # else + handlers run with exceptions going to the finally copy / outward
        self.exc_target = after_handlers_exc
        else_out = self.stmts(st.orelse, body_out) if st.orelse else body_out
        handler_out: Frontier = []
        if dispatch is not None:
            catch_all = False
            for h in st.handlers:
                hn = self.new("handler", h)
                dispatch.succ.append((hn, None))
                cur: Frontier = [(hn, None)]
                if h.name:
                    b, cur = self.add(cur, "bind", h)
                    b.extra = ("except", h.type)
                handler_out += self.stmts(h.body, cur)
                if h.type is None:
                    catch_all = True
                else:
                    names = [h.type] if not isinstance(h.type, ast.Tuple) else list(h.type.elts)
                    for nm in names:
                        if isinstance(nm, ast.Name) and nm.id in ("Exception", "BaseException"):
                            catch_all = True
            dispatch.extra = {"catch_all": catch_all}
            if not catch_all:
                dispatch.succ.append((after_handlers_exc, "unmatched"))
        out = else_out + handler_out
        if has_final:
            self.finals.pop()
            self.exc_target = outer_exc
            out = self.stmts(st.finalbody, out)
        self.exc_target = outer_exc
        return out

    # ---------------------------------------------------------------- expressions
    def expr(self, e: Optional[ast.expr], fr: Frontier) -> Frontier:
        if e is None or not fr:
            return fr
        m = getattr(self, "e_" + type(e).__name__, None)
        if m is not None:
            return m(e, fr)
        # generic: children in source order
        for child in ast.iter_child_nodes(e):
            if isinstance(child, ast.expr):
                fr = self.expr(child, fr)
            elif isinstance(child, (ast.keyword,)):
                fr = self.expr(child.value, fr)
            elif isinstance(child, ast.comprehension):
                raise AnalysisError("unexpected comprehension")
        return fr

    def e_Constant(self, e, fr):
        return fr

    def e_Name(self, e, fr):
        return fr

    def e_Lambda(self, e, fr):
        return fr  # body not executed here

    def e_Call(self, e: ast.Call, fr):
        fr = self.expr(e.func, fr)
        gens = []
        for a in e.args:
            if isinstance(a, ast.GeneratorExp):
                gens.append(a)
            else:
                fr = self.expr(a, fr)
        for k in e.keywords:
            if isinstance(k.value, ast.GeneratorExp):
                gens.append(k.value)
            else:
                fr = self.expr(k.value, fr)
        heads = []
        for gexp in gens:
            self.lazy_depth += 1
            fr, head = self.comprehension(gexp, fr, want_head=True)
            self.lazy_depth -= 1
            heads.append(head)
        n, fr = self.add(fr, "call", e)
        for h in heads:
            # the generator body runs *during* the callee: allow body-after-call orderings
            n.succ.append((h, "interleave"))
            n.extra = "consumes_generator"
        return fr

    def e_BoolOp(self, e, fr):
        t, f = self.cond(e, fr)
        return t + f

    def e_IfExp(self, e, fr):
        t, f = self.cond(e.test, fr)
        return self.expr(e.body, t) + self.expr(e.orelse, f)

    def e_Subscript(self, e, fr):
        fr = self.expr(e.value, fr)
        fr = self.expr(e.slice, fr)
        if isinstance(e.ctx, ast.Load):
            _, fr = self.add(fr, "subscript", e)
        return fr

    def e_Attribute(self, e, fr):
        fr = self.expr(e.value, fr)
        if isinstance(e.ctx, ast.Load):
            # a property / __getattr__ access is a call; the oracle decides
            _, fr = self.add(fr, "attr", e)
        return fr

    def e_NamedExpr(self, e, fr):
        fr = self.expr(e.value, fr)
        _, fr = self.add(fr, "assign", e)
        return fr

    def e_Yield(self, e, fr):
        fr = self.expr(e.value, fr)
        _, fr = self.add(fr, "yield", e)
        return fr

    e_YieldFrom = e_Yield

    def e_Await(self, e, fr):
        return self.expr(e.value, fr)

    def comprehension(self, e, fr, want_head=False):
        """ListComp/SetComp/DictComp/GeneratorExp as nested loops."""
        first_head = None
        heads = []
        exits: Frontier = []
        cur = fr
        for gen in e.generators:
            cur = self.expr(gen.iter, cur)
            head, cur = self.add(cur, "for_iter", gen)
            if first_head is None:
                first_head = head
            heads.append(head)
            b = self.new("bind", gen.target)
            b.extra = ("for", gen.iter)
            head.succ.append((b, True))
            cur = [(b, None)]
            for cnd in gen.ifs:
                t, f = self.cond(cnd, cur)
                self.link(f, head)
                cur = t
        if isinstance(e, ast.DictComp):
            cur = self.expr(e.key, cur)
            cur = self.expr(e.value, cur)
        else:
            cur = self.expr(e.elt, cur)
        # innermost body loops back to innermost head; each head's exit goes to the enclosing head
        self.link(cur, heads[-1])
        for i in range(len(heads) - 1, 0, -1):
            heads[i].succ.append((heads[i - 1], False))
        out = [(heads[0], False)]
        if want_head:
            return out, first_head
        return out

    def e_ListComp(self, e, fr):
        return self.comprehension(e, fr)

    e_SetComp = e_ListComp
    e_DictComp = e_ListComp

    def e_GeneratorExp(self, e, fr):
        # not a direct call argument: evaluated lazily somewhere else; keep the body on the path
        # (marked lazy) so that its events are still seen
        self.lazy_depth += 1
        out = self.comprehension(e, fr)
        self.lazy_depth -= 1
        return out


_CACHE: Dict[int, CFG] = {}


def build_cfg(fn: FunctionInfo) -> CFG:
    key = id(fn)
    g = _CACHE.get(key)
    if g is None:
        g = Builder(fn).build()
        _CACHE[key] = g
    return g
