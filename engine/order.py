"""
ORDER rule: "no path performs an A event and later a B event", decided interprocedurally with
summaries.  B is either another event selection or the pseudo-event ESCAPE (an exception leaves
the function).
"""
from __future__ import annotations

from typing import Callable, Dict, List, Optional, Set, Tuple

from .cfg import Node
from .effects import AP, Analysis, Event, EventSummary
from .model import AnalysisError, FunctionInfo

ESCAPE = "ESCAPE"


class OrderHit:
    def __init__(self, fn, a_node, a_event, b_node, path, via):
        self.fn: FunctionInfo = fn
        self.a_node: Node = a_node
        self.a_event: Event = a_event
        self.b_node: Optional[Node] = b_node
        self.path: List[Node] = path
        self.via = via      # 'local' | 'callee'

    def describe(self) -> str:
        p = " -> ".join("%s@%s" % (n.kind, n.lineno) for n in self.path[:12])
        return "path: %s" % p


class OrderAnalysis:
    """For every function: the A events (over its formals) that may be followed by B."""

    def __init__(self, an: Analysis, sumA: EventSummary, selA: Callable[[Event], bool],
                 sumB, selB: Optional[Callable[[Event], bool]] = None,
                 keep_ap: Optional[Callable[[AP], bool]] = None):
        self.an = an
        self.sumA = sumA
        self.selA = selA
        self.sumB = sumB          # EventSummary or ESCAPE
        self.selB = selB
        self.keep_ap = keep_ap or (lambda ap: True)
        self.ab: Dict[int, Set[Event]] = {}
        self.hits: Dict[int, List[OrderHit]] = {}
        self._solve()

    # does node n perform B (directly or through callees)?
    def _is_b(self, fn, n: Node) -> bool:
        if self.sumB == ESCAPE:
            return False
        for ev in self.sumB.node_events(fn, n):
            if self.selB(ev):
                return True
        return False

    def _a_events(self, fn, n: Node) -> List[Event]:
        return [ev for ev in self.sumA.node_events(fn, n)
                if self.selA(ev) and (ev[1] is None or self.keep_ap(ev[1]))]

    def _solve(self):
        an = self.an
        fns = an.fns()
        for f in fns:
            self.ab[id(f)] = set()
            self.hits[id(f)] = []
        changed = True
        rounds = 0
        while changed:
            changed = False
            rounds += 1
            if rounds > 60:
                raise AnalysisError("ORDER fix-point does not converge")
            for f in fns:
                new_events, hits = self._analyse(f)
                if not new_events <= self.ab[id(f)]:
                    self.ab[id(f)] |= new_events
                    changed = True
                self.hits[id(f)] = hits

    def _analyse(self, f: FunctionInfo) -> Tuple[Set[Event], List[OrderHit]]:
        an = self.an
        g = an.cfg(f)
        oracle = lambda n: an.node_may_raise(f, n)
        reach = g.reachable([g.entry], may_raise=oracle)
        out: Set[Event] = set()
        hits: List[OrderHit] = []
        for n in g.nodes:
            if n not in reach:
                continue
            a_evs = self._a_events(f, n)
            # (1) A at n (its own or its callees'), B strictly later in f
            if a_evs:
                if self.sumB == ESCAPE:
                    # after n completes normally ...
                    path = g.path(n, lambda x: x is g.raise_exit, may_raise=oracle, from_successors=True,
                                  edge_filter=lambda a, b, lbl, n=n: not (a is n and lbl == "exc"))
                    bnode = g.raise_exit if path else None
                else:
                    path = g.path(n, lambda x: self._is_b(f, x), may_raise=oracle, from_successors=True,
                                  edge_filter=lambda a, b, lbl, n=n: not (a is n and lbl == "exc"))
                    bnode = path[-1] if path else None
                if path:
                    for ev in a_evs:
                        out.add(ev)
                        hits.append(OrderHit(f, n, ev, bnode, path, "local"))
            # (2) "A then B" entirely inside a callee of n
            for t in an.targets(f, n):
                if t.kind not in ("fn", "ctor") or t.fn is None:
                    continue
                inner = self.ab.get(id(t.fn))
                if not inner:
                    continue
                if self.sumB == ESCAPE:
                    # the callee's exception must also leave f
                    if n.exc is None:
                        continue
                    p = g.path(n.exc, lambda x: x is g.raise_exit, may_raise=oracle)
                    if n.exc is not g.raise_exit and not p:
                        continue
                binding = an.bind_args(t, f, n)
                for ev in inner:
                    kind, ap, detail = ev
                    mapped = (kind, self.sumA.map_ap(ap, t, f, n, binding) if ap is not None else None, detail)
                    if mapped[1] is not None and not self.keep_ap(mapped[1]):
                        continue
                    if mapped not in out:
                        out.add(mapped)
                    hits.append(OrderHit(f, n, mapped, None, [n], "callee:%s" % t.fn.qualname))
        return out, hits

    def violations(self, fn: FunctionInfo) -> List[OrderHit]:
        return self.hits.get(id(fn), [])
