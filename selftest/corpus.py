"""
Seeded variants (expect='fire') and benign refactors (expect='silent'), as textual edits of the
current /repo tree.  ``V(id, property, what, file, old, new, expect='fire', **kw)``; several edits:
pass ``edits=[(file, old, new), ...]``.
"""
VARIANTS = []

CORE = "cincoconfig/core.py"
LIST = "cincoconfig/fields/list_field.py"
DICT = "cincoconfig/fields/dict_field.py"
SEC = "cincoconfig/fields/secure_field.py"
ENC = "cincoconfig/encryption.py"
STR = "cincoconfig/fields/string_field.py"
NUM = "cincoconfig/fields/number_field.py"
NET = "cincoconfig/fields/net_field.py"
BOOL = "cincoconfig/fields/bool_field.py"
BYTES = "cincoconfig/fields/bytes_field.py"
FILE = "cincoconfig/fields/file_field.py"
URL = "cincoconfig/fields/url_field.py"
INC = "cincoconfig/fields/include_field.py"
VIRT = "cincoconfig/fields/virtual_field.py"
IMF = "cincoconfig/fields/instance_method_field.py"
SUP = "cincoconfig/support.py"
STUBS = "cincoconfig/stubs.py"
XML = "cincoconfig/formats/xml.py"
YAML = "cincoconfig/formats/yaml.py"
JSON = "cincoconfig/formats/json.py"
FMT = "cincoconfig/formats/__init__.py"


def V(vid, prop, what, file=None, old=None, new=None, expect="fire", edits=None, **kw):
    es = [{"file": f, "old": o, "new": n} for f, o, n in (edits or [(file, old, new)])]
    d = {"id": vid, "property": prop, "what": what, "expect": expect, "edits": es}
    d.update(kw)
    VARIANTS.append(d)


# ------------------------------------------------------------------------------------------ C06
V("C06-discard-first", "C06", "default mark cleared before __setval__ (which can raise for read-only fields)", CORE,
  """                field.__setval__(self, value)
                self._default_value_keys.discard(key)
                return value""",
  """                self._default_value_keys.discard(key)
                field.__setval__(self, value)
                return value""")
V("C06-store-before-load", "C06", "new sub-config stored before load_tree(value) can reject the dict", CORE,
  """            cfg._key = key
            cfg.load_tree(value)  # load_tree will raise a ValidationError on error
            value = cfg""",
  """            cfg._key = key
            self._data[key] = cfg
            cfg.load_tree(value)  # load_tree will raise a ValidationError on error
            value = cfg""")
V("C06-append-then-validate", "C06", "ListProxy.append writes, then validates", LIST,
  "        super().append(self._validate(item))",
  "        super().append(item)\n        self._validate(item)")
V("C06-load-before-includes", "C06", "load_tree before _process_includes", CORE,
  """        tree = formatter.loads(self, content)
        tree = self._process_includes(self._schema, tree, format_factory)
""",
  """        tree = formatter.loads(self, content)
        self.load_tree(tree)
        tree = self._process_includes(self._schema, tree, format_factory)
""")
V("C06-dict-setitem-early", "C06", "DictProxy.__setitem__ stores the raw pair before validating", DICT,
  """        key, value = self._validate(key, value)
        super().__setitem__(key, value)

    def _ref_path""",
  """        super().__setitem__(key, value)
        key, value = self._validate(key, value)
        super().__setitem__(key, value)

    def _ref_path""")
V("C06-discard-finally", "C06", "discard moved into a finally clause (runs on rejection too)", CORE,
  """            try:
                value = field.validate(self, value)
            except ValidationError:
                raise
            except Exception as err:
                raise ValidationError(self, field, err) from err
            else:
                field.__setval__(self, value)
                self._default_value_keys.discard(key)
                return value""",
  """            try:
                value = field.validate(self, value)
            except ValidationError:
                raise
            except Exception as err:
                raise ValidationError(self, field, err) from err
            else:
                field.__setval__(self, value)
                return value
            finally:
                self._default_value_keys.discard(key)""")
V("C06-benign-helper", "C06", "store + unmark extracted into a helper", CORE, expect="silent", edits=[
    (CORE, """                field.__setval__(self, value)
                self._default_value_keys.discard(key)
                return value""",
     """                self._store(field, key, value)
                return value"""),
    (CORE, """    def __setattr__(self, name: str, value: Any) -> Any:
        \"\"\"
        Validate a configuration value and set it.""",
     """    def _store(self, field: Field, key: str, value: Any) -> None:
        field.__setval__(self, value)
        self._default_value_keys.discard(key)

    def __setattr__(self, name: str, value: Any) -> Any:
        \"\"\"
        Validate a configuration value and set it."""),
])

# ------------------------------------------------------------------------------------------ C01
V("C01-load-direct-store", "C01", "load_tree writes Field values into _data directly", CORE,
  """            self._set_value(key, value)

        if validate:""",
  """            if isinstance(field, Field):
                self._data[key] = value
            else:
                self._set_value(key, value)

        if validate:""", expect_rule="gateway.validated-store @ Config.load_tree")
V("C01-insert-raw", "C01", "ListProxy.insert hands the raw item to list.insert", LIST,
  "        super().insert(index, self._validate(item))", "        super().insert(index, item)",
  expect_rule="taint @ ListProxy.insert")
V("C01-url-no-super", "C01", "UrlField._validate no longer chains to StringField._validate", URL,
  "        value = super()._validate(cfg, value)\n", "", expect_rule="super-chain @ UrlField._validate")
V("C01-validate-skips-_validate", "C01", "Field.validate skips the subclass hook", CORE,
  "        value = self._validate(cfg, value)\n        if self.validator:", "        if self.validator:",
  expect_rule="validate.chain @ Field.validate")
V("C01-setdefault-swapped", "C01", "DictProxy.setdefault swaps validated key and value", DICT,
  "        key, value = self._validate(key, value)\n        super().setdefault(key, value)",
  "        value, key = self._validate(key, value)\n        super().setdefault(key, value)",
  expect_rule="taint @ DictProxy.setdefault")
V("C01-insert-deleted", "C01", "ListProxy.insert override deleted (inherits list.insert)", LIST,
  "    def insert(self, index: int, item: Any) -> None:\n        super().insert(index, self._validate(item))\n",
  "", expect_rule="override @ ListProxy")
V("C01-validate-result-dropped", "C01", "_set_value stores the raw value, not validate()'s result", CORE,
  "                value = field.validate(self, value)\n            except ValidationError:",
  "                checked = field.validate(self, value)\n            except ValidationError:",
  expect_rule="gateway.validated-store @ Field.__setval__")
V("C01-ior-deleted", "C01", "DictProxy.__ior__ removed again (D11 re-introduced)", DICT,
  """    def __ior__(self, other: KeyValuePairs) -> "DictProxy":  # type: ignore[override,misc]
        self.update(other)
        return self
""", "", expect_rule="override @ DictProxy")
V("C01-strfield-no-return", "C01", "StringField._validate falls off the end", STR,
  "            raise ValueError(\"value is not a valid choice\" + postfix)\n\n        return value\n",
  "            raise ValueError(\"value is not a valid choice\" + postfix)\n",
  expect_rule="validator.returns @ StringField._validate")
V("C01-env-default-raw", "C01", "environment value stored as default without validation", CORE,
  """                try:
                    env_value = self.validate(cfg, env_value)
                except ValidationError:
                    raise
                except Exception as exc:
                    raise ValidationError(cfg, self, exc) from exc
                else:
                    value = env_value""",
  """                value = env_value""", expect_rule="default-store")
V("C01-update-kwargs-raw", "C01", "DictProxy.update passes keyword entries straight to dict.update", DICT,
  """        for key, value in kwargs.items():
            self.__setitem__(key, value)""",
  """        super().update(**kwargs)""", expect_rule="taint @ DictProxy.update")
V("C01-benign-helper-store", "C01", "validated store moved behind a helper taking (field, value)", CORE, expect="silent",
  edits=[(CORE, """                field.__setval__(self, value)
                self._default_value_keys.discard(key)
                return value""",
          """                self._store(field, key, value)
                return value"""),
         (CORE, """    def __setattr__(self, name: str, value: Any) -> Any:
        \"\"\"
        Validate a configuration value and set it.""",
          """    def _store(self, field: Field, key: str, value: Any) -> None:
        field.__setval__(self, value)
        self._default_value_keys.discard(key)

    def __setattr__(self, name: str, value: Any) -> Any:
        \"\"\"
        Validate a configuration value and set it.""")])
V("C01-benign-rename", "C01", "locals renamed in _set_value", CORE, expect="silent",
  edits=[(CORE, """                value = field.validate(self, value)
            except ValidationError:
                raise
            except Exception as err:
                raise ValidationError(self, field, err) from err
            else:
                field.__setval__(self, value)
                self._default_value_keys.discard(key)
                return value""",
          """                checked = field.validate(self, value)
            except ValidationError:
                raise
            except Exception as err:
                raise ValidationError(self, field, err) from err
            else:
                field.__setval__(self, checked)
                self._default_value_keys.discard(key)
                return checked""")])
