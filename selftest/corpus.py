"""
Seeded variants (expect='fire') and benign refactors (expect='silent'), as textual edits of the
current /repo tree.  ``V(id, property, what, file, old, new, expect='fire', **kw)``; several edits:
pass ``edits=[(file, old, new), ...]``.
"""
VARIANTS = []

CORE = "cincoconfig/core.py"
LIST = "cincoconfig/fields/list_field.py"
DICT = "cincoconfig/fields/dict_field.py"
SEC = "cincoconfig/fields/secure_field.py"
ENC = "cincoconfig/encryption.py"
STR = "cincoconfig/fields/string_field.py"
NUM = "cincoconfig/fields/number_field.py"
NET = "cincoconfig/fields/net_field.py"
BOOL = "cincoconfig/fields/bool_field.py"
BYTES = "cincoconfig/fields/bytes_field.py"
FILE = "cincoconfig/fields/file_field.py"
URL = "cincoconfig/fields/url_field.py"
INC = "cincoconfig/fields/include_field.py"
VIRT = "cincoconfig/fields/virtual_field.py"
IMF = "cincoconfig/fields/instance_method_field.py"
SUP = "cincoconfig/support.py"
STUBS = "cincoconfig/stubs.py"
XML = "cincoconfig/formats/xml.py"
YAML = "cincoconfig/formats/yaml.py"
JSON = "cincoconfig/formats/json.py"
FMT = "cincoconfig/formats/__init__.py"


def V(vid, prop, what, file=None, old=None, new=None, expect="fire", edits=None, **kw):
    es = [{"file": f, "old": o, "new": n} for f, o, n in (edits or [(file, old, new)])]
    d = {"id": vid, "property": prop, "what": what, "expect": expect, "edits": es}
    d.update(kw)
    VARIANTS.append(d)


# ------------------------------------------------------------------------------------------ C06
V("C06-discard-first", "C06", "default mark cleared before __setval__ (which can raise for read-only fields)", CORE,
  """                value = field.validate(self, value)
                field.__setval__(self, value)
            except ValidationError:""",
  """                value = field.validate(self, value)
                self._default_value_keys.discard(key)
                field.__setval__(self, value)
            except ValidationError:""")
V("C06-store-before-load", "C06", "new sub-config stored before load_tree(value) can reject the dict", CORE,
  """            cfg.load_tree(value)  # load_tree will raise a ValidationError on error
            value = cfg""",
  """            self._data[key] = cfg
            cfg.load_tree(value)  # load_tree will raise a ValidationError on error
            value = cfg""")
V("C06-append-then-validate", "C06", "ListProxy.append writes, then validates", LIST,
  "        super().append(self._validate(item))",
  "        super().append(item)\n        self._validate(item)")
V("C06-load-before-includes", "C06", "load_tree before _process_includes", CORE,
  """        tree = formatter.loads(self, content)
        tree = self._process_includes(self._schema, tree, format_factory)
""",
  """        tree = formatter.loads(self, content)
        self.load_tree(tree)
        tree = self._process_includes(self._schema, tree, format_factory)
""")
V("C06-dict-setitem-early", "C06", "DictProxy.__setitem__ stores the raw pair before validating", DICT,
  """        key, value = self._validate(key, value)
        super().__setitem__(key, value)

    def _ref_path""",
  """        super().__setitem__(key, value)
        key, value = self._validate(key, value)
        super().__setitem__(key, value)

    def _ref_path""")
V("C06-discard-finally", "C06", "discard moved into a finally clause (runs on rejection too)", CORE,
  """                raise ValidationError(self, field, err) from err
            else:
                self._default_value_keys.discard(key)
                return value""",
  """                raise ValidationError(self, field, err) from err
            else:
                return value
            finally:
                self._default_value_keys.discard(key)""")
V("C06-benign-helper", "C06", "store + unmark extracted into a helper", CORE, expect="silent", edits=[
    (CORE, """                field.__setval__(self, value)
            except ValidationError:
                raise
            except Exception as err:
                raise ValidationError(self, field, err) from err
            else:
                self._default_value_keys.discard(key)
                return value""",
     """                self._store(field, key, value)
            except ValidationError:
                raise
            except Exception as err:
                raise ValidationError(self, field, err) from err
            else:
                return value"""),
    (CORE, """    def __setattr__(self, name: str, value: Any) -> Any:
        \"\"\"
        Validate a configuration value and set it.""",
     """    def _store(self, field: Field, key: str, value: Any) -> None:
        field.__setval__(self, value)
        self._default_value_keys.discard(key)

    def __setattr__(self, name: str, value: Any) -> Any:
        \"\"\"
        Validate a configuration value and set it."""),
])

# ------------------------------------------------------------------------------------------ C01
V("C01-load-direct-store", "C01", "load_tree writes Field values into _data directly", CORE,
  """            self._set_value(key, value)

        if validate:""",
  """            if isinstance(field, Field):
                self._data[key] = value
            else:
                self._set_value(key, value)

        if validate:""", expect_rule="gateway.validated-store @ Config.load_tree")
V("C01-insert-raw", "C01", "ListProxy.insert hands the raw item to list.insert", LIST,
  "        super().insert(index, self._validate(item))", "        super().insert(index, item)",
  expect_rule="taint @ ListProxy.insert")
V("C01-url-no-super", "C01", "UrlField._validate no longer chains to StringField._validate", URL,
  "        value = super()._validate(cfg, value)\n", "", expect_rule="super-chain @ UrlField._validate")
V("C01-validate-skips-_validate", "C01", "Field.validate skips the subclass hook", CORE,
  "        value = self._validate(cfg, value)\n        if self.validator:", "        if self.validator:",
  expect_rule="validate.chain @ Field.validate")
V("C01-setdefault-swapped", "C01", "DictProxy.setdefault swaps validated key and value", DICT,
  "        key, value = self._validate(key, value)\n        return super().setdefault(key, value)",
  "        value, key = self._validate(key, value)\n        return super().setdefault(key, value)",
  expect_rule="taint @ DictProxy.setdefault")
V("C01-insert-deleted", "C01", "ListProxy.insert override deleted (inherits list.insert)", LIST,
  "    def insert(self, index: int, item: Any) -> None:\n        super().insert(index, self._validate(item))\n",
  "", expect_rule="override @ ListProxy")
V("C01-validate-result-dropped", "C01", "_set_value stores the raw value, not validate()'s result", CORE,
  "                value = field.validate(self, value)\n                field.__setval__(self, value)",
  "                checked = field.validate(self, value)\n                field.__setval__(self, value)",
  expect_rule="gateway.validated-store @ Field.__setval__")
V("C01-ior-deleted", "C01", "DictProxy.__ior__ removed again (D11 re-introduced)", DICT,
  """    def __ior__(self, other: KeyValuePairs) -> "DictProxy":  # type: ignore[override,misc]
        self.update(other)
        return self
""", "", expect_rule="override @ DictProxy")
V("C01-strfield-no-return", "C01", "StringField._validate falls off the end", STR,
  "            raise ValueError(\"value is not a valid choice\" + postfix)\n\n        return value\n",
  "            raise ValueError(\"value is not a valid choice\" + postfix)\n",
  expect_rule="validator.returns @ StringField._validate")
V("C01-env-default-raw", "C01", "environment value stored as default without validation", CORE,
  """                try:
                    env_value = self.validate(cfg, env_value)
                except ValidationError:
                    raise
                except Exception as exc:
                    raise ValidationError(cfg, self, exc) from exc
                else:
                    value = env_value""",
  """                value = env_value""", expect_rule="default-store")
V("C01-update-kwargs-raw", "C01", "DictProxy.update passes keyword entries straight to dict.update", DICT,
  """        for key, value in kwargs.items():
            self.__setitem__(key, value)""",
  """        super().update(**kwargs)""", expect_rule="taint @ DictProxy.update")
V("C01-benign-helper-store", "C01", "validated store moved behind a helper taking (field, value)", CORE, expect="silent",
  edits=[(CORE, """                field.__setval__(self, value)
            except ValidationError:
                raise
            except Exception as err:
                raise ValidationError(self, field, err) from err
            else:
                self._default_value_keys.discard(key)
                return value""",
          """                self._store(field, key, value)
            except ValidationError:
                raise
            except Exception as err:
                raise ValidationError(self, field, err) from err
            else:
                return value"""),
         (CORE, """    def __setattr__(self, name: str, value: Any) -> Any:
        \"\"\"
        Validate a configuration value and set it.""",
          """    def _store(self, field: Field, key: str, value: Any) -> None:
        field.__setval__(self, value)
        self._default_value_keys.discard(key)

    def __setattr__(self, name: str, value: Any) -> Any:
        \"\"\"
        Validate a configuration value and set it.""")])
V("C01-benign-rename", "C01", "locals renamed in _set_value", CORE, expect="silent",
  edits=[(CORE, """                value = field.validate(self, value)
                field.__setval__(self, value)
            except ValidationError:
                raise
            except Exception as err:
                raise ValidationError(self, field, err) from err
            else:
                self._default_value_keys.discard(key)
                return value""",
          """                checked = field.validate(self, value)
                field.__setval__(self, checked)
            except ValidationError:
                raise
            except Exception as err:
                raise ValidationError(self, field, err) from err
            else:
                self._default_value_keys.discard(key)
                return checked""")])

# ------------------------------------------------------------------------------------------ C19
V("C19-open-before-dumps", "C19", "destination opened (truncated) before serialisation", CORE,
  """        content = self.dumps(format, **kwargs)
        filename = os.path.expanduser(filename)
        with open(filename, "wb") as file:
            file.write(content)""",
  """        filename = os.path.expanduser(filename)
        with open(filename, "wb") as file:
            content = self.dumps(format, **kwargs)
            file.write(content)""", expect_rule="dumps-before-open")
V("C19-swallow-dumps-error", "C19", "serialisation failure swallowed, empty content written", CORE,
  "        content = self.dumps(format, **kwargs)\n        filename",
  "        try:\n            content = self.dumps(format, **kwargs)\n        except Exception:\n            content = b\"\"\n        filename",
  expect_rule="dumps-before-open")
V("C19-write-twice", "C19", "an extra write before the content", CORE,
  "            file.write(content)", "            file.write(b\"\")\n            file.write(content)", expect_rule="write.")
V("C19-write-transformed", "C19", "content transformed before writing", CORE,
  "            file.write(content)", "            file.write(content.strip())", expect_rule="write.exact")
V("C19-touch-first", "C19", "destination touched (created/truncated) to test writability before dumps", CORE,
  "        content = self.dumps(format, **kwargs)\n        filename = os.path.expanduser(filename)",
  "        filename = os.path.expanduser(filename)\n        open(filename, \"wb\").close()\n        content = self.dumps(format, **kwargs)",
  expect_rule="dumps-before-open")
V("C19-benign-helper", "C19", "write moved into a helper taking (filename, content)", CORE, expect="silent",
  old="""        with open(filename, "wb") as file:
            file.write(content)""",
  new="""        self._write(filename, content)

    def _write(self, filename, content):
        with open(filename, "wb") as file:
            file.write(content)""")
V("C19-benign-atomic", "C19", "atomic replace: write to a temp name, then os.replace", CORE, expect="silent",
  old="""        with open(filename, "wb") as file:
            file.write(content)""",
  new="""        tmp = filename + ".tmp"
        with open(tmp, "wb") as file:
            file.write(content)
        os.replace(tmp, filename)""")

# ------------------------------------------------------------------------------------------ C10
V("C10-recursion-drops-mask", "C10", "recursion into sub-configs drops the mask", CORE,
  """                value = field_value.to_tree(
                    virtual=virtual, sensitive_mask=sensitive_mask
                )""",
  "                value = field_value.to_tree(virtual=virtual)", expect_rule="forward @ Config.to_tree")
V("C10-list-items-drop-mask", "C10", "list-of-config interception drops the mask", CORE,
  "                    item.to_tree(virtual=virtual, sensitive_mask=sensitive_mask)\n                    for item",
  "                    item.to_tree(virtual=virtual)\n                    for item", expect_rule="forward")
V("C10-interception-removed", "C10", "D5 re-introduced: interception branch removed", CORE,
  """            elif (
                isinstance(field_value, list)
                and field_value
                and all(isinstance(item, Config) for item in field_value)
            ):
                # list of configurations: render each item with the same options
                value = [
                    item.to_tree(virtual=virtual, sensitive_mask=sensitive_mask)
                    for item in field_value
                ]
""", "", expect_rule="forward @ ListField.to_basic")
V("C10-interception-conditional", "C10", "interception additionally depends on a field option", CORE,
  "                and all(isinstance(item, Config) for item in field_value)\n            ):",
  "                and all(isinstance(item, Config) for item in field_value)\n                and not field.required\n            ):",
  expect_rule="forward @ ListField.to_basic")
V("C10-mask-partial", "C10", "one-character mask keeps the tail of the value", CORE,
  "                    value = sensitive_mask * len(str(field_value))",
  "                    value = sensitive_mask + str(field_value)[1:]", expect_rule="renders-mask")
V("C10-mask-truthiness", "C10", "`sensitive_mask is not None` replaced by truthiness (empty mask shows values)", CORE,
  "                and field.sensitive\n                and sensitive_mask is not None\n            ):",
  "                and field.sensitive\n                and sensitive_mask\n            ):", expect_rule="sensitive-branch")
V("C10-encoder-first", "C10", "encoder runs before the sensitive branch and wins", CORE,
  """            if isinstance(field_value, Config):
                value = field_value.to_tree(""",
  """            if isinstance(field, Field) and not isinstance(field_value, (Config, list)):
                value = field.to_basic(self, field_value)
            if isinstance(field_value, Config):
                value = field_value.to_tree(""", expect_rule="encoder")
V("C10-verbatim-for-single", "C10", "single-character masks no longer repeated", CORE,
  "                elif len(sensitive_mask) == 1:\n                    value = sensitive_mask * len(str(field_value))\n                else:",
  "                elif len(sensitive_mask) == 0:\n                    value = sensitive_mask * len(str(field_value))\n                else:",
  expect_rule="renders-mask")
V("C10-nonsensitive-masked", "C10", "mask applied to every field, sensitive or not", CORE,
  "                isinstance(field, Field)\n                and field.sensitive\n                and sensitive_mask is not None",
  "                isinstance(field, Field)\n                and sensitive_mask is not None", expect_rule="sensitive-branch")
V("C10-benign-positional", "C10", "mask forwarded positionally", CORE, expect="silent",
  old="""                value = field_value.to_tree(
                    virtual=virtual, sensitive_mask=sensitive_mask
                )""",
  new="                value = field_value.to_tree(virtual, sensitive_mask)")

# ------------------------------------------------------------------------------------------ C12
V("C12-default-not-marked", "C12", "_set_default_value stores without marking", CORE,
  "        self._data[key] = value\n        self._default_value_keys.add(key)", "        self._data[key] = value",
  expect_rule="pairing @ Config._set_default_value")
V("C12-subconfig-not-unmarked", "C12", "sub-config assignment keeps the default mark", CORE,
  "        self._data[key] = value\n        self._default_value_keys.discard(key)\n        return value",
  "        self._data[key] = value\n        return value", expect_rule="pairing @ Config._set_value")
V("C12-setdefault-direct-data", "C12", "ListField.__setdefault__ writes _data directly", LIST,
  "        cfg._set_default_value(self._key, default)", "        cfg._data[self._key] = default", expect_rule="ListField.__setdefault__")
V("C12-default-cached", "C12", "callable default evaluated once and cached on the field", CORE,
  "        return self._default() if callable(self._default) else self._default",
  "        if callable(self._default):\n            self._default = self._default()\n        return self._default",
  expect_rule="default.per-access")
V("C12-raw-default-read", "C12", "DictField.__setdefault__ reads _default (callable never evaluated)", DICT,
  "        default = self.default\n        if isinstance(default, dict):",
  "        default = self._default\n        if isinstance(default, dict):", expect_rule="default.raw-read")
V("C12-ctor-skips-empty-schema", "C12", "constructor skips defaults for some fields", CORE,
  "            if key in data:\n                continue\n\n            field.__setdefault__(self)",
  "            if key in data or isinstance(field, Schema) and not field._fields:\n                continue\n\n            field.__setdefault__(self)",
  expect_rule="ctor.defaults-for-the-rest")
V("C12-defined-wrong-set", "C12", "is_value_defined consults _data instead of the mark set", SUP,
  "    return key not in config._default_value_keys", "    return key in config._data", expect_rule="defined.is-complement")
V("C12-field-not-unmarked", "C12", "accepted field assignment keeps the default mark", CORE,
  "            else:\n                self._default_value_keys.discard(key)\n                return value",
  "            else:\n                return value", expect_rule="pairing @ Field.__setval__")
V("C12-default-then-unmark", "C12", "ChallengeField default reported as user-defined", SEC,
  "            raise TypeError(\"invalid default value: %r\" % self.default)\n        cfg._set_default_value(self._key, val)",
  "            raise TypeError(\"invalid default value: %r\" % self.default)\n        cfg._set_default_value(self._key, val)\n        cfg._default_value_keys.discard(self._key)",
  expect_rule="polarity.default-route")
V("C12-reset-all", "C12", "reset_value resets every field of the sub-configuration", SUP,
  "    field.__setdefault__(config)",
  "    for _, other in config._schema._fields.items():\n        other.__setdefault__(config)", expect_rule="reset.")
V("C12-mark-wrong-key", "C12", "default mark recorded under a different key", CORE,
  "        self._default_value_keys.add(key)", "        self._default_value_keys.add(key.lower())", expect_rule="pairing.same-key")
V("C12-benign-mark-first-param", "C12", "_set_default_value uses update([key])", CORE, expect="silent",
  old="        self._default_value_keys.add(key)", new="        self._default_value_keys.update([key])")

# ------------------------------------------------------------------------------------------ C11
V("C11-load-no-validate", "C11", "load_tree no longer validates", CORE,
  "        if validate:\n            self.validate()\n", "", expect_rule="load_tree.ends-in-validate")
V("C11-loads-validate-off", "C11", "document loads pass validate=False", CORE,
  "        self.load_tree(tree)\n\n    def _process_includes", "        self.load_tree(tree, validate=False)\n\n    def _process_includes",
  expect_rule="loads.validate-on")
V("C11-skip-fields-extended", "C11", "validation skip list extended by Field", CORE,
  "        ignore_types = (IncludeFieldMixin, VirtualFieldMixin, InstanceMethodFieldMixin)",
  "        ignore_types = (IncludeFieldMixin, VirtualFieldMixin, InstanceMethodFieldMixin, ConfigTypeField)",
  expect_rule="schema.")
V("C11-handler-swallows", "C11", "generic handler of Schema._validate swallows field errors", CORE,
  """            except Exception as err:  # pylint: disable=broad-except
                exc = ValidationError(config, field, err)
                if not collect_errors:
                    raise exc from err
                errors.append(exc)

        for validator""",
  """            except Exception as err:  # pylint: disable=broad-except
                exc = ValidationError(config, field, err)
                if collect_errors:
                    errors.append(exc)

        for validator""", expect_rule="handler.")
V("C11-validate_field-no-recursion", "C11", "_validate_field no longer recurses into sub-configs", CORE,
  "        elif isinstance(val, Config):\n            val.validate()", "        elif isinstance(val, ConfigType):\n            val.validate()",
  expect_rule="validate_field.total")
V("C11-required-after-none", "C11", "None short-circuit before the required test", CORE,
  """        if self.required and value is None:
            raise ValueError("value is required")

        if value is None:
            return value
""",
  """        if value is None:
            return value

        if self.required and value is None:
            raise ValueError("value is required")
""", expect_rule="required.before-none")
V("C11-list-required-empty", "C11", "ListField accepts an empty list although required", LIST,
  "        if self.required and not value:\n            raise ValueError(\"value is required\")\n\n        if not self.field",
  "        if not self.field", expect_rule="required.rejects-empty @ ListField._validate")
V("C11-list-item-config-unvalidated", "C11", "Config items appended to a list are not validated", LIST,
  "                value._container = self\n                value.validate()\n", "                value._container = self\n",
  expect_rule="list-items.validated")
V("C11-validators-early-return", "C11", "schema validators skipped when there are field errors", CORE,
  "        for validator in self._validators:\n            try:",
  "        if errors:\n            return errors\n        for validator in self._validators:\n            try:",
  expect_rule="schema.no-early-return")
V("C11-feature-flag-parent", "C11", "feature gate evaluated on the parent configuration", CORE,
  "        if not self._is_feature_enabled(config):\n            return []",
  "        if not self._is_feature_enabled(config._parent or config):\n            return []",
  expect_rule="schema.feature-flag-own")
V("C11-validator-not-registered", "C11", "validator() forgets schema targets", SUP,
  "        elif isinstance(field, Schema):\n            field._validators.append(func)  # type: ignore\n",
  "", expect_rule="register.schema")
V("C11-nested-collects", "C11", "nested validation runs in collecting mode and the result is dropped", CORE,
  "        elif isinstance(val, Config):\n            val.validate()", "        elif isinstance(val, Config):\n            val.validate(collect_errors=True)",
  expect_rule="validate_field.recursion-raises")
V("C11-raise-mode-continues", "C11", "ValidationError handler does not raise in raising mode", CORE,
  """            except ValidationError as err:
                if not collect_errors:
                    raise
                errors.append(err)
            except Exception as err:  # pylint: disable=broad-except
                exc = ValidationError(config, field, err)""",
  """            except ValidationError as err:
                errors.append(err)
            except Exception as err:  # pylint: disable=broad-except
                exc = ValidationError(config, field, err)""", expect_rule="handler.raises-unless-collecting")
V("C11-benign-skip-inline", "C11", "skip tuple inlined into the isinstance call", CORE, expect="silent",
  edits=[(CORE, "            if isinstance(field, ignore_types):\n                continue",
          "            if isinstance(field, (IncludeFieldMixin, VirtualFieldMixin, InstanceMethodFieldMixin)):\n                continue")])

# ------------------------------------------------------------------------------------------ C15
V("C15-setval-outside-try", "C15", "D8 re-introduced: __setval__ outside the wrapping try", CORE,
  """                value = field.validate(self, value)
                field.__setval__(self, value)
            except ValidationError:
                raise
            except Exception as err:
                raise ValidationError(self, field, err) from err
            else:
                self._default_value_keys.discard(key)""",
  """                value = field.validate(self, value)
            except ValidationError:
                raise
            except Exception as err:
                raise ValidationError(self, field, err) from err
            else:
                field.__setval__(self, value)
                self._default_value_keys.discard(key)""", expect_rule="escapes @ Config._set_value")
V("C15-parent-dropped", "C15", "D1 re-introduced: Schema.__call__ drops parent", CORE,
  "        return Config(self, parent, **data)", "        return Config(self, **data)", expect_rule="link.parent", check=["C15", "C02", "C03"])
V("C15-handler-typeerror", "C15", "load_tree converts field failures to TypeError", CORE,
  """                try:
                    value = field.to_python(self, value)
                except ValidationError:
                    raise
                except Exception as err:
                    raise ValidationError(self, field, err) from err""",
  """                try:
                    value = field.to_python(self, value)
                except ValidationError:
                    raise
                except Exception as err:
                    raise TypeError(str(err)) from err""", expect_rule="escapes @ Config.load_tree")
V("C15-load-no-try", "C15", "to_python no longer wrapped in load_tree", CORE,
  """                try:
                    value = field.to_python(self, value)
                except ValidationError:
                    raise
                except Exception as err:
                    raise ValidationError(self, field, err) from err""",
  """                value = field.to_python(self, value)""", expect_rule="escapes @ Config.load_tree")
V("C15-narrow-handler", "C15", "_set_value converts only ValueError", CORE,
  """                field.__setval__(self, value)
            except ValidationError:
                raise
            except Exception as err:""",
  """                field.__setval__(self, value)
            except ValidationError:
                raise
            except ValueError as err:""", expect_rule="escapes @ Config._set_value")
V("C15-wrong-field", "C15", "error built with the schema instead of the failing field", CORE,
  """                field.__setval__(self, value)
            except ValidationError:
                raise
            except Exception as err:
                raise ValidationError(self, field, err) from err""",
  """                field.__setval__(self, value)
            except ValidationError:
                raise
            except Exception as err:
                raise ValidationError(self, self._schema, err) from err""", expect_rule="handler.names-config-and-field")
V("C15-list-item-late-links", "C15", "list item loaded before its parent/container links are set", LIST,
  """                cfg = self.item_field()  # type: ignore
                cfg._container = self
                cfg._key = self.list_field._key
                cfg._parent = self.cfg
                cfg.load_tree(value)  # type: ignore""",
  """                cfg = self.item_field()  # type: ignore
                cfg.load_tree(value)  # type: ignore
                cfg._container = self
                cfg._key = self.list_field._key
                cfg._parent = self.cfg""", expect_rule="link.")
V("C15-dict-no-key", "C15", "dict value errors lose the key", DICT,
  """                "invalid dictionary value: %s" % exc,
                ref_path=self._ref_path(key),
            )""",
  """                "invalid dictionary value: %s" % exc,
            )""", expect_rule="dict.error-carries-key")
V("C15-env-unwrapped", "C15", "invalid environment value surfaces as bare ValueError", CORE,
  """                try:
                    env_value = self.validate(cfg, env_value)
                except ValidationError:
                    raise
                except Exception as exc:
                    raise ValidationError(cfg, self, exc) from exc
                else:
                    value = env_value""",
  """                value = self.validate(cfg, env_value)""", expect_rule="escapes @ Field.__setdefault__")
V("C15-benign-helper-wrap", "C15", "validate+store moved into a helper that is called inside the try", CORE, expect="silent",
  edits=[(CORE, """                value = field.validate(self, value)
                field.__setval__(self, value)
            except ValidationError:""", """                value = self._validate_and_store(field, value)
            except ValidationError:"""),
         (CORE, """    def __setattr__(self, name: str, value: Any) -> Any:
        \"\"\"
        Validate a configuration value and set it.""",
          """    def _validate_and_store(self, field: Field, value: Any) -> Any:
        value = field.validate(self, value)
        field.__setval__(self, value)
        return value

    def __setattr__(self, name: str, value: Any) -> Any:
        \"\"\"
        Validate a configuration value and set it.""")])

# ------------------------------------------------------------------------------------------ C02
V("C02-list-no-decode", "C02", "D2 re-introduced: ListField.to_python does not decode items", LIST,
  "        if isinstance(self.field, Field) and isinstance(value, (list, tuple)):\n            value = [self.field.to_python(cfg, item) for item in value]\n",
  "", expect_rule="agree.container-codec @ ListField.to_python", check=["C02", "C05"])
V("C02-dict-value-no-decode", "C02", "DictField.to_python decodes keys only", DICT,
  "                self.key_field.to_python(cfg, key): self.value_field.to_python(cfg, val)  # type: ignore",
  "                self.key_field.to_python(cfg, key): val  # type: ignore",
  expect_rule="agree.container-codec @ DictField.to_python", check=["C02", "C05"])
V("C02-instance-methods-in-tree", "C02", "explicit instance-method skip removed: still unreachable (methods hold no value and are not virtual)", CORE,
  "            if isinstance(field, InstanceMethodFieldMixin):\n                continue\n\n            field_value",
  "            field_value", expect="silent", note="the path-based predecessor of tree.no-instance-methods reported this behaviour-preserving edit")
V("C02-instance-methods-as-virtual", "C02", "instance methods emitted when virtual output is requested", CORE,
  "            is_virtual = virtual and isinstance(field, VirtualFieldMixin)",
  "            is_virtual = virtual and isinstance(field, (VirtualFieldMixin, InstanceMethodFieldMixin))\n            if is_virtual and isinstance(field, InstanceMethodFieldMixin):\n                tree[key] = None\n                continue",
  expect_rule="tree.no-instance-methods")
V("C02-virtual-always", "C02", "virtual fields emitted without being asked for", CORE,
  "            is_virtual = virtual and isinstance(field, VirtualFieldMixin)",
  "            is_virtual = isinstance(field, VirtualFieldMixin)", expect_rule="tree.virtual-on-request")
V("C02-raw-value-in-tree", "C02", "non-Field values stored raw in the tree", CORE,
  "            field_value = field.__getval__(self)\n            value: Any = None",
  "            field_value = field.__getval__(self)\n            value: Any = field_value", expect_rule="tree.no-raw-values")
V("C02-load-skips-to_python", "C02", "load_tree stores undecoded values for required fields", CORE,
  """                try:
                    value = field.to_python(self, value)
                except ValidationError:""",
  """                try:
                    if not field.required:
                        value = field.to_python(self, value)
                except ValidationError:""", expect_rule="load.decode-before-store")
V("C02-save-text-mode", "C02", "save opens the destination in text mode", CORE,
  "        with open(filename, \"wb\") as file:\n            file.write(content)",
  "        with open(filename, \"w\") as file:\n            file.write(content)", expect_rule="glue.binary-save")
V("C02-load-no-expanduser", "C02", "load does not expand ~ (save does)", CORE,
  "        filename = os.path.expanduser(filename)\n        with open(filename, \"rb\") as file:",
  "        with open(filename, \"rb\") as file:", expect_rule="glue.expanduser-load")
V("C02-dumps-drops-virtual", "C02", "dumps does not forward virtual to to_tree", CORE,
  "            self, self.to_tree(virtual=virtual, sensitive_mask=sensitive_mask)",
  "            self, self.to_tree(sensitive_mask=sensitive_mask)", expect_rule="glue.dumps")
V("C02-loads-skips-includes", "C02", "loads feeds the raw parsed tree to load_tree", CORE,
  "        tree = self._process_includes(self._schema, tree, format_factory)\n\n        self.load_tree(tree)",
  "        self._process_includes(self._schema, tree, format_factory)\n\n        self.load_tree(tree)", expect_rule="glue.loads")
V("C02-benign-loop-decode", "C02", "ListField.to_python decodes in an explicit loop", LIST, expect="silent",
  old="            value = [self.field.to_python(cfg, item) for item in value]\n",
  new="            decoded = []\n            for item in value:\n                decoded.append(self.field.to_python(cfg, item))\n            value = decoded\n")

# ------------------------------------------------------------------------------------------ C03
V("C03-cache-parent-keyfile", "C03", "D3 re-introduced: inherited key file cached in the child", CORE,
  "                return self._parent._keyfile\n            self.__keyfile = KeyFile(Config.DEFAULT_CINCOKEY_FILEPATH)",
  "                self.__keyfile = self._parent._keyfile\n                return self.__keyfile\n            self.__keyfile = KeyFile(Config.DEFAULT_CINCOKEY_FILEPATH)",
  expect_rule="keyfile.inherit-by-lookup")
V("C03-field-method-recorded", "C03", "to_basic records the field's method ('best') instead of the resolved one", SEC,
  "            \"method\": secret.method,", "            \"method\": self.method,", expect_rule="method.recorded-from-result")
V("C03-get-provider-best", "C03", "_get_provider returns the requested name for 'best'", ENC,
  "            return XorProvider(self.__key), \"xor\"", "            return XorProvider(self.__key), method", expect_rule="method.concrete")
V("C03-own-keyfile-in-field", "C03", "SecureField builds its own default KeyFile", SEC,
  "        with cfg._keyfile as ctx:\n            secret = ctx.encrypt(value, method=self.method)",
  "        from ..encryption import KeyFile\n        with KeyFile(cfg.DEFAULT_CINCOKEY_FILEPATH) as ctx:\n            secret = ctx.encrypt(value, method=self.method)",
  expect_rule="keyfile.")
V("C03-plaintext-fallback", "C03", "to_basic falls back to base64 of the plaintext when encryption fails", SEC,
  "        with cfg._keyfile as ctx:\n            secret = ctx.encrypt(value, method=self.method)\n\n        return {",
  "        try:\n            with cfg._keyfile as ctx:\n                secret = ctx.encrypt(value, method=self.method)\n        except Exception:\n            return {\"method\": \"plain\", \"ciphertext\": base64.b64encode(value.encode()).decode()}\n\n        return {",
  expect_rule="taint.plaintext")
V("C03-default-before-parent", "C03", "default key file preferred over the parent's", CORE,
  "            if self._parent:\n                # This will bubble up to the root config\n                return self._parent._keyfile\n            self.__keyfile = KeyFile(Config.DEFAULT_CINCOKEY_FILEPATH)",
  "            self.__keyfile = KeyFile(Config.DEFAULT_CINCOKEY_FILEPATH)", expect_rule="keyfile.")
V("C03-encrypt-records-param", "C03", "KeyFile.encrypt records the requested method", ENC,
  "        provider, method = self._get_provider(method)\n        ciphertext = provider.encrypt(bindata)",
  "        provider, _ = self._get_provider(method)\n        ciphertext = provider.encrypt(bindata)", expect_rule="method.encrypt-uses-resolved")
V("C03-root-keyfile-in-field", "C03", "to_python decrypts with the root's key file only", SEC,
  "                with cfg._keyfile as ctx:\n                    text = ctx.decrypt",
  "                root = cfg\n                while root._parent:\n                    root = root._parent\n                with root._keyfile as ctx:\n                    text = ctx.decrypt",
  expect_rule="keyfile.of-given-config")

# ------------------------------------------------------------------------------------------ C07
V("C07-keep-malformed", "C07", "D4 re-introduced: malformed key content kept after the rejection", ENC,
  """            try:
                self._validate_key()
            except EncryptionError:
                # never keep the content of a malformed key file
                self.__key = None
                raise
""", "            self._validate_key()\n", expect_rule="typestate.no-unvalidated-retained")
V("C07-no-validate", "C07", "loaded key never validated", ENC,
  """            try:
                self._validate_key()
            except EncryptionError:
                # never keep the content of a malformed key file
                self.__key = None
                raise
""", "            pass\n", expect_rule="typestate.validated-on-return")
V("C07-guard-removed", "C07", "encrypt no longer checks that the key file is open", ENC,
  "        if not self.__key:\n            raise TypeError(\"key file is not open\")\n\n        bindata =",
  "        bindata =", expect_rule="guard.key-loaded @ KeyFile.encrypt")
V("C07-exit-no-clear", "C07", "__exit__ keeps the key", ENC,
  "        if self.__refcount == 0:\n            self.__key = None\n", "", expect_rule="exit.clears-at-zero")
V("C07-exit-clear-wrong-count", "C07", "__exit__ clears at count 1", ENC,
  "        if self.__refcount == 0:", "        if self.__refcount == 1:", expect_rule="exit.clears-at-zero")
V("C07-two-urandoms", "C07", "the key written differs from the key returned", ENC,
  "            fp.write(key)\n        return key", "            fp.write(os.urandom(32))\n        return key",
  expect_rule="generated-is-written-is-returned")
V("C07-key-truncated", "C07", "AES uses only the first 16 bytes of the key", ENC,
  "        cipher = Cipher(\n            algorithms.AES(self.__key), modes.CBC(iv), backend=default_backend()\n        )\n        encryptor",
  "        cipher = Cipher(\n            algorithms.AES(self.__key[:16]), modes.CBC(iv), backend=default_backend()\n        )\n        encryptor",
  expect_rule="verbatim.provider-uses-whole-key", check=["C07", "C08"])
V("C07-read-stripped", "C07", "key file content stripped before use", ENC,
  "                self.__key = fp.read()", "                self.__key = fp.read().strip()", expect_rule="verbatim.read-to-slot")
V("C07-regenerate-on-invalid", "C07", "an invalid key file is silently overwritten by a new key", ENC,
  """            try:
                self._validate_key()
            except EncryptionError:
                # never keep the content of a malformed key file
                self.__key = None
                raise
""", """            try:
                self._validate_key()
            except EncryptionError:
                self.__key = self.__generate_key()
""", expect_rule="generator.callers")
V("C07-enter-count-first", "C07", "__enter__ counts itself before loading (failure leaks a count)", ENC,
  "        if not self.__key:\n            self.__load_key()\n\n        self.__refcount += 1\n        return self",
  "        self.__refcount += 1\n        if not self.__key:\n            self.__load_key()\n\n        return self",
  expect_rule="enter.no-count-on-failure")
V("C07-key-cached-attr", "C07", "key copied into an extra attribute that __exit__ does not clear", ENC,
  "        self.__refcount += 1\n        return self", "        self.__refcount += 1\n        self._last_key = self.__key\n        return self",
  expect_rule="census.attributes")
V("C07-generated-16", "C07", "generator writes 16 bytes (validator demands 32)", ENC,
  "        key = os.urandom(32)", "        key = os.urandom(16)", expect_rule="generated-length")
V("C07-public-key-getter", "C07", "generate_key hands the key back", ENC,
  "        self.__generate_key()\n\n    def _validate_key", "        return self.__generate_key()\n\n    def _validate_key",
  expect_rule="census.no-key-returned")
V("C07-benign-local-then-store", "C07", "read into a local, validate length, then store", ENC, expect="silent",
  old="""            with open(filename, "rb") as fp:
                self.__key = fp.read()""",
  new="""            with open(filename, "rb") as fp:
                content = fp.read()
            self.__key = content""")

# ------------------------------------------------------------------------------------------ C08
V("C08-iv-constant", "C08", "IV taken from a module constant", ENC,
  "        iv = os.urandom(16)\n        cipher = Cipher(", "        iv = _STATIC_IV\n        cipher = Cipher(", expect_rule="iv.fresh")
V("C08-iv-attribute", "C08", "IV generated once per provider object", ENC, edits=[
    (ENC, "        self.__key = key\n\n    def decrypt(self, ciphertext: bytes) -> bytes:\n        \"\"\"\n        :returns: the plaintext value",
     "        self.__key = key\n        self._iv = os.urandom(16)\n\n    def decrypt(self, ciphertext: bytes) -> bytes:\n        \"\"\"\n        :returns: the plaintext value"),
    (ENC, "        iv = os.urandom(16)\n        cipher = Cipher(", "        iv = self._iv\n        cipher = Cipher(")], expect_rule="iv.fresh")
V("C08-iv-not-prepended", "C08", "IV not stored with the ciphertext", ENC,
  "        return iv + encryptor.update(padded) + encryptor.finalize()", "        return encryptor.update(padded) + encryptor.finalize()",
  expect_rule="iv.prepended")
V("C08-split-12", "C08", "decrypt splits the IV at 12 bytes", ENC,
  "        iv = ciphertext[:16]\n        ciphertext = ciphertext[16:]", "        iv = ciphertext[:12]\n        ciphertext = ciphertext[12:]", expect_rule="iv.split")
V("C08-guard-weak", "C08", "length guard accepts 16..31 bytes", ENC,
  "        if not ciphertext or len(ciphertext) < 32:", "        if not ciphertext or len(ciphertext) < 16:", expect_rule="reject.short-ciphertext")
V("C08-padding-64", "C08", "encrypt pads to 64-bit blocks, decrypt unpads 128", ENC,
  "        padder = padding.PKCS7(128).padder()", "        padder = padding.PKCS7(64).padder()", expect_rule="agree.")
V("C08-xor-decrypt-identity", "C08", "XOR decrypt returns its input", ENC,
  "        return self.encrypt(ciphertext)", "        return ciphertext", expect_rule="xor.decrypt-is-encrypt")
V("C08-xor-short-stream", "C08", "XOR only covers the first len(key) bytes", ENC,
  "        for i, c in zip(range(len(buff)), cycle(self.__key)):", "        for i, c in zip(range(len(buff)), self.__key):", expect_rule="xor.keystream")
V("C08-unknown-method-xor", "C08", "unknown methods silently fall back to xor", ENC,
  "        if method in (\"xor\", \"best\"):\n            return XorProvider(self.__key), \"xor\"\n        raise TypeError(\"invalid encryption method: %s\" % method)",
  "        return XorProvider(self.__key), \"xor\"", expect_rule="reject.unknown-method")
V("C08-to_python-falls-through", "C08", "malformed stored secret yields None", SEC,
  "        raise ValueError(\"invalid encrypted value\")", "        return None", expect_rule="reject.")
V("C08-no-finalize", "C08", "encrypt forgets to finalise the cipher", ENC,
  "        return iv + encryptor.update(padded) + encryptor.finalize()", "        return iv + encryptor.update(padded)", expect_rule="agree.finalize")
V("C08-benign-named-const", "C08", "IV size hoisted into a module constant", ENC, expect="silent", edits=[
    (ENC, "SecureValue = NamedTuple(", "IV_SIZE = 16\n\nSecureValue = NamedTuple("),
    (ENC, "        iv = os.urandom(16)", "        iv = os.urandom(IV_SIZE)"),
    (ENC, "        iv = ciphertext[:16]\n        ciphertext = ciphertext[16:]", "        iv = ciphertext[:IV_SIZE]\n        ciphertext = ciphertext[IV_SIZE:]")])

# ------------------------------------------------------------------------------------------ C09
V("C09-fixed-salt", "C09", "_validate hashes with a constant salt", SEC,
  "            val = self._hash(value)\n        elif isinstance(value, DigestValue):",
  "            val = self._hash(value, salt=b\"\\0\" * 64)\n        elif isinstance(value, DigestValue):", expect_rule="salt.not-supplied")
V("C09-to_python-plaintext", "C09", "to_python keeps a plaintext string as is", SEC,
  "        if isinstance(value, str):\n            return self._hash(value)\n\n        raise ValueError(\"invalid salt-digest tuple\")",
  "        if isinstance(value, str):\n            return value\n\n        raise ValueError(\"invalid salt-digest tuple\")", expect_rule="returns.digest-only")
V("C09-challenge-swapped", "C09", "challenge hashes plaintext + salt", SEC,
  "        challenge = self.algorithm(self.salt + plaintext).digest()", "        challenge = self.algorithm(plaintext + self.salt).digest()",
  expect_rule="hash-input.agree")
V("C09-salt-size-fixed", "C09", "random salt of 8 bytes regardless of the digest", SEC,
  "            salt = os.urandom(hasher.digest_size)", "            salt = os.urandom(8)", expect_rule="salt.fresh")
V("C09-salt-not-hashed", "C09", "the digest ignores the salt", SEC,
  "        hasher.update(salt + plaintext)", "        hasher.update(plaintext)", expect_rule="hash-input")
V("C09-plaintext-in-value", "C09", "DigestValue keeps the plaintext as 'digest'", SEC,
  "        return DigestValue(salt, hasher.digest(), algorithm)", "        return DigestValue(salt, plaintext, algorithm)", expect_rule="taint.plaintext-not-in-digest-value")
V("C09-codec-keys", "C09", "to_basic writes 'hash' but to_python reads 'digest'", SEC,
  "            \"digest\": base64.b64encode(value.digest).decode(),", "            \"hash\": base64.b64encode(value.digest).decode(),", expect_rule="codec.")
V("C09-codec-swapped", "C09", "salt and digest swapped when re-building the value", SEC,
  "            return DigestValue(salt, digest, self.algorithm)", "            return DigestValue(digest, salt, self.algorithm)", expect_rule="codec.component-order")
V("C09-challenge-no-raise", "C09", "challenge never fails", SEC,
  "        if self.digest != challenge:\n            raise ValueError(\"challenge failed\")", "        if self.digest != challenge and not challenge:\n            raise ValueError(\"challenge failed\")",
  expect="limit", note="value-level weakening of the comparison (extra conjunct): out of reach of the structural rule")
V("C09-challenge-inverted", "C09", "challenge raises on a match", SEC,
  "        if self.digest != challenge:", "        if self.digest == challenge:", expect_rule="challenge.raises-on-mismatch")
V("C09-algorithm-table", "C09", "sha256 mapped to sha1", SEC,
  "        \"sha256\": hashlib.sha256,", "        \"sha256\": hashlib.sha1,", expect_rule="algorithms.table")
V("C09-default-plain", "C09", "plaintext default stored unhashed", SEC,
  "            val = DigestValue.create(self.default, self.algorithm)", "            val = self.default", expect_rule="default.hashed")
V("C09-encoding-differs", "C09", "challenge encodes text as latin-1", SEC,
  "            plaintext = plaintext.encode()\n\n        challenge =", "            plaintext = plaintext.encode(\"latin-1\")\n\n        challenge =",
  expect_rule="hash-input.encoding")

# ------------------------------------------------------------------------------------------ C05
V("C05-max-truthiness", "C05", "NumberField max guarded by truthiness (max=0 ignored)", NUM,
  "        if self.max is not None and num > self.max:", "        if self.max and num > self.max:", expect_rule="bound.none-guard")
V("C05-prefix-truthiness", "C05", "D6 re-introduced", NET,
  "        if self.max_prefix_len is not None and net.prefixlen > self.max_prefix_len:", "        if self.max_prefix_len and net.prefixlen > self.max_prefix_len:",
  expect_rule="bound.none-guard")
V("C05-min-exclusive", "C05", "min bound becomes exclusive", NUM,
  "        if self.min is not None and num < self.min:", "        if self.min is not None and num <= self.min:", expect_rule="bound.strict-comparator")
V("C05-maxlen-exclusive", "C05", "max_len bound becomes exclusive", STR,
  "        if self.max_len is not None and len(value) > self.max_len:", "        if self.max_len is not None and len(value) >= self.max_len:",
  expect_rule="bound.strict-comparator")
V("C05-strip-after-len", "C05", "strip applied after the length checks", STR, edits=[
    (STR, """        if self.transform_strip:
            if isinstance(self.transform_strip, str):
                value = value.strip(self.transform_strip)
            else:
                value = value.strip()

        if self.required and not value:""", """        if self.required and not value:"""),
    (STR, """        if self.regex and not self.regex.match(value):""", """        if self.transform_strip:
            if isinstance(self.transform_strip, str):
                value = value.strip(self.transform_strip)
            else:
                value = value.strip()

        if self.regex and not self.regex.match(value):""")], expect_rule="order.normalise-then-check")
V("C05-case-after-choices", "C05", "case folding applied after the choices check", STR, edits=[
    (STR, """        if self.transform_case:
            value = value.lower() if self.transform_case == "lower" else value.upper()

""", ""),
    (STR, """            raise ValueError("value is not a valid choice" + postfix)

        return value""", """            raise ValueError("value is not a valid choice" + postfix)

        if self.transform_case:
            value = value.lower() if self.transform_case == "lower" else value.upper()

        return value""")], expect_rule="order.normalise-then-check")
V("C05-hex-read-as-b64", "C05", "hex written, base64 read", BYTES,
  "                ret = bytes.fromhex(value)", "                ret = base64.b64decode(value)", expect_rule="codec.bytes.inverse-pair")
V("C05-bool-accepts-as-number", "C05", "NumberField accepts bool", NUM,
  "        if not isinstance(value, (str, int, float, self.type_cls)) or isinstance(\n            value, bool\n        ):",
  "        if not isinstance(value, (str, int, float, self.type_cls)):", expect_rule="number.rejects-bool")
V("C05-bounds-on-input", "C05", "bounds compared with the unconverted input", NUM,
  "        if self.min is not None and num < self.min:", "        if self.min is not None and not isinstance(value, str) and value < self.min:",
  expect_rule="number.bounds-on-converted")
V("C05-bool-token-overlap", "C05", "'0' also listed as a true token", BOOL,
  "    TRUE_VALUES = (\"t\", \"true\", \"1\", \"on\", \"yes\", \"y\")", "    TRUE_VALUES = (\"t\", \"true\", \"1\", \"0\", \"on\", \"yes\", \"y\")",
  expect_rule="bool.tables-disjoint")
V("C05-bytes-returns-str", "C05", "BytesField returns text for bytes input (rejected when validated again? no: str accepted) -- returns hex text", BYTES,
  "        if isinstance(value, bytes):\n            return value\n", "        if isinstance(value, bytes):\n            return bytearray(value)\n",
  expect_rule="idempotence.accepts-own-result")
V("C05-port-zero", "C05", "PortField allows port 0", NET,
  "        kwargs.setdefault(\"min\", 1)", "        kwargs.setdefault(\"min\", 0)", expect_rule="port.range")
V("C05-benign-reversed-compare", "C05", "bound comparison written with swapped operands", NUM, expect="silent",
  old="        if self.max is not None and num > self.max:", new="        if self.max is not None and self.max < num:")
V("C05-benign-is-none-form", "C05", "guard written as `not (x is None)`", NUM, expect="silent",
  old="        if self.min is not None and num < self.min:", new="        if not (self.min is None) and num < self.min:")

# ------------------------------------------------------------------------------------------ C04
V("C04-int-before-bool", "C04", "int branch before bool in the XML writer", XML,
  """        elif isinstance(value, bool):
            ele.attrib["type"] = "bool"
            ele.text = "true" if value else "false"
        elif isinstance(value, int):
            ele.attrib["type"] = "int"
            ele.text = str(value)""",
  """        elif isinstance(value, int):
            ele.attrib["type"] = "int"
            ele.text = str(value)
        elif isinstance(value, bool):
            ele.attrib["type"] = "bool"
            ele.text = "true" if value else "false\"""", expect_rule="dispatch.subclass-first")
V("C04-tag-renamed-one-side", "C04", "writer tags floats 'double', reader still expects 'float'", XML,
  "            ele.attrib[\"type\"] = \"float\"", "            ele.attrib[\"type\"] = \"double\"", expect_rule="xml.tags-agree")
V("C04-bool-branch-removed-both", "C04", "bool branch removed on both sides", XML, edits=[
    (XML, "        elif isinstance(value, bool):\n            ele.attrib[\"type\"] = \"bool\"\n            ele.text = \"true\" if value else \"false\"\n", ""),
    (XML, """        elif py_type == "bool":
            if text.lower() in BoolField.TRUE_VALUES:
                value = True
            elif text.lower() in BoolField.FALSE_VALUES:
                value = False
            else:
                value = text
""", "")], expect_rule="dispatch.subclass-first")
V("C04-reader-int-as-text", "C04", "reader keeps int elements as text", XML,
  "            try:\n                value = int(text)\n            except:  # noqa: E722\n                value = text", "            value = text",
  expect_rule="xml.tags-agree")
V("C04-root-check-removed", "C04", "wrong root tag accepted", XML,
  "        if root.tag != self.root_tag:\n            raise ValueError(\"unexpected root tag: %s\" % root.tag)\n\n", "", expect_rule="xml.root-tag-checked")
V("C04-yaml-unwrap-only", "C04", "YAML dumps no longer wraps under root_key", YAML,
  "        if self.root_key:\n            tree = {self.root_key: tree}\n", "", expect_rule="yaml.root-key-symmetric")
V("C04-yaml-mismatched-loader", "C04", "yaml.Dumper paired with SafeLoader", YAML,
  "Loader=yaml.Loader", "Loader=yaml.SafeLoader", expect_rule="wrapper.yaml-dumper-loader")
V("C04-registry-missing", "C04", "pickle format dropped from the registry", FMT,
  "    (\"pickle\", PickleConfigFormat),\n", "", expect_rule="registry.")
V("C04-registry-duplicate-name", "C04", "xml registered under the name 'json'", FMT,
  "    (\"xml\", XmlConfigFormat),", "    (\"json\", XmlConfigFormat),", expect_rule="registry.")
V("C04-json-compact-loads-differs", "C04", "JSON loads depends on the pretty option", JSON,
  "        return json.loads(content.decode())", "        return json.loads(content.decode()) if self.pretty else json.loads(content.decode(), parse_int=str)",
  expect_rule="wrapper.options-dont-change-decoding")
V("C04-bool-literals", "C04", "XML writes True/False as 'T'/'F'", XML,
  "            ele.text = \"true\" if value else \"false\"", "            ele.text = \"T\" if value else \"F\"", expect="silent",
  note="'t'/'f' are tokens of the tables after lower(): still accepted")
V("C04-bool-literals-bad", "C04", "XML writes booleans as 'yes!'/'nope'", XML,
  "            ele.text = \"true\" if value else \"false\"", "            ele.text = \"yes!\" if value else \"nope\"", expect_rule="xml.bool-literals")
V("C04-none-as-str", "C04", "None written as an empty string element", XML,
  "        elif value is None:\n            ele.attrib[\"type\"] = \"none\"", "        elif value is None:\n            ele.attrib[\"type\"] = \"str\"",
  expect_rule="xml.")
V("C04-benign-elif-order", "C04", "list/dict branches swapped in the writer", XML, expect="silent",
  old="""        elif isinstance(value, list):
            ele.attrib["type"] = "list"
            for item in value:
                sub = self._to_element("item", item)
                ele.append(sub)
        elif isinstance(value, dict):
            ele.attrib["type"] = "dict"
            for subkey, subval in value.items():
                sub = self._to_element(subkey, subval)
                ele.append(sub)""",
  new="""        elif isinstance(value, dict):
            ele.attrib["type"] = "dict"
            for subkey, subval in value.items():
                sub = self._to_element(subkey, subval)
                ele.append(sub)
        elif isinstance(value, list):
            ele.attrib["type"] = "list"
            for item in value:
                sub = self._to_element("item", item)
                ele.append(sub)""")

# ------------------------------------------------------------------------------------------ C17
V("C17-setdefault-drops-result", "C17", "D12 re-introduced", DICT,
  "    def setdefault(self, key: Any, value: Any = None) -> Any:\n        key, value = self._validate(key, value)\n        return super().setdefault(key, value)",
  "    def setdefault(self, key: Any, value: Any) -> None:\n        key, value = self._validate(key, value)\n        super().setdefault(key, value)",
  expect_rule="DictProxy.setdefault")
V("C17-setitem-silent", "C17", "D13 re-introduced: __setitem__ ignores unknown index types", LIST,
  "        if isinstance(index, slice):\n            super().__setitem__(index, [self._validate(i) for i in item])\n        else:\n            super().__setitem__(index, self._validate(item))",
  "        if isinstance(index, slice) and isinstance(item, (list, tuple)):\n            super().__setitem__(index, [self._validate(i) for i in item])\n        elif isinstance(index, int):\n            super().__setitem__(index, self._validate(item))",
  expect_rule="mutator.delegates @ ListProxy.__setitem__")
V("C17-update-deleted", "C17", "DictProxy.update removed (inherits dict.update)", DICT,
  """    def update(self, iterable: Optional[KeyValuePairs] = None, **kwargs) -> None:
        if iterable:
            if isinstance(iterable, DictProxy) and self._is_compatible_proxy(iterable):
                for key, value in iterable.items():
                    super().__setitem__(key, value)
            else:
                super().update(
                    [
                        self._validate(key, value)
                        for key, value in _iterate_dict_like(iterable)
                    ]
                )

        for key, value in kwargs.items():
            self.__setitem__(key, value)

""", "", expect_rule="override @ DictProxy", accept_analysis_error=True)
V("C17-copy-plain", "C17", "DictProxy.copy returns a plain dict", DICT,
  "        return DictProxy(self.cfg, self.dict_field, self)", "        return dict(self)", expect_rule="result.proxy @ DictProxy.copy")
V("C17-iadd-none", "C17", "ListProxy.__iadd__ forgets to return self", LIST,
  "        self.extend(iterable)\n        return self", "        self.extend(iterable)", expect_rule="result.self @ ListProxy.__iadd__")
V("C17-add-plain", "C17", "ListProxy.__add__ returns a plain list", LIST,
  "        ret = self.copy()\n        ret.extend(iterable)\n        return ret", "        return list(self) + [self._validate(i) for i in iterable]",
  expect_rule="result.proxy @ ListProxy.__add__")
V("C17-update-no-kwargs", "C17", "DictProxy.update loses keyword support", DICT,
  "    def update(self, iterable: Optional[KeyValuePairs] = None, **kwargs) -> None:", "    def update(self, iterable: Optional[KeyValuePairs] = None, kwargs=()) -> None:",
  expect_rule="arity @ DictProxy.update", accept_analysis_error=True)
V("C17-extend-only-lists", "C17", "extend silently ignores non-list iterables", LIST,
  "        else:\n            super().extend(self._validate(item) for item in iterable)", "        elif isinstance(iterable, (list, tuple)):\n            super().extend(self._validate(item) for item in iterable)",
  expect_rule="mutator.delegates @ ListProxy.extend")
V("C17-ior-none", "C17", "DictProxy.__ior__ returns None", DICT,
  "        self.update(other)\n        return self", "        self.update(other)", expect_rule="result.self @ DictProxy.__ior__")
V("C17-benign-setitem-rewrite", "C17", "__setitem__ with early return instead of else", LIST, expect="silent",
  old="        if isinstance(index, slice):\n            super().__setitem__(index, [self._validate(i) for i in item])\n        else:\n            super().__setitem__(index, self._validate(item))",
  new="        if isinstance(index, slice):\n            super().__setitem__(index, [self._validate(i) for i in item])\n            return\n        super().__setitem__(index, self._validate(item))")

# ------------------------------------------------------------------------------------------ C13
V("C13-list-default-shared", "C13", "untyped ListField stores the declared default object itself", LIST,
  "            default = copy_basic_value(default)\n            if self.field:\n                default = ListProxy(cfg, self, default)\n",
  "            if self.field:\n                default = ListProxy(cfg, self, copy_basic_value(default))\n", expect_rule="default.fresh @ ListField.__setdefault__")
V("C13-dict-default-shared", "C13", "DictField without proxy stores the declared default object itself", DICT,
  "            default = copy_basic_value(default)\n            if self._use_proxy:\n                default = DictProxy(cfg, self, default)\n",
  "            if self._use_proxy:\n                default = DictProxy(cfg, self, copy_basic_value(default))\n", expect_rule="default.fresh @ DictField.__setdefault__")
V("C13-to_tree-no-copy", "C13", "to_tree merges dynamic fields into the schema's own table", CORE,
  "        fields: Dict[str, BaseField] = dict(self._schema._fields)", "        fields: Dict[str, BaseField] = self._schema._fields",
  expect_rule="schema-fields.single-owner")
V("C13-dynamic-field-on-schema", "C13", "dynamic fields registered on the schema", CORE,
  "            field = self._fields[key] = AnyField()", "            field = self._schema._fields[key] = AnyField()", expect_rule="schema-fields.single-owner")
V("C13-field-remembers-last", "C13", "StringField remembers the last validated value", STR,
  "            raise ValueError(\"value is not a valid choice\" + postfix)\n\n        return value",
  "            raise ValueError(\"value is not a valid choice\" + postfix)\n\n        self.last_value = value\n        return value",
  expect_rule="field.stateless @ StringField._validate")
V("C13-field-counts-in-helper", "C13", "field state written through a helper called at run time", NUM, edits=[
    (NUM, "        return num\n", "        self._note(num)\n        return num\n\n    def _note(self, num):\n        self.seen = num\n")],
  expect_rule="field.stateless")
V("C13-choices-appended", "C13", "LogLevelField appends unknown levels to its choices", STR,
  "        if self.choices and value not in self.choices:\n            if len(self.choices) < 6:",
  "        if self.choices and value not in self.choices and value.startswith(\"x-\"):\n            self.choices.append(value)\n        if self.choices and value not in self.choices:\n            if len(self.choices) < 6:",
  expect_rule="field.stateless")
V("C13-runtime-getattr-on-schema", "C13", "get_fields reads an attribute off the Schema (creates a field)", SUP,
  "    fields = list(schema._fields.items())\n    if isinstance(schema, Config):",
  "    fields = list(schema._fields.items())\n    if isinstance(schema, Schema) and schema.hidden:\n        return []\n    if isinstance(schema, Config):",
  expect_rule="schema.no-creating-accessor-at-runtime")
V("C13-validators-appended-at-runtime", "C13", "a run-time method registers a validator on the schema", CORE,
  "        if not self._is_feature_enabled(config):\n            return []",
  "        if not self._is_feature_enabled(config):\n            self._validators.append(lambda cfg: None)\n            return []",
  expect_rule="field.stateless")
V("C13-benign-proxy-default", "C13", "ListField default wrapped by list() before the proxy", LIST, expect="silent",
  old="                default = ListProxy(cfg, self, default)", new="                default = ListProxy(cfg, self, list(default))")

# ------------------------------------------------------------------------------------------ C14
V("C14-no-skip", "C14", "load_tree no longer skips keys whose variable is set", CORE,
  """                if (
                    isinstance(field.env, str)
                    and field.env
                    and os.environ.get(field.env)
                ):
                    continue

""", "", expect_rule="skip.exists")
V("C14-skip-when-declared", "C14", "load_tree skips whenever a variable name is declared (even unset)", CORE,
  "                    and field.env\n                    and os.environ.get(field.env)\n                ):", "                    and field.env\n                    and os.environ.get(field.env) is not None\n                ):",
  expect_rule="skip.")
V("C14-env-raw", "C14", "environment value applied without validation", CORE,
  """                try:
                    env_value = self.validate(cfg, env_value)
                except ValidationError:
                    raise
                except Exception as exc:
                    raise ValidationError(cfg, self, exc) from exc
                else:
                    value = env_value""", "                value = env_value", expect_rule="env.validated-value-applied")
V("C14-default-overrides-env", "C14", "declared default overwrites the environment value", CORE,
  "        if value is None:\n            value = self.default\n\n        cfg._set_default_value(self._key, value)",
  "        if self.default is not None:\n            value = self.default\n\n        cfg._set_default_value(self._key, value)",
  expect_rule="env.default-only-without-variable")
V("C14-set_value-reads-env", "C14", "assignment consults the environment", CORE,
  "            try:\n                value = field.validate(self, value)\n                field.__setval__(self, value)",
  "            try:\n                if isinstance(field.env, str) and os.environ.get(field.env):\n                    value = os.environ.get(field.env)\n                value = field.validate(self, value)\n                field.__setval__(self, value)",
  expect_rule="env-read.sites")
V("C14-validate-reads-env", "C14", "StringField._validate substitutes a variable", STR,
  "        if not isinstance(value, str):\n            raise ValueError(\"value must be a string, not a %s\" % type(value).__name__)\n\n",
  "        if not isinstance(value, str):\n            raise ValueError(\"value must be a string, not a %s\" % type(value).__name__)\n        import os\n        value = os.environ.get(\"OVERRIDE_\" + self._key.upper()) or value\n\n",
  expect_rule="env-read.sites")
V("C14-bytes-setdefault-no-env", "C14", "a new __setdefault__ override (BytesField) bypasses the env route", BYTES,
  "    def _validate(self, cfg: Config, value: Any) -> bytes:\n        if isinstance(value, str):",
  "    def __setdefault__(self, cfg: Config) -> None:\n        cfg._set_default_value(self._key, self.default)\n\n    def _validate(self, cfg: Config, value: Any) -> bytes:\n        if isinstance(value, str):",
  expect_rule="sibling @ BytesField.__setdefault__")
V("C14-optout-ignored", "C14", "env=False no longer opts out", CORE,
  "        if self.env is False:\n            return\n\n        if self.env is True or (", "        if self.env is True or self.env is False or (", expect_rule="name.opt-out")
V("C14-name-lowercase", "C14", "derived variable name not upper-cased", CORE,
  "            self.env = prefix + self._key.upper()", "            self.env = prefix + self._key", expect_rule="name.shape")
V("C14-benign-guard-helper-var", "C14", "env value bound to a local before the skip test", CORE, expect="silent",
  old="""                if (
                    isinstance(field.env, str)
                    and field.env
                    and os.environ.get(field.env)
                ):
                    continue""",
  new="""                if isinstance(field.env, str) and field.env and os.environ.get(field.env):
                    continue""")

# ------------------------------------------------------------------------------------------ C16
V("C16-bool-default-removed", "C16", "D10 re-introduced: on switch defaults to False", SUP,
  "                action=\"store_true\",\n                default=None,", "                action=\"store_true\",", expect_rule="parser.default-is-absent-sentinel")
V("C16-dest-is-arg", "C16", "dest is the option string instead of the path", SUP,
  "                arg, action=\"store\", dest=name, help=field.short_help, metavar=metavar", "                arg, action=\"store\", dest=arg, help=field.short_help, metavar=metavar",
  expect_rule="parser.dest-is-path")
V("C16-override-truthiness", "C16", "override drops falsy supplied values", SUP,
  "        if key not in ignore and value is not None:", "        if key not in ignore and value:", expect_rule="override.supplied-guard")
V("C16-override-writes-data", "C16", "override writes _data directly for top-level keys", SUP,
  "            config.__setitem__(key, value)", "            if \".\" in key:\n                config.__setitem__(key, value)\n            else:\n                config._data[key] = value",
  expect_rule="override.only-via-setitem")
V("C16-override-ignores-ignore", "C16", "ignore list not consulted", SUP,
  "        if key not in ignore and value is not None:", "        if value is not None:", expect_rule="override.ignore-guard")
V("C16-contains-other-sep", "C16", "Config.__contains__ splits on '/'", CORE,
  "        key, _, subkey = key.partition(\".\")\n        if subkey:\n            cfg = self._data.get(key)", "        key, _, subkey = key.partition(\"/\")\n        if subkey:\n            cfg = self._data.get(key)",
  expect_rule="separator @ Config.__contains__")
V("C16-reset-first-component", "C16", "reset_value splits off the first component", SUP,
  "    path, _, key = key.rpartition(\".\")\n    if path:\n        config = config[path]\n\n    field = config._get_field(key)",
  "    path, _, key = key.partition(\".\")\n    if path:\n        config = config[path]\n\n    field = config._get_field(key)", expect_rule="separator.direction")
V("C16-enumeration-no-prefix", "C16", "get_all_fields drops the prefix for nested fields", SUP,
  "                    (prefix + subkey, schema, subfield)", "                    (subkey, schema, subfield)", expect_rule="enumeration.prefix")
V("C16-bool-single-switch", "C16", "booleans get only the on switch", SUP,
  "            parser.add_argument(\n                off_arg, dest=name, action=\"store_false\", default=None\n            )\n", "", expect_rule="parser.on-off-for-bool")
V("C16-benign-kw-order", "C16", "keyword order of add_argument changed", SUP, expect="silent",
  old="                arg, action=\"store\", dest=name, help=field.short_help, metavar=metavar",
  new="                arg, dest=name, metavar=metavar, action=\"store\", help=field.short_help")

# ------------------------------------------------------------------------------------------ C18
V("C18-ret-is-base", "C18", "combine_trees merges into the base tree itself", INC,
  "        ret = dict(base)", "        ret = base", expect_rule="combine_trees")
V("C18-args-swapped", "C18", "include passes (child, base)", INC,
  "        return self.combine_trees(base, child)", "        return self.combine_trees(child, base)", expect_rule="include.argument-roles")
V("C18-base-wins", "C18", "conflicting scalars keep the including document's value", INC,
  "                else:\n                    ret[key] = value\n            else:\n                ret[key] = value",
  "                else:\n                    ret[key] = base_value\n            else:\n                ret[key] = value", expect_rule="included-wins")
V("C18-no-recursion", "C18", "nested maps replaced wholesale", INC,
  "                if isinstance(base_value, dict) and isinstance(value, dict):\n                    ret[key] = self.combine_trees(base_value, value)\n                else:\n                    ret[key] = value",
  "                ret[key] = value", expect_rule="recursion.exists")
V("C18-recursion-swapped", "C18", "recursive merge swaps its arguments", INC,
  "                    ret[key] = self.combine_trees(base_value, value)", "                    ret[key] = self.combine_trees(value, base_value)",
  expect_rule="recursion.argument-order")
V("C18-exists-none", "C18", "IncludeField accepts missing files", INC,
  "        super().__init__(exists=\"file\", startdir=startdir, **kwargs)", "        super().__init__(exists=None, startdir=startdir, **kwargs)", expect_rule="exists-file")
V("C18-open-unvalidated", "C18", "include opens the raw file name", INC,
  "        filename = self.validate(config, filename)\n        with open(os.path.expanduser(filename), \"rb\") as fp:",
  "        self.validate(config, filename)\n        with open(os.path.expanduser(filename), \"rb\") as fp:", expect_rule="opens-validated-path")
V("C18-nested-first", "C18", "nested scopes processed before this scope's includes", CORE, edits=[
    (CORE, """        for key, field in includes:
            # For each of the included field names, check if it has a value in the parsed tree""",
     """        for key, sub_schema in sub_schemas:
            if tree.get(key) and isinstance(tree[key], dict):
                tree[key] = self._process_includes(
                    sub_schema, tree[key], format_factory
                )

        for key, field in includes:
            # For each of the included field names, check if it has a value in the parsed tree"""),
    (CORE, """            tree = field.include(self, formatter, filename, tree)

        for key, sub_schema in sub_schemas:
            # only a nested tree can hold includes, any other value is rejected when it is set
            if tree.get(key) and isinstance(tree[key], dict):
                tree[key] = self._process_includes(
                    sub_schema, tree[key], format_factory
                )

        return tree""", """            tree = field.include(self, formatter, filename, tree)

        return tree""")], expect_rule="includes.before-nested")
V("C18-nested-result-dropped", "C18", "nested include result not stored back", CORE,
  "                tree[key] = self._process_includes(\n                    sub_schema, tree[key], format_factory\n                )",
  "                self._process_includes(\n                    sub_schema, tree[key], format_factory\n                )", expect_rule="nested.stored-back")
V("C18-child-mutated", "C18", "combine_trees pops merged keys from the included tree", INC,
  "        for key, value in child.items():\n            if key in base:", "        for key, value in list(child.items()):\n            child.pop(key)\n            if key in base:",
  expect_rule="pure")
V("C18-benign-copy-method", "C18", "copy made with base.copy()", INC, expect="silent",
  old="        ret = dict(base)", new="        ret = base.copy()")

# ------------------------------------------------------------------------------------------ C20
V("C20-print", "C20", "D9a re-introduced: debug print in the stub generator", STUBS,
  "        return \"\"\n\n    return \" -> %s\" % typestr if typestr else \"\"", "        return \"\"\n\n    print(\"retval:\", repr(annotation))\n    return \" -> %s\" % typestr if typestr else \"\"",
  expect_rule="no-output")
V("C20-print-in-callee", "C20", "a helper reachable from generate_stub prints", STUBS,
  "    typestr = get_annotation_typestr(field)\n    return \"%s: %s\" % (key, typestr)", "    typestr = get_annotation_typestr(field)\n    sys.stdout.write(typestr)\n    return \"%s: %s\" % (key, typestr)",
  expect_rule="no-output")
V("C20-no-configtype-branch", "C20", "D9b re-introduced: no ConfigTypeField branch", STUBS,
  "    elif isinstance(field, ConfigTypeField):\n        storage_type = field.config_type\n", "", expect_rule="dispatch.total")
V("C20-no-schema-branch", "C20", "Schema branch dropped", STUBS,
  "    elif isinstance(field, Schema):\n        storage_type = Schema\n", "", expect_rule="dispatch.total")
V("C20-creates-field", "C20", "generate_stub reads an attribute off the Schema (creates a field)", STUBS,
  "    properties: Dict[str, str] = {}", "    if isinstance(config, Schema) and config.stub_hidden:\n        return \"\"\n    properties: Dict[str, str] = {}",
  expect_rule="pure")
V("C20-virtual-in-ctor", "C20", "virtual fields become constructor parameters", STUBS,
  "        if isinstance(field, VirtualField):\n            properties[key] = get_arg_annotation(key, field)",
  "        if isinstance(field, VirtualField):\n            attrs[key] = properties[key] = get_arg_annotation(key, field)", expect_rule="partition.ctor-only-persistent")
V("C20-methods-not-rendered", "C20", "instance methods silently dropped", STUBS,
  "        elif isinstance(field, InstanceMethodField):\n            methods[key] = field\n", "        elif isinstance(field, InstanceMethodField):\n            continue\n",
  expect_rule="partition.")
V("C20-caches-on-schema", "C20", "generate_stub caches its result on the schema", STUBS,
  "    return \"\\n\".join(blocks)", "    schema._stub_cache = \"\\n\".join(blocks)\n    return schema._stub_cache", expect_rule="pure")
V("C20-benign-elif-to-if", "C20", "dispatch rewritten with early assignments", STUBS, expect="silent",
  old="    elif isinstance(field, type):\n        storage_type = field\n    elif isinstance(field, str):\n        storage_type = field",
  new="    elif isinstance(field, (type, str)):\n        storage_type = field")

# ------------------------------------------------------------------------------------------ benign refactors (cross-cutting)
V("BENIGN-fstring-ref-path", "C16", "Config._ref_path builds the path with an f-string", CORE, expect="silent", check=["C16", "C15"],
  old="        if root:\n            path = root + \".\" + self._key\n        else:\n            path = self._key",
  new="        if root:\n            path = f\"{root}.{self._key}\"\n        else:\n            path = self._key")
V("BENIGN-format-ref-path", "C16", "ValidationError.ref_path uses %-formatting", CORE, expect="silent", check=["C16", "C15"],
  old="            if path:\n                path += \".\" + self.field._key\n            else:",
  new="            if path:\n                path = \"%s.%s\" % (path, self.field._key)\n            else:")
V("BENIGN-stub-header-fstring", "C20", "class header rendered with an f-string", STUBS, expect="silent",
  old="            \"class %s(cincoconfig.core.ConfigType):\" % class_name,", new="            f\"class {class_name}(cincoconfig.core.ConfigType):\",")
V("BENIGN-list-default-copy-method", "C13", "untyped list default copied with .copy()", LIST, expect="silent", check=["C13", "C12"],
  old="            default = copy_basic_value(default)", new="            default = copy_basic_value(default).copy()")
V("BENIGN-list-default-slice", "C13", "untyped list default copied with [:]", LIST, expect="silent", check=["C13", "C12"],
  old="            default = copy_basic_value(default)", new="            default = copy_basic_value(default)[:]")
V("BENIGN-dict-default-unpack", "C13", "dict default copied with {**default}", DICT, expect="silent", check=["C13", "C12"],
  old="            default = dict(default)", new="            default = {**default}")
V("BENIGN-keysize-constant", "C07", "key size hoisted into a module constant", ENC, expect="silent", check=["C07", "C08"], edits=[
    (ENC, "SecureValue = NamedTuple(", "KEY_SIZE = 32\n\nSecureValue = NamedTuple("),
    (ENC, "        key = os.urandom(32)", "        key = os.urandom(KEY_SIZE)"),
    (ENC, "        if not self.__key or len(self.__key) != 32:", "        if not self.__key or len(self.__key) != KEY_SIZE:")])
V("BENIGN-logging-after-store", "C06", "debug logging after the store in _set_value", CORE, expect="silent", check=["C06", "C12", "C15", "C01"], edits=[
    (CORE, "import inspect\nimport os\nimport warnings", "import inspect\nimport logging\nimport os\nimport warnings\n\n_LOG = logging.getLogger(__name__)"),
    (CORE, "            else:\n                self._default_value_keys.discard(key)\n                return value",
     "            else:\n                self._default_value_keys.discard(key)\n                _LOG.debug(\"set %s\", key)\n                return value")])
V("BENIGN-save-pathlib", "C19", "save writes through pathlib", CORE, expect="silent", check=["C19", "C02"], edits=[
    (CORE, "import inspect\nimport os\nimport warnings", "import inspect\nimport os\nimport pathlib\nimport warnings"),
    (CORE, "        filename = os.path.expanduser(filename)\n        with open(filename, \"wb\") as file:\n            file.write(content)",
     "        pathlib.Path(os.path.expanduser(filename)).write_bytes(content)")])
V("BENIGN-new-field-class", "C01", "a new EmailField(StringField) with a chained validator", STR, expect="silent", check=["C01", "C05", "C13", "C14", "C12"],
  old="class LogLevelField(StringField):",
  new="class EmailField(StringField):\n    storage_type = str\n\n    def _validate(self, cfg: Config, value: str) -> str:\n        value = super()._validate(cfg, value)\n        if \"@\" not in value:\n            raise ValueError(\"value is not an e-mail address\")\n        return value\n\n\nclass LogLevelField(StringField):")
V("BENIGN-set_value-early-return", "C06", "_set_value: non-Field branch written with early raise", CORE, expect="silent", check=["C06", "C01", "C12", "C15", "C02"],
  old="""        if isinstance(value, Config):
            expected = config_schema(field)""",
  new="""        if not isinstance(value, (Config, dict)):
            raise ValidationError(
                self, field, "Unable to coerce %s to Config" % type(value).__name__
            )
        if isinstance(value, Config):
            expected = config_schema(field)""")
V("BENIGN-plain-dict-data", "C01", "Config._data created as a plain dict", CORE, expect="silent", check=["C01", "C12", "C13"],
  old="        self._data: Dict[str, Any] = OrderedDict()", new="        self._data: Dict[str, Any] = {}")
V("BENIGN-validate-walrus", "C11", "load_tree validation flag tested via local", CORE, expect="silent",
  old="        if validate:\n            self.validate()", new="        run_validation = validate\n        if run_validation:\n            self.validate()")

# ------------------------------------------------------------------------------------------ benign refactors, batch 2
V("BENIGN-iv-secrets", "C08", "IV drawn with secrets.token_bytes", ENC, expect="silent", check=["C08", "C03", "C07"], edits=[
    (ENC, "import os\nfrom itertools import cycle", "import os\nimport secrets\nfrom itertools import cycle"),
    (ENC, "        iv = os.urandom(16)\n        cipher = Cipher(", "        iv = secrets.token_bytes(16)\n        cipher = Cipher(")])
V("BENIGN-decrypt-parallel-assign", "C08", "decrypt splits IV and payload in one parallel assignment", ENC, expect="silent", check=["C08", "C03"],
  old="        iv = ciphertext[:16]\n        ciphertext = ciphertext[16:]", new="        iv, ciphertext = ciphertext[:16], ciphertext[16:]")
V("BENIGN-pkcs7-block-size", "C08", "padding block taken from algorithms.AES.block_size", ENC, expect="silent", check=["C08", "C03"], edits=[
    (ENC, "        unpadder = padding.PKCS7(128).unpadder()", "        unpadder = padding.PKCS7(algorithms.AES.block_size).unpadder()"),
    (ENC, "        padder = padding.PKCS7(128).padder()", "        padder = padding.PKCS7(algorithms.AES.block_size).padder()")])
V("BENIGN-challenge-compare-digest", "C09", "challenge compares with hmac.compare_digest", SEC, expect="silent", edits=[
    (SEC, "import hashlib\nimport os", "import hashlib\nimport hmac\nimport os"),
    (SEC, "        if self.digest != challenge:\n            raise ValueError(\"challenge failed\")",
     "        if not hmac.compare_digest(self.digest, challenge):\n            raise ValueError(\"challenge failed\")")])
V("BENIGN-create-hash-ctor-arg", "C09", "create hashes by passing the data to the constructor", SEC, expect="silent",
  old="        hasher.update(salt + plaintext)\n        return DigestValue(salt, hasher.digest(), algorithm)",
  new="        digest = algorithm(salt + plaintext).digest()\n        return DigestValue(salt, digest, algorithm)")
V("BENIGN-xml-attrib-set", "C04", "XML writer sets the type attribute with ele.set()", XML, expect="silent", check=["C04", "C02"], edits=[
    (XML, "            ele.attrib[\"type\"] = \"str\"", "            ele.set(\"type\", \"str\")"),
    (XML, "            ele.attrib[\"type\"] = \"none\"", "            ele.set(\"type\", \"none\")")])
V("BENIGN-copy-type-self", "C17", "ListProxy.copy builds type(self)(...)", LIST, expect="silent", check=["C17", "C01"],
  old="        return ListProxy(self.cfg, self.list_field, self)", new="        return type(self)(self.cfg, self.list_field, self)")
V("BENIGN-add-field-helper", "C13", "Schema._add_field registers through a private helper", CORE, expect="silent", check=["C13", "C20", "C14"], edits=[
    (CORE, "        self._fields[name] = field  # type: ignore\n        field.__setkey__(self, name)\n        return field  # type: ignore",
     "        self._register(name, field)\n        return field  # type: ignore\n\n    def _register(self, name: str, field: BaseField) -> None:\n        self._fields[name] = field\n        field.__setkey__(self, name)")])
V("BENIGN-mark-ior", "C12", "_set_default_value marks with |=", CORE, expect="silent", check=["C12", "C06"],
  old="        self._default_value_keys.add(key)", new="        self._default_value_keys |= {key}")
V("BENIGN-bounds-demorgan", "C05", "min bound written as not (min is None or num >= min)", NUM, expect="silent", check=["C05", "C01"],
  old="        if self.min is not None and num < self.min:", new="        if not (self.min is None or num >= self.min):")
V("BENIGN-getenv", "C14", "environment read through os.getenv on both sides", CORE, expect="silent", edits=[
    (CORE, "            env_value = os.environ.get(self.env)", "            env_value = os.getenv(self.env)"),
    (CORE, "                    and os.environ.get(field.env)\n", "                    and os.getenv(field.env)\n")])
V("BENIGN-append-explicit-base", "C01", "ListProxy.append calls list.append(self, ...)", LIST, expect="silent", check=["C01", "C06", "C17"],
  old="        super().append(self._validate(item))", new="        list.append(self, self._validate(item))")
V("BENIGN-reset-chained", "C12", "reset_value without the local", SUP, expect="silent",
  old="    field = config._get_field(key)\n    if not field:\n        raise AttributeError(key)\n\n    field.__setdefault__(config)",
  new="    if not config._get_field(key):\n        raise AttributeError(key)\n\n    config._get_field(key).__setdefault__(config)")

# ------------------------------------------------------------------------------------------ found by the mutation sweep
V("SWEEP-adopted-no-parent", "C15", "a Config assigned to a sub-config field is not re-parented", CORE, check=["C15", "C03", "C02"],
  old="            value._parent = self\n            value._key = key", new="            value._key = key", expect_rule="link.adopted @ Config._set_value")
V("SWEEP-list-adopted-no-parent", "C15", "a Config appended to a list of configs keeps its old parent", LIST, check=["C15", "C03"],
  old="                value._parent = self.cfg\n                value._key", new="                value._key", expect_rule="link.adopted @ ListProxy._validate")
V("SWEEP-load-args-swapped", "C01", "load_tree calls _set_value(value, key)", CORE, check=["C01", "C02"],
  old="            self._set_value(key, value)\n\n        if validate:", new="            self._set_value(value, key)\n\n        if validate:", expect_rule="load.")
V("SWEEP-validator-args-swapped", "C01", "custom validator called with (value, cfg)", CORE,
  old="            value = self.validator(cfg, value)", new="            value = self.validator(value, cfg)", expect_rule="validate.call-args")
V("SWEEP-list-no-type-gate", "C01", "ListField accepts any iterable (a str becomes a list of characters)", LIST,
  old="        if not isinstance(value, (list, tuple)):\n            raise ValueError(\"value is not a list\")\n\n", new="", expect_rule="validator.type-gate @ ListField._validate")
V("SWEEP-number-bool-and", "C05", "bool exclusion only evaluated for non-numbers", NUM, check=["C05", "C01"],
  old="        if not isinstance(value, (str, int, float, self.type_cls)) or isinstance(\n            value, bool\n        ):",
  new="        if not isinstance(value, (str, int, float, self.type_cls)) and isinstance(\n            value, bool\n        ):", expect_rule="number.rejects-bool")
V("SWEEP-dynamic-field-wrong-key", "C01", "dynamic field registered under one key, told another", CORE,
  old="            field.__setkey__(self._schema, key)", new="            field.__setkey__(self._schema, key.lower())", expect_rule="lemma.key-invariant")

# ------------------------------------------------------------------------------------------ mutants of round-2 benign refactors
# (the refactored spelling must stay *decided*, not merely tolerated: break it and the check has to fire)
import os as _os
_SEEDED = _os.path.join(_os.path.dirname(_os.path.dirname(_os.path.abspath(__file__))), "seeded")


def VP(vid, prop, what, seed, file, old, new, expect="fire", **kw):
    V(vid, prop, what, file, old, new, expect=expect, patch=_os.path.join(_SEEDED, seed, "patch.diff"), **kw)


VP("C03-R2C-mut-walk-ignores-own", "C03", "iterative owner walk no longer stops at a configuration naming a key file", "C03-R2C", CORE,
   "        while owner.__keyfile is None and owner._parent is not None:", "        while owner._parent is not None:")
VP("C03-R2C-mut-default-when-set", "C03", "iterative form: default path returned when the owner HAS a key file", "C03-R2C", CORE,
   "        if keyfile is None:\n            return Config.DEFAULT_CINCOKEY_FILEPATH\n        return keyfile.filename",
   "        if keyfile is not None:\n            return Config.DEFAULT_CINCOKEY_FILEPATH\n        return keyfile.filename")
VP("C03-R2C-mut-default-on-self", "C03", "iterative form: default key file stored on self, not on the root", "C03-R2C", CORE,
   "            owner.__keyfile = KeyFile(Config.DEFAULT_CINCOKEY_FILEPATH)\n        return owner.__keyfile",
   "            self.__keyfile = KeyFile(Config.DEFAULT_CINCOKEY_FILEPATH)\n            return self.__keyfile\n        return owner.__keyfile")
VP("C03-R2C-mut-walk-from-parent", "C03", "iterative walk starts at the parent", "C03-R2C", CORE,
   "        owner = self\n        while", "        owner = self._parent or self\n        while")
VP("C04-R2C-mut-tags-swapped", "C04", "merged list/dict branch: tags swapped", "C04-R2C", XML,
   '            ele.attrib["type"] = "list" if is_list else "dict"', '            ele.attrib["type"] = "dict" if is_list else "list"')
VP("C04-R2C-mut-list-item-name", "C04", "merged branch: dict entries written under 'item'", "C04-R2C", XML,
   'if is_list else value.items()', 'if is_list else [("item", v) for v in value.values()]')
VP("C04-R2C-mut-reader-dict-as-list", "C04", "early-return reader: dict elements decoded to a list", "C04-R2C", XML,
   "            return {child.tag: self._from_element(child) for child in ele}", "            return [self._from_element(child) for child in ele]")
VP("C04-R2C-mut-reader-forced-type", "C04", "early-return reader: children decoded with the parent's type", "C04-R2C", XML,
   "            return [self._from_element(child) for child in ele]", "            return [self._from_element(child, \"str\") for child in ele]")
VP("C04-R2C-mut-yaml-guard-inverted", "C04", "guard-clause YAML loads: returns the wrapped document when a root key is configured", "C04-R2C", YAML,
   "        if not self.root_key:\n            return document", "        if self.root_key:\n            return document")
VP("C04-R2C-mut-yaml-unwrap-always", "C04", "guard-clause YAML loads: indexes by root_key although none configured", "C04-R2C", YAML,
   "        if not self.root_key:\n            return document\n", "")
VP("C05-R2C-mut-bound-inclusive", "C05", "aliased bound compared with <=", "C05-R2C", NUM,
   "        if lower is not None and num < lower:", "        if lower is not None and num <= lower:")
VP("C05-R2C-mut-bound-truthy", "C05", "aliased bound guarded by truthiness", "C05-R2C", NUM,
   "        if upper is not None and num > upper:", "        if upper and num > upper:")
VP("C05-R2C-mut-false-token-true", "C05", "early-return bool validator maps FALSE tokens to True", "C05-R2C", BOOL,
   "            if token in self.FALSE_VALUES:\n                return False", "            if token in self.FALSE_VALUES:\n                return True")
VP("C05-R2C-mut-number-not-converted", "C05", "early-return bool validator returns numbers unconverted", "C05-R2C", BOOL,
   "            return bool(value)", "            return value")
VP("C05-R2C-mut-case-sensitive", "C05", "early-return bool validator compares tokens case-sensitively", "C05-R2C", BOOL,
   "            token = value.lower()", "            token = value")
VP("C06-R2C-mut-no-parent", "C03", "aliased adoption: the handed-in configuration is stored without _parent", "C06-R2C", CORE,
   "            sub_config._parent = self\n", "")
VP("C06-R2C-mut-discard-first", "C06", "refactored _set_value: default mark cleared before validation", "C06-R2C", CORE,
   "            try:\n                validated = field.validate(self, value)",
   "            self._default_value_keys.discard(key)\n            try:\n                validated = field.validate(self, value)")
VP("C06-R2C-mut-store-unvalidated", "C01", "refactored _set_value stores the raw value", "C06-R2C", CORE,
   "                field.__setval__(self, validated)", "                field.__setval__(self, value)")
VP("C06-R2C-mut-insert-raw", "C01", "refactored ListProxy.insert inserts the raw item", "C06-R2C", LIST,
   "        super().insert(index, validated)", "        super().insert(index, item)")
VP("C07-R2C-mut-empty-regenerates", "C07", "refactored loader regenerates (overwrites) the key file when it is empty", "C07-R2C", ENC,
   "        if content is None:\n            self.__key = self.__generate_key()", "        if not content:\n            self.__key = self.__generate_key()")
VP("C07-R2C-mut-any-error-regenerates", "C07", "refactored reader maps every error to 'missing'", "C07-R2C", ENC,
   "        except OSError:\n            if os.path.exists(os.path.expanduser(self.filename)):", "        except Exception:\n            if os.path.exists(os.path.expanduser(self.filename)):")
VP("C07-R2C-mut-unreadable-regenerates", "C07", "refactored reader: D24 re-opened (any OSError means missing)", "C07-R2C", ENC,
   "            if os.path.exists(os.path.expanduser(self.filename)):\n                # the key file is there but cannot be read: never replace an existing key\n                raise\n            return None", "            return None")
V("C07-unreadable-key-regenerated", "C07", "D24 re-opened: every OSError from reading the key file regenerates it", ENC,
  "            if os.path.exists(filename):\n                # the key file is there but cannot be read: never replace an existing key\n                raise\n", "")
V("C08-lenient-base64", "C08", "D25 re-opened: stored ciphertext decoded leniently", "cincoconfig/fields/secure_field.py",
  '                    "".join(ciphertext_b64.split()), validate=True\n', '                    "".join(ciphertext_b64.split())\n')
V("C15-item-position-by-equality", "C15", "D29 re-opened: item position by list.index", "cincoconfig/fields/list_field.py",
  "        for index, other in enumerate(self):\n            if other is item:\n                return str(index)\n        return str(len(self))",
  "        try:\n            return str(self.index(item))\n        except ValueError:\n            return str(len(self))")
V("C07-missing-key-filenotfound", "C07", "handler narrowed to FileNotFoundError", ENC,
  "        except OSError:\n            if os.path.exists(filename):\n                # the key file is there but cannot be read: never replace an existing key\n                raise\n",
  "        except FileNotFoundError:\n", expect="silent")
VP("C07-R2C-mut-strip", "C07", "refactored loader strips the key file content", "C07-R2C", ENC,
   "        self.__key = content\n", "        self.__key = content.strip()\n")
VP("C07-R2C-mut-exit-inverted", "C07", "`if not refcount` inverted", "C07-R2C", ENC,
   "        if not self.__refcount:\n            self.__key = None", "        if self.__refcount:\n            self.__key = None")
VP("C07-R2C-mut-size-mismatch", "C07", "named size constant used by the generator only", "C07-R2C", ENC,
   "        if self.__key is None or len(self.__key) != KEY_SIZE:", "        if self.__key is None or len(self.__key) != 16:")
VP("C08-R2C-mut-no-cycle", "C08", "generator XOR without cycle(): truncates to the key length", "C08-R2C", ENC,
   "zip(bindata, cycle(self.__key))", "zip(bindata, self.__key)")
VP("C08-R2C-mut-or-instead-of-xor", "C08", "generator combines with | instead of ^", "C08-R2C", ENC,
   "bytes(b ^ k for b, k in", "bytes(b | k for b, k in")
VP("C08-R2C-mut-helper-ecb", "C08", "shared _cipher helper switched to ECB (IV ignored)", "C08-R2C", ENC,
   "            algorithms.AES(self.__key), modes.CBC(iv), backend=default_backend()\n        )\n\n    def decrypt",
   "            algorithms.AES(self.__key), modes.ECB(), backend=default_backend()\n        )\n\n    def decrypt")
VP("C09-R2C-mut-update-order", "C09", "two-step hashing: create feeds plaintext before salt", "C09-R2C", SEC,
   "        hasher.update(salt)\n        hasher.update(_as_bytes(plaintext))\n        return DigestValue",
   "        hasher.update(_as_bytes(plaintext))\n        hasher.update(salt)\n        return DigestValue")
VP("C09-R2C-mut-challenge-no-salt", "C09", "two-step hashing: challenge forgets the salt", "C09-R2C", SEC,
   "        hasher = self.algorithm(self.salt)\n", "        hasher = self.algorithm()\n")
VP("C09-R2C-mut-swapped-components", "C09", "comprehension codec writes digest under 'salt'", "C09-R2C", SEC,
   '(("salt", salt), ("digest", digest))', '(("salt", digest), ("digest", salt))')
VP("C09-R2C-mut-unpack-order", "C09", "tuple unpacking in the wrong order", "C09-R2C", SEC,
   "        salt, digest, _ = value", "        digest, salt, _ = value")
VP("C09-R2C-mut-salt-size", "C09", "aliased digest size halved for the random salt", "C09-R2C", SEC,
   "            salt = os.urandom(salt_size)", "            salt = os.urandom(salt_size // 2)")
VP("C09-R2C-mut-conditional-update", "C09", "salt only mixed in for long plaintexts", "C09-R2C", SEC,
   "        hasher.update(salt)\n        hasher.update(_as_bytes(plaintext))\n        return DigestValue",
   "        if len(plaintext) > 4:\n            hasher.update(salt)\n        hasher.update(_as_bytes(plaintext))\n        return DigestValue")
VP("C10-R2C-mut-closure-drops-mask", "C10", "rendering closure forgets the mask", "C10-R2C", CORE,
   "            return cfg.to_tree(virtual=virtual, sensitive_mask=sensitive_mask)", "            return cfg.to_tree(virtual=virtual)")
VP("C10-R2C-mut-helper-swapped", "C10", "_mask_value helper: one-character masks verbatim, longer ones repeated", "C10-R2C", CORE,
   "    if len(mask) == 1:\n        return mask * len(str(value))\n    return mask", "    if len(mask) != 1:\n        return mask * len(str(value))\n    return mask")
VP("C10-R2C-mut-flag-ignored", "C10", "local `masking` flag dropped from the sensitive branch", "C10-R2C", CORE,
   "            elif masking and isinstance(field, Field) and field.sensitive:", "            elif isinstance(field, Field) and field.sensitive:")
VP("C10-R2C-mut-flag-inverted", "C10", "local `masking` flag computed the wrong way round", "C10-R2C", CORE,
   "        masking = sensitive_mask is not None", "        masking = sensitive_mask is None")
VP("C10-R2C-mut-mask-empty-too", "C10", "empty sensitive values are masked as well", "C10-R2C", CORE,
   "                if field_value:\n                    value = _mask_value(field_value, sensitive_mask)", "                if True:\n                    value = _mask_value(field_value, sensitive_mask)")
VP("C12-R2C-mut-reset-wrong-owner", "C12", "reset_value (refactored) resets on the root instead of the owning sub-configuration", "C12-R2C", SUP,
   "    field.__setdefault__(owner)", "    field.__setdefault__(config)")
VP("C12-R2C-mut-defined-wrong-owner", "C12", "is_value_defined (refactored) looks at the root's default marks", "C12-R2C", SUP,
   "    return name not in owner._default_value_keys", "    return name not in config._default_value_keys")
VP("C12-R2C-mut-mark-only", "C12", "swapped _set_default_value marks but stores conditionally", "C12-R2C", CORE,
   "        self._default_value_keys.add(key)\n        self._data[key] = value", "        self._default_value_keys.add(key)\n        if value is not None:\n            self._data[key] = value")
VP("C12-R2C-mut-ifexp-shares-default", "C12", "conditional-expression default shares the declared list when untyped", "C12-R2C", LIST,
   "            default = ListProxy(cfg, self, copy_basic_value(default)) if self.field else list(copy_basic_value(default))", "            default = ListProxy(cfg, self, copy_basic_value(default)) if self.field else default")
VP("C13-R2C-mut-dynamic-on-schema", "C13", "extracted _add_dynamic_field records the field on the schema", "C13-R2C", CORE,
   "        dynamic_field = self._fields[key] = AnyField()", "        dynamic_field = self._schema._fields[key] = AnyField()")
VP("C13-R2C-mut-dict-default-shared", "C13", "guard-clause DictField default: raw dict stored for untyped fields", "C13-R2C", DICT,
   "            value = dict(copy_basic_value(declared))", "            value = declared")
VP("C13-R2C-mut-list-default-shared", "C13", "extracted _default_for returns the declared list itself", "C13-R2C", LIST,
   "            return list(copy_basic_value(declared))", "            return declared")
VP("C13-R2C-mut-guard-inverted", "C13", "extracted _default_for: guard inverted (lists returned raw)", "C13-R2C", LIST,
   "        if not isinstance(declared, list):\n            return declared", "        if isinstance(declared, list):\n            return declared")
VP("C14-R2C-mut-format-no-joiner", "C14", "%-formatted name without the '_' joiner", "C14-R2C", CORE,
   '                name = "%s_%s" % (parent_prefix, name)', '                name = "%s%s" % (parent_prefix, name)')
VP("C14-R2C-mut-format-swapped", "C14", "%-formatted name with key and prefix swapped", "C14-R2C", CORE,
   '                name = "%s_%s" % (parent_prefix, name)', '                name = "%s_%s" % (name, parent_prefix)')
VP("C14-R2C-mut-prefix-upper", "C14", "aliased prefix upper-cased", "C14-R2C", CORE,
   '                name = "%s_%s" % (parent_prefix, name)', '                name = "%s_%s" % (parent_prefix.upper(), name)')
VP("C14-R2C-mut-explicit-overwritten", "C14", "explicit variable names overwritten by the derived one", "C14-R2C", CORE,
   "        if self.env is True or (self.env is None and has_prefix):", "        if self.env or (self.env is None and has_prefix):")
VP("C16-R2C-mut-ignore-chars", "C16", "conditional-expression ignore normalisation dropped: a string is a sequence of characters", "C16-R2C", SUP,
   "    ignored = [ignore] if isinstance(ignore, str) else (ignore or [])", "    ignored = ignore or []")
VP("C16-R2C-mut-truthy-guard", "C16", "guard-clause override drops falsy supplied values", "C16-R2C", SUP,
   "        if value is None or key in ignored:\n            continue", "        if not value or key in ignored:\n            continue")
VP("C16-R2C-mut-ignore-not-consulted", "C16", "guard-clause override ignores the ignore list", "C16-R2C", SUP,
   "        if value is None or key in ignored:\n            continue", "        if value is None:\n            continue")
VP("C16-R2C-mut-prefix-lost", "C16", "flattened get_all_fields forgets the prefix of nested paths", "C16-R2C", SUP,
   "            ret.append((prefix + subkey, owner, subfield))", "            ret.append((subkey, owner, subfield))")
VP("C18-R2C-mut-base-from-child", "C18", "refactored merge looks the base value up in the child", "C18-R2C", INC,
   "            base_value = base.get(key)", "            base_value = child.get(key)")
VP("C18-R2C-mut-base-wins", "C18", "refactored merge keeps the including document's scalar", "C18-R2C", INC,
   "                merged[key] = child_value", "                merged[key] = base_value if key in base else child_value")
VP("C18-R2C-mut-nested-not-stored", "C18", "refactored include processing drops the nested result", "C18-R2C", CORE,
   "                tree[key] = self._process_includes(sub_schema, sub_tree, format_factory)", "                self._process_includes(sub_schema, sub_tree, format_factory)")
VP("C18-R2C-mut-include-result-dropped", "C18", "refactored include processing drops the merged tree", "C18-R2C", CORE,
   "                tree = include_field.include(self, format_factory(), filename, tree)", "                include_field.include(self, format_factory(), filename, tree)")
VP("C18-R2C-mut-merge-in-place", "C18", "refactored merge writes into the base tree", "C18-R2C", INC,
   "        merged = dict(base)", "        merged = base")
VP("C20-R2C-mut-virtual-in-ctor", "C20", "flag-based partition: virtual fields become constructor parameters", "C20-R2C", STUBS,
   "        if persistent:\n            attrs[key] = arg_annotation", "        attrs[key] = arg_annotation")
VP("C20-R2C-mut-virtual-not-annotated", "C20", "flag-based partition: virtual fields lose their attribute annotation", "C20-R2C", STUBS,
   "        properties[key] = arg_annotation\n        if persistent:", "        if persistent:\n            properties[key] = arg_annotation\n        if persistent:")
VP("C20-R2C-mut-methods-as-attrs", "C20", "flag-based partition: instance methods fall through to the attribute tables", "C20-R2C", STUBS,
   "            methods[key] = field\n            continue", "            methods[key] = field")

# ------------------------------------------------------------------------------------------ defects repaired in session 3
V("C15-D16-reintroduced", "C15", "D16 re-introduced: DictProxy entry paths from the field's schema path only", DICT,
  """        owner_path = getattr(self.cfg, "_ref_path", None)
        if isinstance(owner_path, str) and owner_path:
            return "%s.%s[%s]" % (owner_path, self.dict_field._key, key)
        return "%s[%s]" % (self.dict_field._ref_path, key)""",
  """        return "%s[%s]" % (self.dict_field._ref_path, key)""", expect_rule="path.proxy-uses-owner-path")
V("C03-D18-reintroduced", "C03", "D18 re-introduced: loading replaces a sub-configuration and forgets its own key file", CORE,
  """        if previous.__keyfile and not self.__keyfile:
            self.__keyfile = previous.__keyfile

""", "", expect_rule="keyfile.survives-replacement")
V("C03-D18-after-load", "C03", "key file taken over only after the nested map was decrypted", CORE,
  """                cfg._adopt_keyfiles(previous)
            cfg.load_tree(value)  # load_tree will raise a ValidationError on error
            value = cfg""",
  """                pass
            cfg.load_tree(value)  # load_tree will raise a ValidationError on error
            if isinstance(previous, Config):
                cfg._adopt_keyfiles(previous)
            value = cfg""", expect_rule="keyfile.survives-replacement")
VP("C14-R3D-mut-empty-counts", "C14", "shared _env_lookup helper: an empty variable counts as set", "C14-R3D", CORE,
   "        return os.environ.get(name) or None", "        return os.environ.get(name)")
VP("C14-R3D-mut-join-sep", "C14", "shared _env_join helper joins with '-'", "C14-R3D", CORE,
   '    return "_".join(parts)', '    return "-".join(parts)')
VP("C14-R3D-mut-prefix-dropped", "C14", "shared _env_join helper: prefix dropped when it is a str", "C14-R3D", CORE,
   "    parts = [prefix] if isinstance(prefix, str) and prefix else []", "    parts = [] if isinstance(prefix, str) and prefix else [prefix]")
VP("C14-R3C-mut-skip-unbound", "C14", "flag-based skip: skips although the field has no variable name", "C14-R3C", CORE,
   "            env_wins = False\n", "            env_wins = True\n")

# ---- round 3: mutants of the spellings accepted after the round-3 refactorings
VP("C08-R3D-mut-no-cycle", "C08", "big-integer XOR with the key not repeated", "C08-R3D", ENC,
   "bytes(islice(cycle(self.__key), size))", "bytes(islice(self.__key, size))")
VP("C08-R3D-mut-byteorder", "C08", "big-integer XOR turned back in the other byte order", "C08-R3D", ENC,
   'return mixed.to_bytes(size, "big")', 'return mixed.to_bytes(size, "little")')
VP("C08-R3C-mut-overwrite", "C08", "indexed loop stores the key byte instead of the XOR", "C08-R3C", ENC,
   "out[pos] = out[pos] ^ key_byte", "out[pos] = key_byte")
VP("C08-R3C-mut-best-is-xor", "C03", "assign-then-return form: best resolves to xor when AES is available", "C08-R3C", ENC,
   'resolved = "aes" if AES_AVAILABLE else "xor"', 'resolved = "xor" if AES_AVAILABLE else "aes"')
VP("C08-R3C-mut-provider-swap", "C03", "assign-then-return form: xor requested, AES provider built, 'xor' recorded", "C08-R3C", ENC,
   "            provider = XorProvider(self.__key)", "            provider = AesProvider(self.__key)")
VP("C08-R3C-mut-best-unresolved", "C03", "assign-then-return form: 'best' recorded unresolved", "C08-R3C", ENC,
   '        elif resolved == "xor":\n            provider = XorProvider(self.__key)', '        elif resolved == "xor" or method == "best":\n            resolved = method\n            provider = XorProvider(self.__key)')
VP("C19-R3A-twin-exists-on-expanded", "C19", "clean-up of a *new* partial file, existence tested on the path that is later removed", "C19-R3A", CORE,
   "        is_new_file = not os.path.exists(filename)\n        filename = os.path.expanduser(filename)\n",
   "        filename = os.path.expanduser(filename)\n        is_new_file = not os.path.exists(filename)\n", expect="silent")
V("C19-backup-rename-before-dumps", "C19", "previous file renamed away before serialisation", CORE,
  "        content = self.dumps(format, **kwargs)\n        filename = os.path.expanduser(filename)\n",
  "        filename = os.path.expanduser(filename)\n        if os.path.exists(filename):\n            os.rename(filename, filename + '.bak')\n        content = self.dumps(format, **kwargs)\n")
VP("C19-R3D-mut-options-lose-mask", "C10", "options dict handed to nested to_tree without the mask", "C19-R3D", CORE,
   'options = {"virtual": virtual, "sensitive_mask": sensitive_mask}', 'options = {"virtual": virtual}')
VP("C19-R3D-mut-config-list-never", "C10", "helper deciding 'list of configurations' rejects every list: lists of configurations go to the encoder unmasked", "C19-R3D", CORE,
   "        if not isinstance(value, list) or not value:\n            return False\n        return not any(",
   "        if isinstance(value, list) or not value:\n            return False\n        return not any(")
VP("C20-R3C-mut-ctor-has-virtual", "C20", "comprehension form: constructor arguments no longer exclude virtual fields", "C20-R3C", "cincoconfig/stubs.py",
   "        annotation for key, annotation in members.items() if key not in virtual\n", "        annotation for key, annotation in members.items()\n")
VP("C20-R3C-mut-members-drop-virtual", "C20", "comprehension form: virtual fields missing from the class body", "C20-R3C", "cincoconfig/stubs.py",
   "        if key not in methods\n    }", "        if key not in methods and key not in virtual\n    }")
VP("C20-R3C-mut-methods-all", "C20", "comprehension form: every field rendered as a method", "C20-R3C", "cincoconfig/stubs.py",
   "        if isinstance(field, InstanceMethodField) and key not in virtual\n", "        if key not in virtual\n")
VP("C20-R3C-mut-varkw-dropped", "C20", "argspec by attribute: **kwargs no longer rendered", "C20-R3C", "cincoconfig/stubs.py",
   '    if spec.varkw:\n        items.append("**%s" % spec.varkw)\n', "")
VP("C20-R3D-mut-row-dropped", "C20", "dispatch table loses the Schema row: sub-schemas raise TypeError", "C20-R3D", STUBS,
   "    (Schema, lambda field: Schema),\n", "")
VP("C20-R3D-mut-ctor-virtual", "C20", "append form: virtual fields become constructor arguments", "C20-R3D", STUBS,
   "        if not is_virtual:\n            attrs.append(annotation)", "        attrs.append(annotation)")
VP("C20-R3D-mut-methods-virtual-first", "C20", "append form: methods test drops the instance-method check", "C20-R3D", STUBS,
   "        if not is_virtual and isinstance(field, InstanceMethodField):", "        if not is_virtual:")
VP("C20-R3D-mut-kwonly-unused", "C20", "argspec accessor: keyword-only parameters no longer rendered", "C20-R3D", STUBS,
   "    args, varargs, varkw, _, kwonlyargs, _, annotations = field.argspec", "    args, varargs, varkw, _, _kw, _, annotations = field.argspec\n    kwonlyargs = []")
VP("C18-R3D-mut-update-wrong-key", "C18", "update-with-dict-comprehension form: nested result looked up under another key", "C18-R3D", CORE,
   "                key: self._process_includes(sub_schema, tree[key], format_factory)", "                key: self._process_includes(sub_schema, tree, format_factory)")
VP("C18-R3D-mut-include-stale-tree", "C18", "helper form: every include merges into the original tree", "C18-R3D", CORE,
   "                tree = field.include(self, format_factory(), filename, tree)", "                merged = field.include(self, format_factory(), filename, tree)")
VP("C18-R3D-mut-nested-dropped", "C18", "update form: nested results computed but not stored", "C18-R3D", CORE,
   "        tree.update(\n            {", "        dict(tree).update(\n            {")
VP("C18-R3D-mut-exists-table", "C18", "table-driven exists check: 'file' row tests isdir", "C18-R3D", "cincoconfig/fields/file_field.py",
   '("file", "file", os.path.isfile)', '("file", "file", os.path.exists)')
VP("C16-R3D-mut-prefix-not-handed", "C16", "generator form: the recursion is given the parent's base instead of this schema's prefix", "C16-R3D", "cincoconfig/support.py",
   "            yield from _iter_all_fields(field, prefix)", "            yield from _iter_all_fields(field, base)")
VP("C16-R3D-mut-table-loses-int", "C16", "storage-type table loses int: integer fields get no option", "C16-R3D", "cincoconfig/support.py",
   "_VALUE_STORAGE_TYPES = (str, float, int)", "_VALUE_STORAGE_TYPES = (str, float)")
VP("C16-R3D-mut-off-switch-same-string", "C16", "helper form: --no- switch built without negate", "C16-R3D", "cincoconfig/support.py",
   "        _option_string(path, negate=True),", "        _option_string(path),")
VP("C16-R3D-mut-supplied-truthy", "C16", "generator form: supplied means truthy", "C16-R3D", "cincoconfig/support.py",
   "        if key not in ignore and value is not None:\n            yield key, value", "        if key not in ignore and value:\n            yield key, value")
VP("C13-R3C-mut-guard-other-field", "C01", "flag form of the fast path: the field identity test is dropped", "C13-R3C", "cincoconfig/fields/list_field.py",
   "            isinstance(source, ListProxy) and source.item_field is list_field.field", "            isinstance(source, ListProxy)")
VP("C13-R3C-mut-adopt-no-parent", "C15", "flag form of adoption: a configuration handed in is stored without the parent link", "C13-R3C", CORE,
   "            sub_config = value\n            sub_config._parent = self\n", "            sub_config = value\n")
VP("C13-R3C-mut-dynamic-key-not-told", "C01", "dynamic field registered under the key but not told its key", "C13-R3C", CORE,
   "            field = AnyField()\n            field.__setkey__(self._schema, key)\n", "            field = AnyField()\n")
V("C13-to-tree-merges-into-schema-table", "C13", "to_tree merges the dynamic fields into the schema's own table", CORE,
  "        fields: Dict[str, BaseField] = dict(self._schema._fields)\n        fields.update(self._fields)",
  "        fields: Dict[str, BaseField] = self._schema._fields\n        fields.update(self._fields)")
VP("C13-R3D-mut-unset-includes-given", "C12", "two-stage constructor: defaults applied to every field, keywords overwritten", "C13-R3D", CORE,
   "            field for key, field in schema._fields.items() if key not in data\n", "            field for key, field in schema._fields.items()\n")
VP("C13-R3D-mut-extend-helper-no-identity", "C01", "helper form of the fast path without the field identity test", "C13-R3D", "cincoconfig/fields/list_field.py",
   "        if isinstance(iterable, ListProxy) and iterable.item_field is self.item_field:\n            return iterable", "        if isinstance(iterable, ListProxy):\n            return iterable")
VP("C13-R3D-mut-all-fields-aliases-schema", "C13", "helper returning the schema's table itself, updated in place", "C13-R3D", CORE,
   "        return {**self._schema._fields, **self._fields}", "        merged = self._schema._fields\n        merged.update(self._fields)\n        return merged")
V("C12-ctor-defaults-overwrite-keywords", "C12", "constructor stores the default for every field after the keywords were applied", CORE,
  "            if key in data:\n                continue\n\n            field.__setdefault__(self)", "            field.__setdefault__(self)")
VP("C11-R3C-mut-failfast-swallow-wrapped", "C11", "merged handler: a ValidationError in raising mode is collected instead of raised", "C11-R3C", CORE,
   "                if fail_fast and already_wrapped:\n                    raise\n                problem = err if already_wrapped else ValidationError(config, fld, err)\n                if fail_fast:\n                    raise problem from err",
   "                problem = err if already_wrapped else ValidationError(config, fld, err)\n                if fail_fast and not already_wrapped:\n                    raise problem from err")
VP("C11-R3C-mut-validator-result-dropped", "C01", "alias form: custom validator called but its result dropped", "C11-R3C", CORE,
   "        return custom(cfg, checked) if custom else checked", "        if custom:\n            custom(cfg, checked)\n        return value")
VP("C11-R3C-mut-validator-never-called", "C11", "alias form: custom validator never called", "C11-R3C", CORE,
   "        return custom(cfg, checked) if custom else checked", "        return checked")
VP("C11-R3C-mut-unwrapped-escape", "C11", "merged handler: a foreign exception is re-raised unwrapped in raising mode", "C11-R3C", CORE,
   "                if fail_fast and already_wrapped:\n                    raise\n                problem = err if already_wrapped else ValidationError(config, None, err)",
   "                if fail_fast:\n                    raise\n                problem = err if already_wrapped else ValidationError(config, None, err)")
V("C11-schema-validator-error-unwrapped", "C11", "a foreign exception from a schema validator is re-raised unwrapped", CORE,
  "                exc = ValidationError(config, None, err)\n                if not collect_errors:\n                    raise exc from err",
  "                exc = ValidationError(config, None, err)\n                if not collect_errors:\n                    raise")
VP("C11-R3D-mut-require-allows-empty", "C11", "helper form: containers call the required check without allow_empty=False", "C11-R3D", "cincoconfig/fields/dict_field.py",
   "        self._require_value(value, allow_empty=False)", "        self._require_value(value)")
VP("C11-R3D-mut-report-drops-when-collecting", "C11", "helper form: collected error is built but not appended", "C11-R3D", CORE,
   "        if collect_errors:\n            errors.append(exc)\n        elif exc is err:", "        if collect_errors:\n            pass\n        elif exc is err:")
VP("C11-R3D-mut-report-raises-foreign", "C11", "helper form: the original exception is raised instead of the wrapped one", "C11-R3D", CORE,
   "        else:\n            raise exc from err", "        else:\n            raise err")
VP("C11-R3D-mut-skip-tuple-grows", "C11", "class-level skip tuple also lists Field", "C11-R3D", CORE,
   "        IncludeFieldMixin,\n        VirtualFieldMixin,\n        InstanceMethodFieldMixin,\n    )", "        IncludeFieldMixin,\n        VirtualFieldMixin,\n        InstanceMethodFieldMixin,\n        StringField,\n    )")
VP("C11-R3D-mut-required-helper-inverted", "C11", "helper form: required test inverted", "C11-R3D", CORE,
   "        if not self.required:\n            return\n\n        missing", "        if self.required:\n            return\n\n        missing")
VP("C02-R3C-mut-raw-when-typed", "C01", "flag form: the raw list is returned when the item field is a typed field", "C02-R3C", "cincoconfig/fields/list_field.py",
   "        is_untyped = item_field is None or isinstance(item_field, AnyField)", "        is_untyped = item_field is None or isinstance(item_field, Field)")
VP("C02-R3C-mut-dict-value-not-decoded", "C02", "unpacked codec pair: values stored undecoded", "C02-R3C", "cincoconfig/fields/dict_field.py",
   "            val = value_field.to_python(cfg, basic_val)", "            val = basic_val")
VP("C02-R3C-mut-dict-key-not-encoded", "C02", "unpacked codec pair: keys written unencoded", "C02-R3C", "cincoconfig/fields/dict_field.py",
   "                basic_key = key_field.to_basic(cfg, key)", "                basic_key = key")
VP("C01-R3C-mut-flag-bound-inclusive", "C05", "flag form: the lower bound itself is rejected", "C01-R3C", "cincoconfig/fields/number_field.py",
   "too_small = lower is not None and num < lower", "too_small = lower is not None and num <= lower")
VP("C01-R3C-mut-flag-bound-unused", "C01", "flag form: upper bound computed, never tested", "C01-R3C", "cincoconfig/fields/number_field.py",
   "        if too_large:\n            raise ValueError(\"value must be <= %s\" % upper)\n", "")
VP("C01-R3C-mut-bound-on-input", "C01", "flag form: bound compared with the unconverted input", "C01-R3C", "cincoconfig/fields/number_field.py",
   "too_large = upper is not None and num > upper", "too_large = upper is not None and value > upper")
VP("C01-R3C-mut-ifexp-fast-no-identity", "C01", "conditional-expression fast path without the identity test", "C01-R3C", "cincoconfig/fields/list_field.py",
   "        prevalidated = (\n            isinstance(iterable, ListProxy) and iterable.item_field is self.item_field\n        )", "        prevalidated = isinstance(iterable, ListProxy)")
VP("C02-R3D-mut-table-bool-missing", "C04", "reader dispatch table loses the bool row: booleans come back as text", "C02-R3D", "cincoconfig/formats/xml.py",
   '    "bool": _parse_bool,\n', "")
VP("C02-R3D-mut-table-int-as-float", "C04", "reader dispatch table parses int elements with float", "C02-R3D", "cincoconfig/formats/xml.py",
   '    "int": _parse_number(int),', '    "int": _parse_number(float),')
VP("C02-R3D-mut-writer-int-before-bool", "C04", "guard-clause writer tests int before bool", "C02-R3D", "cincoconfig/formats/xml.py",
   '    if isinstance(value, bool):  # before int: bool is a subclass of int\n        return "bool", "true" if value else "false"\n    if isinstance(value, int):\n        return "int", str(value)',
   '    if isinstance(value, int):\n        return "int", str(value)\n    if isinstance(value, bool):\n        return "bool", "true" if value else "false"')
VP("C02-R3D-mut-bool-text-yes", "C04", "pair form: booleans written as on/off words the reader does not know", "C02-R3D", "cincoconfig/formats/xml.py",
   'return "bool", "true" if value else "false"', 'return "bool", "enabled" if value else "disabled"')
VP("C02-R3D-mut-none-parser-text", "C04", "dispatch table: none elements come back as ''", "C02-R3D", "cincoconfig/formats/xml.py",
   '    "none": lambda text: None,', '    "none": lambda text: text,')
VP("C04-R3D-mut-encoder-rows-swapped", "C04", "encoder table lists int before bool", "C04-R3D", "cincoconfig/formats/xml.py",
   '    (bool, "bool", _bool_to_text),\n    (int, "int", str),', '    (int, "int", str),\n    (bool, "bool", _bool_to_text),')
VP("C04-R3D-mut-decoder-int-missing", "C04", "decoder table loses int", "C04-R3D", "cincoconfig/formats/xml.py",
   '    "int": _text_to_int,\n', "")
VP("C04-R3D-mut-json-sort-keys", "C04", "pretty also sorts the keys", "C04-R3D", "cincoconfig/formats/json.py",
   'options = {"indent": 2} if self.pretty else {}', 'options = {"indent": 2, "sort_keys": True} if self.pretty else {}')
VP("C04-R3D-mut-yaml-wrap-drops-tree", "C04", "yaml wrapper writes an empty map under the root key", "C04-R3D", "cincoconfig/formats/yaml.py",
   "return {self.root_key: tree} if self.root_key else tree", "return {self.root_key: {}} if self.root_key else tree")
VP("C04-R3D-mut-bool-helper-case", "C05", "shared token helper compares without lower-casing", "C04-R3D", "cincoconfig/fields/bool_field.py",
   "    lowered = text.lower()", "    lowered = text")
V("C15-includes-recurse-into-non-mapping", "C15", "D22 re-opened: nested scopes are processed for includes whatever the document holds there", CORE,
  "            if tree.get(key) and isinstance(tree[key], dict):", "            if tree.get(key):")
V("C15-set-value-loads-non-mapping", "C15", "a non-mapping value for a sub-configuration is handed to load_tree", CORE,
  "        elif isinstance(value, dict) and isinstance(field, (Schema, ConfigTypeField)):", "        elif isinstance(field, (Schema, ConfigTypeField)):")
V("C13-list-default-shallow-again", "C13", "D23 re-opened: list default copied one level deep", "cincoconfig/fields/list_field.py",
  "            default = copy_basic_value(default)\n", "            default = list(default)\n")
V("C13-dict-default-shallow-again", "C13", "D23 re-opened: dict default copied with dict()", "cincoconfig/fields/dict_field.py",
  "            default = copy_basic_value(default)\n", "            default = dict(default)\n")
V("C13-deep-copier-keeps-dicts", "C13", "the deep copier no longer rebuilds nested dicts", CORE,
  "    if isinstance(value, dict):\n        return {key: copy_basic_value(item) for key, item in value.items()}\n    return value", "    return value")
V("C13-list-default-deepcopy", "C13", "copy.deepcopy instead of the package's copier", "cincoconfig/fields/list_field.py",
  "            default = copy_basic_value(default)\n", "            import copy\n            default = copy.deepcopy(default)\n", expect="silent")
VP("C11-R4D-mut-nested-list-dropped", "C11", "nested errors collected but the list handed up is dropped", "C11-R4D", CORE,
   "                errors.extend(\n                    self._validate_field(config, field, collect_errors=collect_errors)\n                )", "                self._validate_field(config, field, collect_errors=collect_errors)")
V("C01-dict-validate-returns-raw-value", "C01", "DictProxy._validate hands back the raw value", "cincoconfig/fields/dict_field.py",
  "        return (validated_key, validated_value)", "        return (validated_key, value)")
V("C01-dict-validate-value-by-key-field", "C01", "DictProxy._validate validates the value with the key field", "cincoconfig/fields/dict_field.py",
  "            validated_value = self.value_field.validate(self.cfg, value)", "            validated_value = self.key_field.validate(self.cfg, value)")

# ---- round 4: mutants of the spellings accepted after the round-4 changes
VP("C15-R4C-mut-tuple-assign-no-parent", "C15", "tuple assignment of the links without the parent", "C15-R4C", "cincoconfig/fields/list_field.py",
   "        cfg._container, cfg._key, cfg._parent = self, self.list_field._key, self.cfg", "        cfg._container, cfg._key = self, self.list_field._key")
VP("C03-R4C-mut-identity-swapped", "C15", "`cfg is value` branches swapped: a configuration handed in is loaded as a tree", "C03-R4C", "cincoconfig/fields/list_field.py",
   "            if cfg is value:\n                cfg.validate()\n            else:\n                cfg.load_tree(value)  # type: ignore",
   "            if cfg is not value:\n                cfg.validate()\n            else:\n                cfg.load_tree(value)  # type: ignore")
VP("C05-R4D-mut-codec-pair-crossed", "C05", "codec table: hex encoder paired with the base64 decoder", "C05-R4D", "cincoconfig/fields/bytes_field.py",
   '    "hex": (bytes.hex, bytes.fromhex),', '    "hex": (bytes.hex, base64.b64decode),')
VP("C11-R4C-mut-closure-skips-validators", "C11", "generator closure no longer yields the schema validators", "C11-R4C", CORE,
   "            for validator in self._validators:\n                yield None, partial(validator, config)\n", "")
VP("C13-R4C-mut-walrus-guard-no-identity", "C01", "`pairs and not (...)` guard without the field identity", "C13-R4C", "cincoconfig/fields/dict_field.py",
   "        if pairs and not (isinstance(pairs, DictProxy) and pairs.dict_field is dict_field):", "        if pairs and not isinstance(pairs, DictProxy):")
VP("C10-R4C-mut-walrus-list-drops-mask", "C10", "restyled to_tree: the list-of-configurations branch drops the mask", "C10-R4C", CORE,
   "                    item.to_tree(virtual=virtual, sensitive_mask=sensitive_mask)", "                    item.to_tree(virtual=virtual)")
VP("C02-R4C-mut-table-int-before-bool", "C04", "scalar type table lists int before bool", "C02-R4C", "cincoconfig/formats/xml.py",
   '    SCALAR_TYPES = ((str, "str"), (bool, "bool"), (int, "int"), (float, "float"))', '    SCALAR_TYPES = ((str, "str"), (int, "int"), (bool, "bool"), (float, "float"))')
VP("C07-R4D-mut-guarded-decrement-wrong-test", "C07", "guarded decrement skips the decrement while a context is open", "C07-R4D", ENC,
   "        if self.__refcount > 0:\n            self.__refcount -= 1", "        if self.__refcount > 1:\n            self.__refcount -= 1")
VP("C06-R4C-mut-sibling-flag-not-none", "C06", "sibling flag `tree` is an empty tree for a configuration handed in: it is re-loaded before the list accepts it", "C06-R4C", "cincoconfig/fields/list_field.py",
   "                raise ValueError(\"configuration was created from a different schema\")\n            tree = None", "                raise ValueError(\"configuration was created from a different schema\")\n            tree = {}")

V("C05-strip-before-case-again", "C05", "D27 re-opened: strip before the case transform", STR,
  "        if self.transform_case:\n            value = value.lower() if self.transform_case == \"lower\" else value.upper()\n\n        if self.transform_strip:\n            if isinstance(self.transform_strip, str):\n                value = value.strip(self.transform_strip)\n            else:\n                value = value.strip()\n",
  "        if self.transform_strip:\n            if isinstance(self.transform_strip, str):\n                value = value.strip(self.transform_strip)\n            else:\n                value = value.strip()\n\n        if self.transform_case:\n            value = value.lower() if self.transform_case == \"lower\" else value.upper()\n")

# D32: a second validator registration keeps the first
SUPPORT_PY = "cincoconfig/support.py"
V("C11-validator-replaced-again", "C11", "D32 re-opened: validator(field) stores the new function over the earlier one", SUPPORT_PY,
  "            previous = field.validator\n            if not previous:\n                field.validator = func  # type: ignore\n            else:",
  "            previous = field.validator\n            if previous is not func:\n                field.validator = func  # type: ignore\n            else:")
V("C11-validator-chain-late-read", "C11", "the chained validator reads field.validator when it runs (finds itself), not the earlier validator", SUPPORT_PY,
  "                    cfg, previous(cfg, value)  # type: ignore", "                    cfg, field.validator(cfg, value)  # type: ignore")
V("C11-validator-chain-drops-new", "C11", "the chained validator runs only the earlier validator", SUPPORT_PY,
  "                field.validator = lambda cfg, value: func(  # type: ignore\n                    cfg, previous(cfg, value)  # type: ignore\n                )",
  "                field.validator = lambda cfg, value: previous(cfg, value)  # type: ignore")
V("C11-validator-chain-named-def-ok", "C11", "refactoring: the chained validator is a named nested function, `previous is None` test", SUPPORT_PY,
  "            if not previous:\n                field.validator = func  # type: ignore\n            else:\n                # a validator is already registered (an earlier decorator or the ``validator``\n                # option): keep it, each validator receives the value the one before it returned\n                field.validator = lambda cfg, value: func(  # type: ignore\n                    cfg, previous(cfg, value)  # type: ignore\n                )",
  "            if previous is None:\n                field.validator = func  # type: ignore\n            else:\n                def chained(cfg, value, _first=previous):\n                    return func(cfg, _first(cfg, value))\n\n                field.validator = chained  # type: ignore",
  expect="silent")

# D33: a configuration handed in is adopted only when it was created from the receiving field's schema
LIST_PY = "cincoconfig/fields/list_field.py"
V("C01-foreign-config-adopted-again", "C01", "D33 re-opened: _set_value adopts a configuration of any schema", CORE,
  "            if expected is not None and value._schema is not expected:", "            if expected is None and value._schema is not expected:")
V("C01-foreign-config-own-schema-compared", "C01", "_set_value compares the handed-in configuration's schema with the receiving configuration's own", CORE,
  "            if expected is not None and value._schema is not expected:", "            if expected is not None and value._schema is not self._schema:", expect="fire")
V("C01-foreign-config-into-list-again", "C01", "D33 re-opened: ListProxy._validate adopts a configuration of any schema", LIST_PY,
  "                if value._schema is not config_schema(self.item_field):\n                    raise ValueError(\"configuration was created from a different schema\")\n", "")
V("C01-foreign-config-list-self-compare", "C01", "ListProxy._validate compares the configuration's schema with itself", LIST_PY,
  "                if value._schema is not config_schema(self.item_field):", "                if value._schema is not config_schema(value._schema):")
V("C01-foreign-config-or-form-ok", "C01", "refactoring: the schema test written as `expected is None or same`", CORE,
  "            if expected is not None and value._schema is not expected:\n                # a configuration created from another schema holds values this field's schema\n                # never validated\n                raise ValidationError(\n                    self, field, \"configuration was created from a different schema\"\n                )\n            value._parent = self\n            value._key = key\n",
  "            if not (expected is None or value._schema is expected):\n                raise ValidationError(\n                    self, field, \"configuration was created from a different schema\"\n                )\n            value._parent = self\n            value._key = key\n",
  expect="silent")

# D34: key files named further down survive the replacement of a sub-configuration
V("C03-deep-keyfile-lost-again", "C03", "D34 re-opened: the take-over no longer visits the nested configurations", CORE,
  "        for key, old in previous._data.items():\n            new = self._data.get(key)\n            if isinstance(old, Config) and isinstance(new, Config):\n                new._adopt_keyfiles(old)\n", "")
V("C03-keyfile-takeover-dropped", "C03", "the replaced sub-configuration's key file is not taken over at all", CORE,
  "            if isinstance(previous, Config):\n                # the sub-configuration being replaced (or one below it) named its own key file:\n                # its secrets were encrypted with that key, so the new one keeps using it\n                cfg._adopt_keyfiles(previous)\n", "")
V("C03-keyfile-takeover-after-load", "C03", "the key files are taken over after the nested map was loaded (and decrypted)", CORE,
  "                cfg._adopt_keyfiles(previous)\n            cfg.load_tree(value)  # load_tree will raise a ValidationError on error\n",
  "                pass\n            cfg.load_tree(value)  # load_tree will raise a ValidationError on error\n            if isinstance(previous, Config):\n                cfg._adopt_keyfiles(previous)\n")
