"""
Seeded variants (expect='fire') and benign refactors (expect='silent'), as textual edits of the
current /repo tree.  ``V(id, property, what, file, old, new, expect='fire', **kw)``; several edits:
pass ``edits=[(file, old, new), ...]``.
"""
VARIANTS = []

CORE = "cincoconfig/core.py"
LIST = "cincoconfig/fields/list_field.py"
DICT = "cincoconfig/fields/dict_field.py"
SEC = "cincoconfig/fields/secure_field.py"
ENC = "cincoconfig/encryption.py"
STR = "cincoconfig/fields/string_field.py"
NUM = "cincoconfig/fields/number_field.py"
NET = "cincoconfig/fields/net_field.py"
BOOL = "cincoconfig/fields/bool_field.py"
BYTES = "cincoconfig/fields/bytes_field.py"
FILE = "cincoconfig/fields/file_field.py"
URL = "cincoconfig/fields/url_field.py"
INC = "cincoconfig/fields/include_field.py"
VIRT = "cincoconfig/fields/virtual_field.py"
IMF = "cincoconfig/fields/instance_method_field.py"
SUP = "cincoconfig/support.py"
STUBS = "cincoconfig/stubs.py"
XML = "cincoconfig/formats/xml.py"
YAML = "cincoconfig/formats/yaml.py"
JSON = "cincoconfig/formats/json.py"
FMT = "cincoconfig/formats/__init__.py"


def V(vid, prop, what, file=None, old=None, new=None, expect="fire", edits=None, **kw):
    es = [{"file": f, "old": o, "new": n} for f, o, n in (edits or [(file, old, new)])]
    d = {"id": vid, "property": prop, "what": what, "expect": expect, "edits": es}
    d.update(kw)
    VARIANTS.append(d)


# ------------------------------------------------------------------------------------------ C06
V("C06-discard-first", "C06", "default mark cleared before __setval__ (which can raise for read-only fields)", CORE,
  """                field.__setval__(self, value)
                self._default_value_keys.discard(key)
                return value""",
  """                self._default_value_keys.discard(key)
                field.__setval__(self, value)
                return value""")
V("C06-store-before-load", "C06", "new sub-config stored before load_tree(value) can reject the dict", CORE,
  """            cfg._key = key
            cfg.load_tree(value)  # load_tree will raise a ValidationError on error
            value = cfg""",
  """            cfg._key = key
            self._data[key] = cfg
            cfg.load_tree(value)  # load_tree will raise a ValidationError on error
            value = cfg""")
V("C06-append-then-validate", "C06", "ListProxy.append writes, then validates", LIST,
  "        super().append(self._validate(item))",
  "        super().append(item)\n        self._validate(item)")
V("C06-load-before-includes", "C06", "load_tree before _process_includes", CORE,
  """        tree = formatter.loads(self, content)
        tree = self._process_includes(self._schema, tree, format_factory)
""",
  """        tree = formatter.loads(self, content)
        self.load_tree(tree)
        tree = self._process_includes(self._schema, tree, format_factory)
""")
V("C06-dict-setitem-early", "C06", "DictProxy.__setitem__ stores the raw pair before validating", DICT,
  """        key, value = self._validate(key, value)
        super().__setitem__(key, value)

    def _ref_path""",
  """        super().__setitem__(key, value)
        key, value = self._validate(key, value)
        super().__setitem__(key, value)

    def _ref_path""")
V("C06-discard-finally", "C06", "discard moved into a finally clause (runs on rejection too)", CORE,
  """            try:
                value = field.validate(self, value)
            except ValidationError:
                raise
            except Exception as err:
                raise ValidationError(self, field, err) from err
            else:
                field.__setval__(self, value)
                self._default_value_keys.discard(key)
                return value""",
  """            try:
                value = field.validate(self, value)
            except ValidationError:
                raise
            except Exception as err:
                raise ValidationError(self, field, err) from err
            else:
                field.__setval__(self, value)
                return value
            finally:
                self._default_value_keys.discard(key)""")
V("C06-benign-helper", "C06", "store + unmark extracted into a helper", CORE, expect="silent", edits=[
    (CORE, """                field.__setval__(self, value)
                self._default_value_keys.discard(key)
                return value""",
     """                self._store(field, key, value)
                return value"""),
    (CORE, """    def __setattr__(self, name: str, value: Any) -> Any:
        \"\"\"
        Validate a configuration value and set it.""",
     """    def _store(self, field: Field, key: str, value: Any) -> None:
        field.__setval__(self, value)
        self._default_value_keys.discard(key)

    def __setattr__(self, name: str, value: Any) -> Any:
        \"\"\"
        Validate a configuration value and set it."""),
])
