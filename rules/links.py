"""
Typestate of sub-configurations created while loading / assigning / building defaults:
NEW_CONFIG -> LINK(_parent [, _container]) -> {LOAD_TREE, store}.  Shared by C02, C03 and C15
(errors raised inside the load compute their path through these links; secrets loaded inside it
find their key file through them).
"""
from __future__ import annotations

import ast
from typing import Dict, List, Optional, Set

from engine.defuse import value_sources
from engine.flow import must_pass, reachable_from_entry, same_name_value
from engine.model import FunctionInfo

_LP_CACHE: Dict[int, Set[str]] = {}


def linking_params(an, fn: FunctionInfo, _stack=None) -> Set[str]:
    """Parameters of fn (a constructor or factory) whose argument ends up as Config._parent."""
    if id(fn) in _LP_CACHE:
        return _LP_CACHE[id(fn)]
    _stack = _stack or []
    if fn in _stack:
        return set()
    out: Set[str] = set()
    model = an.model
    Config = model.cls("Config")
    if fn.cls is Config and fn.name == "__init__":
        # base case: a store self._parent = <param>
        for x in ast.walk(fn.node):
            if isinstance(x, ast.Assign) and any(isinstance(t, ast.Attribute) and t.attr == "_parent" and isinstance(t.value, ast.Name)
                                                 and t.value.id == fn.self_name for t in x.targets):
                if isinstance(x.value, ast.Name) and x.value.id in [a.arg for a in fn.params]:
                    out.add(x.value.id)
    else:
        g = an.cfg(fn)
        params = {a.arg for a in fn.params}
        for n in g.nodes:
            if n.kind != "call":
                continue
            for t in an.targets(fn, n):
                if t.kind not in ("fn", "ctor") or t.fn is None:
                    continue
                callee = t.fn
                if callee.cls is None or not (callee.cls.is_subclass_of(Config) or callee.name == "__call__"):
                    continue
                lp = linking_params(an, callee, _stack + [fn])
                if not lp:
                    continue
                b = an.bind_args(t, fn, n)
                for p in lp:
                    a = b.get(p)
                    if a is None:
                        continue
                    for kind, payload in value_sources(fn, a, n):
                        if kind == "param" and payload in params:
                            out.add(payload)
    _LP_CACHE[id(fn)] = out
    return out


def creates_config(an, fn, node) -> bool:
    """Does this call node always produce a new Config (constructor or factory)?"""
    if node.kind != "call":
        return False
    Config = an.model.cls("Config")
    tg = an.targets(fn, node)
    if not tg:
        return False
    for t in tg:
        if t.kind == "ctor" and isinstance(t.cls, type(Config)) and t.cls.is_subclass_of(Config):
            continue
        if t.kind == "fn" and t.fn is not None and t.fn.name == "__call__" and an.returns_fresh(t):
            rt = an.types.return_type(t.fn)
            if rt != "ANY" and rt and all(isinstance(a, str) and a in an.model.classes and an.model.classes[a].is_subclass_of(Config) for a in rt):
                continue
        return False
    return True


def created_linked(an, fn, node) -> (bool, str):
    """Is the object created at node linked to a parent by the creation itself, for every target?"""
    missing = []
    for t in an.targets(fn, node):
        callee = t.fn
        if callee is None:
            missing.append(str(t))
            continue
        lp = linking_params(an, callee)
        b = an.bind_args(t, fn, node)
        ok = any(b.get(p) is not None and not (isinstance(b.get(p), ast.Constant) and b.get(p).value is None) for p in lp)
        if not ok:
            missing.append("%s%s" % (callee.qualname, " (accepts a parent but does not hand it to Config.__init__)"
                                     if not lp and any(a.arg in ("parent", "cfg") for a in callee.params) else ""))
    return (not missing), ", ".join(missing)


def factory_keys(an, fn, _depth=0) -> bool:
    """Does every object this factory returns have ._key set from the field's own key?"""
    if _depth > 3:
        return False
    g = an.cfg(fn)
    rets = [n for n in g.nodes if n.kind == "return"]
    if not rets:
        return False
    for r in rets:
        v = r.ast.value
        if not isinstance(v, ast.Name):
            # return Config(self, parent, ...) inside a Schema method: key = schema key = field key (L1)
            if isinstance(v, ast.Call) and fn.cls is not None and fn.cls.name == "Schema" and v.args and isinstance(v.args[0], ast.Name) \
                    and v.args[0].id == fn.self_name:
                continue
            return False
        stores = {m for m in g.nodes if m.kind == "assign" and isinstance(m.ast, ast.Assign) and any(
            isinstance(t, ast.Attribute) and t.attr == "_key" and isinstance(t.value, ast.Name) and t.value.id == v.id for t in m.ast.targets)
            and isinstance(m.ast.value, ast.Attribute) and m.ast.value.attr == "_key"}
        def not_a_config(a, b, lbl):
            # leaving the store out is fine for a value that is not a configuration at all
            e = a.ast
            return (a.kind == "test" and lbl is False and isinstance(e, ast.Call) and isinstance(e.func, ast.Name) and e.func.id == "isinstance"
                    and isinstance(e.args[0], ast.Name) and e.args[0].id == v.id and "Config" in ast.unparse(e.args[1]))
        if not stores or g.path(g.entry, lambda x, r=r: x is r, may_raise=lambda x: False, stop=lambda x: x in stores,
                                edge_filter=lambda a, b, lbl: not not_a_config(a, b, lbl)) is not None:
            return False
    return True


def created_keyed(an, fn, node) -> (bool, str):
    """Is the sub-configuration created at node given its field's key by the creation itself?"""
    Config = an.model.cls("Config")
    missing = []
    for t in an.targets(fn, node):
        if t.kind == "ctor":
            # Config(<schema bound as a field>, ...): Config.__init__ copies schema._key, which __setkey__ set to the field key
            call = node.ast
            bound_schema = t.cls is Config and fn.cls is not None and fn.cls.name == "Schema" and call.args and \
                isinstance(call.args[0], ast.Name) and call.args[0].id == fn.self_name
            if not bound_schema:
                missing.append("%s(...) takes its key from the type's own (unbound) schema" % t.cls.name)
        elif t.kind == "fn" and t.fn is not None:
            if not factory_keys(an, t.fn):
                missing.append("%s does not set ._key" % t.fn.qualname)
        else:
            missing.append(str(t))
    return (not missing), "; ".join(missing)


def sub_config_sites(an):
    """(fn, creation node, variable name | None, [use nodes]) for every place that creates a
    sub-configuration and then loads into it / stores it."""
    model = an.model
    Config = model.cls("Config")
    out = []
    for fn in an.fns():
        # factories themselves hand the object back; they are judged through linking_params
        if fn.name in ("__call__",) or (fn.cls is not None and fn.cls.is_subclass_of(Config) and fn.name == "__init__"):
            continue
        g = an.cfg(fn)
        reach = reachable_from_entry(an, fn)
        for n in g.nodes:
            if n not in reach or not creates_config(an, fn, n):
                continue
            var = None
            par = getattr(n.ast, "_parent", None)
            if isinstance(par, ast.Assign) and par.value is n.ast and len(par.targets) == 1 and isinstance(par.targets[0], ast.Name):
                var = par.targets[0].id
            uses = []
            for u in g.nodes:
                if u not in reach:
                    continue
                if u.kind == "call" and isinstance(u.ast.func, ast.Attribute):
                    recv = u.ast.func.value
                    cs = an.callees(fn, u)
                    if any(c.name == "load_tree" for c in cs) and var and isinstance(recv, ast.Name) and recv.id == var \
                            and _from_creation(fn, recv, u, n):
                        uses.append(("load_tree", u))
                    if any(c.name == "_set_default_value" for c in cs):
                        for a in u.ast.args:
                            if a is n.ast or (var and isinstance(a, ast.Name) and a.id == var and _from_creation(fn, a, u, n)):
                                uses.append(("store-default", u))
                if u.kind == "assign" and isinstance(u.ast, ast.Assign):
                    for t in u.ast.targets:
                        if isinstance(t, ast.Subscript) and isinstance(t.value, ast.Attribute) and t.value.attr == "_data":
                            v = u.ast.value
                            if v is n.ast or (isinstance(v, ast.Name) and any(
                                    k == "expr" and pl is n.ast for k, pl in value_sources(fn, v, u))):
                                uses.append(("store", u))
            if uses:
                out.append((fn, n, var, uses))
    return out


def _from_creation(fn, name_expr, at, creation) -> bool:
    return any(k == "expr" and pl is creation.ast for k, pl in value_sources(fn, name_expr, at))


def _schema_checked(an, fn, sp, u, holds_p, p, starts):
    """Is the use *u* of the caller's configuration dominated by a test that its schema is the one the receiving field creates
    configurations from?  Accepted: `<p>._schema is E` known true, also inside `E is None or ...` known true / `E is not None and
    <p>._schema is not E` known false (no expected schema: the field holds no configurations), where E does not come from p itself,
    is not a constant and is not the receiving configuration's own schema."""
    from engine.flow import guard_atoms, none_test

    def schema_side(e, at):
        return isinstance(e, ast.Attribute) and e.attr == "_schema" and holds_p(e.value, at)

    def other_ok(e, at):
        srcs = sp.sources(e, at) if isinstance(e, (ast.Name, ast.IfExp, ast.BoolOp)) else [("expr", e)]
        real = [(k, pl) for k, pl in srcs if not (k == "expr" and isinstance(pl, ast.Constant))]
        if not real:
            return False
        for k, pl in real:
            if k == "param" and pl == p:
                return False
            if k == "expr":
                for x in ast.walk(pl):
                    if isinstance(x, ast.Name) and holds_p(x, at):
                        return False
                if isinstance(pl, ast.Attribute) and pl.attr == "_schema" and isinstance(pl.value, ast.Name) and pl.value.id == fn.self_name:
                    return False
        return True

    def identity(e, want_same, at):
        """e says (want_same) / denies (not want_same) that p's schema is E; returns E"""
        if isinstance(e, ast.Compare) and len(e.ops) == 1:
            same = isinstance(e.ops[0], (ast.Is, ast.Eq))
            diff = isinstance(e.ops[0], (ast.IsNot, ast.NotEq))
            if (same and want_same) or (diff and not want_same):
                a, b = e.left, e.comparators[0]
                if schema_side(a, at) and other_ok(b, at):
                    return b
                if schema_side(b, at) and other_ok(a, at):
                    return a
        return None

    def passing_label(e, t):
        """the outcome of test e under which p's schema is the expected one (or no schema is expected); None: not such a test"""
        if isinstance(e, ast.UnaryOp) and isinstance(e.op, ast.Not):
            r = passing_label(e.operand, t)
            return None if r is None else (not r)
        if identity(e, True, t) is not None:
            return True
        if identity(e, False, t) is not None:
            return False
        if isinstance(e, ast.BoolOp):
            # `E is None or same` true  /  `E is not None and different` false
            is_or = isinstance(e.op, ast.Or)
            found, rest_ok = None, True
            for v in e.values:
                other = identity(v, is_or, t)
                if other is not None and found is None:
                    found = other
                    continue
                nt = none_test(v, is_or) or (None if is_or else (v if isinstance(v, ast.Name) else None))
                if nt is None:
                    rest_ok = False
            if found is not None and rest_ok:
                return is_or
        return None

    g = an.cfg(fn)
    tests = {}
    for t in g.nodes:
        if t.kind == "test" and t in sp.nodes and isinstance(t.ast, ast.expr):
            lbl = passing_label(t.ast, t)
            if lbl is not None:
                tests[t] = lbl
    if not tests:
        return False
    # the flow graph evaluates `and` / `or` operand by operand: `E is not None` failing (no schema expected) passes as well
    expected = set()
    for t in tests:
        for x in ast.walk(t.ast):
            if isinstance(x, ast.Compare) and len(x.ops) == 1:
                for side, oth in ((x.left, x.comparators[0]), (x.comparators[0], x.left)):
                    if schema_side(side, t) and isinstance(oth, ast.Name):
                        expected.add(oth.id)
    for t in g.nodes:
        if t.kind == "test" and t in sp.nodes and t not in tests and isinstance(t.ast, ast.expr):
            for want_none in (True, False):
                inner = none_test(t.ast, want_none)
                if isinstance(inner, ast.Name) and inner.id in expected:
                    tests[t] = want_none      # `E is None` true / `E is not None` false
            if isinstance(t.ast, ast.Name) and t.ast.id in expected:
                tests[t] = False              # `if E and ...`
    # under "p is a configuration": no path from where p enters (the function, or the local that is used) to the use that leaves
    # every such test by its other outcome
    starts = [st for st in starts if st is not None] or [g.entry]
    ef = lambda a_, b_, l_: sp.edge_ok(a_, b_, l_) and not (a_ in tests and l_ == tests[a_])
    for st in starts:
        # the test may sit before the copy into the local that is used, or between the copy and the use
        to_copy = st is g.entry or g.path(g.entry, lambda x, st=st: x is st, may_raise=lambda x: False, edge_filter=ef) is not None
        to_use = g.path(st, lambda x: x is u, may_raise=lambda x: False, from_successors=st is not g.entry and st is not u, edge_filter=ef) is not None
        if to_copy and to_use:
            return False
    return True


def check_adopted(ctx, rule_prefix="link", schema_rule=None, validated_rule=None):
    """A configuration object handed in by the caller (assigned to a sub-configuration field, appended to a list of
    configurations) is adopted: _parent (and _key; _container for list items) are set before it is stored / returned."""
    an, model = ctx.an, ctx.model
    from engine.defuse import reaching_defs
    Config = model.cls("Config")
    targets = [model.method("Config", "_set_value")]
    for c in model.classes.values():
        if c.node is not None and (c.is_subclass_of("list") or c.is_subclass_of("dict")) and "_validate" in c.methods:
            targets.append(c.methods["_validate"])
    nsites = 0
    for fn in targets:
        g = an.cfg(fn)
        rd = reaching_defs(fn)
        ft = an.ft(fn)
        params = [a.arg for a in fn.params if a.arg != fn.self_name]
        for p in params:
            # is p ever narrowed to a configuration?
            def is_p(e, at, p=p):
                """the parameter itself or a local copy of it (an inlined helper's own parameter name)"""
                if not isinstance(e, ast.Name):
                    return False
                if e.id == p:
                    return True
                srcs = value_sources(fn, e, at)
                return bool(srcs) and all(k == "param" and pl == p for k, pl in srcs)
            narrows = [x for x in ast.walk(fn.node) if isinstance(x, ast.Call) and isinstance(x.func, ast.Name) and x.func.id == "isinstance"
                       and len(x.args) == 2 and is_p(x.args[0], None) and "Config" in (ft.class_spec(x.args[1], {}) or [])]
            if not narrows:
                continue
            # the function specialised for "p is a configuration": whatever form the test takes (a branch, a flag computed
            # earlier, an early exit), only the paths a configuration can take remain
            from engine.specialize import Spec

            def decide(e, node, sp, p=p):
                if isinstance(e, ast.Call) and isinstance(e.func, ast.Name) and e.func.id == "isinstance" and len(e.args) == 2 and isinstance(e.args[0], ast.Name):
                    x = e.args[0]
                    if x.id != p:
                        srcs = sp.sources(x, node) if sp.rd is not None else value_sources(fn, x, node)
                        if not (srcs and all(k == "param" and pl == p for k, pl in srcs)):
                            return None
                    spec = ft.class_spec(e.args[1], {}) or []
                    if "Config" in spec:
                        return True
                    if spec and all(s_ in ("dict", "list", "tuple", "str", "int", "float", "bool", "bytes", "set") for s_ in spec):
                        return False
                return None
            sp = Spec(an, fn, decide)

            def holds_p(e, at):
                if not isinstance(e, (ast.Name, ast.IfExp, ast.BoolOp, ast.NamedExpr)):
                    return False
                srcs = sp.sources(e, at)
                return bool(srcs) and all(k == "param" and pl == p for k, pl in srcs)
            def starts_from_p(e, at):
                """where the value used at *at* can have come from p: the function entry (p itself) or the assignment that
                copied p into the local that is used"""
                if not isinstance(e, ast.Name):
                    return []
                out_ = []
                for d in sp.rd.reaching(at, e.id):
                    if d.node is not None and d.node not in sp.nodes:
                        continue
                    if d.kind == "param" and d.name == p:
                        out_.append(g.entry)
                    elif d.kind == "assign" and d.value is not None and holds_p(d.value, d.node):
                        out_.append(d.node)
                    elif d.kind == "unpack" and isinstance(d.value, (ast.Tuple, ast.List)) and d.index is not None and d.index < len(d.value.elts) \
                            and holds_p(d.value.elts[d.index], d.node):
                        out_.append(d.node)
                return out_
            # uses: stored into _data, or handed back (proxy validators)
            uses = []
            used_of = {}
            for n in g.nodes:
                if n not in sp.normal:
                    continue
                if n.kind == "assign" and isinstance(n.ast, ast.Assign) and any(
                        isinstance(t, ast.Subscript) and isinstance(t.value, ast.Attribute) and t.value.attr == "_data" for t in n.ast.targets):
                    if starts_from_p(n.ast.value, n):
                        uses.append(("stored", n))
                if n.kind == "return" and fn.name == "_validate" and n.ast.value is not None and starts_from_p(n.ast.value, n):
                    uses.append(("handed to the container", n))
                if n.kind == "return" and fn.name == "_validate" and isinstance(n.ast.value, ast.Tuple):
                    # a (key, value) pair: the component that can be the caller's configuration
                    for el in n.ast.value.elts:
                        if isinstance(el, ast.Name) and starts_from_p(el, n):
                            uses.append(("handed to the container", n))
                            used_of[id(n)] = el
            wanted = ["_parent", "_key"] + (["_container"] if fn.name == "_validate" else [])
            for what, u in uses:
                nsites += 1
                if validated_rule is not None:
                    if fn.name != "_validate":
                        continue        # _set_value: the configuration keeps the values it validated itself (C11 speaks of list / dict items)
                    used_ = used_of.get(id(u), u.ast.value)
                    vnodes = {m for m in g.nodes if m.kind == "call" and isinstance(m.ast.func, ast.Attribute) and m.ast.func.attr == "validate" and not m.ast.args
                              and isinstance(m.ast.func.value, ast.Name) and (holds_p(m.ast.func.value, m) or starts_from_p(m.ast.func.value, m))}
                    bad_ = None
                    for st in starts_from_p(used_, u) or [g.entry]:
                        before = st is not g.entry and g.path(g.entry, lambda x, st=st: x is st, may_raise=lambda x: False,
                                                              stop=lambda x, st=st: x in vnodes and x is not st, edge_filter=sp.edge_ok) is None
                        if before:
                            continue
                        bad_ = bad_ or g.path(st, lambda x, u=u: x is u, may_raise=lambda x: False, from_successors=st is not g.entry,
                                              stop=lambda x: x in vnodes and x is not u, edge_filter=sp.edge_ok)
                    ctx.ob(validated_rule, fn, "%s.validate() before the configuration is %s" % (p, what), bad_ is None,
                           "a configuration object handed in is validated (required fields, validators) before the container takes it" if bad_ is None else
                           "%s takes a configuration object without validating it: an item with an unset required field or a failing validator "
                           "enters the container, and a later validate() of the owner does not look into it" % fn.qualname, node=u)
                    continue
                if schema_rule is not None:
                    okc = _schema_checked(an, fn, sp, u, holds_p, p, starts_from_p(used_of.get(id(u), u.ast.value), u))
                    ctx.ob(schema_rule, fn, "%s._schema tested before the configuration is %s" % (p, what), okc,
                           "a configuration handed in is %s only when it was created from the schema of the receiving field" % what if okc else
                           "a configuration created from any schema is %s: the values read below this field were validated by another "
                           "schema's fields, not by the ones declared here" % what, node=u)
                    continue
                for attr in wanted:
                    used = used_of.get(id(u), u.ast.value)
                    links = {m for m in g.nodes if m.kind == "assign" and isinstance(m.ast, ast.Assign) and any(
                        isinstance(t, ast.Attribute) and t.attr == attr and (holds_p(t.value, m) or (
                            isinstance(t.value, ast.Name) and isinstance(used, ast.Name) and t.value.id == used.id and starts_from_p(t.value, m)))
                        for t in m.ast.targets)}
                    redefs = {m for m in g.nodes if any(d.name == used.id for d in rd.defs_at.get(m, []))} if isinstance(used, ast.Name) else set()
                    bad = None
                    for st in starts_from_p(used, u):
                        # the link is made before the configuration is copied into the local, or between the copy and the use
                        before = st is not g.entry and g.path(g.entry, lambda x, st=st: x is st, may_raise=lambda x: False,
                                                              stop=lambda x, st=st: x in links and x is not st, edge_filter=sp.edge_ok) is None
                        if before:
                            continue
                        after = g.path(st, lambda x, u=u: x is u, may_raise=lambda x: False, from_successors=st is not g.entry,
                                       stop=lambda x, st=st: (x in links or (x in redefs and x is not st)) and x is not u, edge_filter=sp.edge_ok)
                        bad = bad or after
                    ctx.ob("%s.adopted" % rule_prefix, fn, "%s.%s set before the configuration is %s" % (p, attr, what), bad is None,
                           "a configuration handed in is given %s before it is %s" % (attr, what) if bad is None else
                           "a configuration handed in by the caller is %s without %s being set: key files, error paths and item positions "
                           "below it resolve from the wrong place" % (what, attr), node=u)
    ctx.need(nsites >= 2, "no adoption site found (assigning / appending configuration objects): vanished anchors")


def check_links(ctx, rule_prefix="link", need_container=False, need_key=False):
    an = ctx.an
    check_adopted(ctx, rule_prefix)
    sites = sub_config_sites(an)
    ctx.need(len(sites) >= 3, "fewer than 3 sub-configuration creation sites found (%d): vanished anchors" % len(sites))
    for fn, n, var, uses in sites:
        linked, missing = created_linked(an, fn, n)
        g = an.cfg(fn)

        def is_var(e, at, var=var, fn=fn, n=n):
            """the variable the new configuration was assigned to, or a local copy of it (an inlined helper's parameter)"""
            return e.id == var or _from_creation(fn, e, at, n)
        if need_key:
            keyed, kmissing = created_keyed(an, fn, n)
            for kind, u in uses:
                okk = keyed
                if not okk and var:
                    ks = {m for m in g.nodes if m.kind == "assign" and isinstance(m.ast, ast.Assign) and any(
                        isinstance(t, ast.Attribute) and t.attr == "_key" and isinstance(t.value, ast.Name) and is_var(t.value, m)
                        for t in m.ast.targets)}
                    if ks and g.path(n, lambda x: x is u, may_raise=lambda x: an.node_may_raise(fn, x),
                                     stop=lambda x: x in ks and x is not u, from_successors=True) is None:
                        okk = True
                ctx.ob("%s.key" % rule_prefix, fn, n.ast, okk,
                       "the sub-configuration carries its field's key before it is %s (line %s)" % (
                           {"load_tree": "loaded", "store": "stored", "store-default": "stored as default"}[kind], u.lineno) if okk else
                       "the sub-configuration is %s (line %s) without its field's key (%s): every error below it is reported with a "
                       "truncated path (e.g. 'port' or 'sub..port' instead of 'sub.db.port')" % (
                           {"load_tree": "loaded", "store": "stored", "store-default": "stored as default"}[kind], u.lineno, kmissing), node=n)
        for kind, u in uses:
            if linked:
                ctx.ob("%s.parent" % rule_prefix, fn, n.ast, True,
                       "created with its parent (the parent argument reaches Config.__init__) before %s at line %s" % (kind, u.lineno), node=n)
                continue
            ok = False
            if var:
                links = {m for m in g.nodes if m.kind == "assign" and isinstance(m.ast, ast.Assign) and any(
                    isinstance(t, ast.Attribute) and t.attr == "_parent" and isinstance(t.value, ast.Name) and is_var(t.value, m)
                    for t in m.ast.targets)}
                if links and g.path(n, lambda x: x is u, may_raise=lambda x: an.node_may_raise(fn, x),
                                    stop=lambda x: x in links and x is not u, from_successors=True) is None:
                    ok = True
            ctx.ob("%s.parent" % rule_prefix, fn, n.ast, ok,
                   "%s._parent is stored on every path before %s at line %s" % (var, kind, u.lineno) if ok else
                   "the sub-configuration is %s (line %s) without ever being linked to its parent: %s -- key files, "
                   "error paths and environment prefixes are resolved from the wrong root" % (
                       {"load_tree": "loaded", "store": "stored", "store-default": "stored as default"}[kind], u.lineno, missing),
                   node=n)
            if need_container and kind == "load_tree" and fn.cls is not None and (fn.cls.is_subclass_of("list") or fn.cls.is_subclass_of("dict")):
                cl = {m for m in g.nodes if m.kind == "assign" and isinstance(m.ast, ast.Assign) and any(
                    isinstance(t, ast.Attribute) and t.attr == "_container" and isinstance(t.value, ast.Name) and is_var(t.value, m)
                    for t in m.ast.targets)}
                okc = bool(cl) and g.path(n, lambda x: x is u, may_raise=lambda x: an.node_may_raise(fn, x),
                                          stop=lambda x: x in cl and x is not u, from_successors=True) is None
                ctx.ob("%s.container" % rule_prefix, fn, n.ast, okc,
                       "%s._container is stored before the load, so errors name the item position" % var if okc else
                       "the list item is loaded before its container link is set: error paths lose the item index", node=n)
