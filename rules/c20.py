"""C20 -- generated type stubs are valid Python that declares every field and method."""
from __future__ import annotations

import ast

from engine.defuse import value_sources
from engine.flow import dominating_guards, falls_through, path_avoiding, reachable_from_entry, returns_of
from .common import CALLS, STATE
from .c13 import FIELDSTATE, CREATING

META = {
    "explanation": (
        "That the emitted text parses for every annotation string is not decided. Decided: nothing reachable from "
        "generate_stub writes to standard output/error; the kind dispatch of get_annotation_typestr is total over "
        "the direct kinds of schema member (every direct subclass of BaseField reaches a non-raising branch; no "
        "superclass test shadows a subclass test); generate_stub and everything it calls is pure with respect to "
        "its argument (no attribute/field-table/container write rooted at a parameter, no field-creating accessor "
        "of Schema); the partition of fields into properties / attributes / methods is total, every field lands "
        "among the annotated attributes unless it is an instance method, and exactly the instance methods and "
        "virtual fields are kept out of the constructor parameters; each instance method is rendered."),
    "decided": ["C20.1 no output reachable (REACH-FREE)", "C20.2 kind dispatch total over field kinds (DISPATCH)",
                "C20.3 purity of stub generation", "C20.4 total partition; constructor parameters = persistent fields; methods rendered"],
    "not_decided": ["that the emitted text parses for every annotation string / parameter kind combination"],
}


def check(ctx):
    an, model = ctx.an, ctx.model
    calls = an.summary(CALLS)
    gs = model.function("stubs", "generate_stub")
    reach = an.reachable_fns([gs])
    # the generator's own helpers, wherever they live now (a function moved to another module and imported back is followed)
    stub_fns = [f for f in reach if f.module.short == "stubs"]
    for nm_ in ("get_annotation_typestr", "get_method_annotation", "get_arg_annotation", "get_retval_annotation"):
        f_ = model.function("stubs", nm_)
        if f_ in reach and f_ not in stub_fns:
            stub_fns.append(f_)
    ctx.need(len(stub_fns) >= 4, "stub generator functions not found")

    # ---------------------------------------------------------------- C20.1
    hits = []
    for f in reach:
        for n in an.cfg(f).nodes:
            if any(e[0] == "PRINT" for e in calls.direct(f, n)):
                hits.append((f, n))
            if n.kind == "call" and isinstance(n.ast.func, ast.Attribute) and n.ast.func.attr in ("write", "writelines") and \
                    any(isinstance(x, ast.Attribute) and x.attr in ("stdout", "stderr") for x in ast.walk(n.ast.func)):
                hits.append((f, n))
            if n.kind == "call" and ast.unparse(n.ast.func) in ("logging.info", "logging.debug", "logging.warning", "warnings.warn") and f.module.short == "stubs":
                hits.append((f, n))
    if not hits:
        ctx.ob("no-output", gs, "print / sys.stdout / sys.stderr reachable from generate_stub", True,
               "none of the %d functions reachable from generate_stub writes to standard output" % len(reach))
    for f, n in hits:
        ctx.ob("no-output", f, n.ast, False,
               "%s, reachable from generate_stub, writes to standard output: generating a stub prints" % f.qualname, node=n)

    # ---------------------------------------------------------------- C20.2 dispatch
    gat = model.function("stubs", "get_annotation_typestr")
    g = an.cfg(gat)
    ft = an.ft(gat)
    fparam = gat.positional_params[0]
    Base = model.cls("BaseField")
    tests = []

    def is_arg(x, node):
        if not isinstance(x, ast.Name):
            return False
        if x.id == fparam:
            return True
        srcs = value_sources(gat, x, node)          # a local that only ever holds the parameter
        return bool(srcs) and all(k == "param" and pl == fparam for k, pl in srcs)
    for t in g.nodes:
        if t.kind == "test" and isinstance(t.ast, ast.Call) and ast.unparse(t.ast.func) == "isinstance" and len(t.ast.args) == 2 and is_arg(t.ast.args[0], t):
            spec = ft.class_spec(t.ast.args[1], ft.env_in.get(t) or {})
            if spec:
                tests.append((t, spec))
    ctx.need(bool(tests), "get_annotation_typestr no longer dispatches on the kind of its argument")
    direct = [c for c in model.classes.values() if c.node is not None and Base in c.bases]
    ctx.need(len(direct) >= 3, "direct subclasses of BaseField not found")
    for c in sorted(direct, key=lambda c: c.name):
        # a test accepting c (c is a subclass of a tested class) whose True edge does not run into a raise
        # get_annotation_typestr specialised for "the argument is a c": it must be able to return and must not end in raise
        from engine.specialize import Spec

        def decide(e, node, c=c):
            if isinstance(e, ast.Call) and ast.unparse(e.func) == "isinstance" and len(e.args) == 2 and is_arg(e.args[0], node):
                if ast.unparse(e.args[1]) in ("type", "str", "type(None)", "(type, str)", "(str, type)"):
                    return False
                spec = ft.class_spec(e.args[1], (ft.env_in.get(node) if node is not None else None) or {})
                if spec and all(s_ in model.classes for s_ in spec):
                    return any(c.is_subclass_of(model.classes[s_]) for s_ in spec)
            if isinstance(e, ast.Compare) and len(e.ops) == 1 and is_arg(e.left, node) and isinstance(e.comparators[0], ast.Constant) \
                    and e.comparators[0].value is None and isinstance(e.ops[0], (ast.Is, ast.IsNot)):
                return isinstance(e.ops[0], ast.IsNot)
            return None
        spc = Spec(an, gat, decide)
        accepted = True if (spc.normal_returns() and not spc.raises()) else None
        ctx.ob("dispatch.total", gat, "branch for %s" % c.name, accepted is not None,
               "a %s reaches a non-raising branch" % c.name if accepted is not None else
               "a schema member of kind %s falls through to `raise TypeError`: generate_stub fails for schemas that contain one" % c.name)
    for i, (ta, sa) in enumerate(tests):
        for tb, sb in tests:
            if ta is tb:
                continue
            for a in sa:
                for b in sb:
                    if a != b and an.types.is_sub(b, a) and g.path(ta, lambda n, tb=tb: n is tb, may_raise=lambda n: False, from_successors=True):
                        ctx.ob("dispatch.subclass-first", gat, "isinstance(field, %s) before isinstance(field, %s)" % (b, a), False,
                               "%s is tested after its base %s and is shadowed" % (b, a), node=tb)

    # names that become stub text must be identifiers: __name__ always is, __qualname__ can contain "<locals>"
    for f in stub_fns:
        for x in ast.walk(f.node):
            q = None
            if isinstance(x, ast.Attribute) and x.attr == "__qualname__":
                q = x
            if isinstance(x, ast.Call) and isinstance(x.func, ast.Name) and x.func.id == "getattr" and len(x.args) >= 2 \
                    and isinstance(x.args[1], ast.Constant) and x.args[1].value == "__qualname__":
                q = x
            if q is not None:
                ctx.ob("names.identifier", f, q, False,
                       "%s renders a class through __qualname__, which is not an identifier for function-local classes "
                       "('f.<locals>.C'): the stub is not valid Python for them" % f.qualname, node=q)
    # free text of the schema (help, short_help, a friendly name, a docstring) is not Python: it may span lines, contain quotes or
    # a '#'.  It may only reach the stub as a literal built by repr() / !r, or cut to one line and stripped of line breaks
    FREE_TEXT = ("help", "short_help", "__doc__", "description")
    for f in [x for x in an.fns() if x.module.short == "stubs" and x.node is not None]:
        for x in ast.walk(f.node):
            if isinstance(x, ast.Attribute) and x.attr in FREE_TEXT and isinstance(x.ctx, ast.Load):
                par = getattr(x, "_parent", None)
                safe = (isinstance(par, ast.Call) and isinstance(par.func, ast.Name) and par.func.id in ("repr", "ascii", "bool", "len")) or \
                    (isinstance(par, ast.FormattedValue) and par.conversion in (ord("r"), ord("a")))
                ctx.ob("text.no-free-text", f, x, safe,
                       "schema text enters the stub only as a Python literal" if safe else
                       "%s puts %s into the stub: a help text of several lines (or with a line break in its first paragraph) continues on the "
                       "next line as code -- the stub is not valid Python" % (f.qualname, ast.unparse(x)), node=x)
    # str() of a typing generic (typing.List[C]) spells its arguments with __qualname__ as well
    for f in stub_fns:
        ftf = an.ft(f)
        for n in an.cfg(f).nodes:
            if n.kind == "call" and isinstance(n.ast.func, ast.Name) and n.ast.func.id in ("str", "repr") and len(n.ast.args) == 1 and isinstance(n.ast.args[0], ast.Name):
                srcs = value_sources(f, n.ast.args[0], n)
                from_storage = any(k == "expr" and isinstance(pl, ast.Attribute) and pl.attr == "storage_type" for k, pl in srcs)
                not_a_class = any((not tr) and isinstance(t.ast, ast.Call) and isinstance(t.ast.func, ast.Name) and t.ast.func.id == "isinstance"
                                  and len(t.ast.args) == 2 and isinstance(t.ast.args[1], ast.Name) and t.ast.args[1].id == "type"
                                  for t, tr in dominating_guards(an, f, n))
                if from_storage and not_a_class:
                    ctx.ob("names.identifier", f, "%s() of a storage type that is not a plain class" % n.ast.func.id, False,
                           "%s renders a field's storage type that is not a plain class (typing.List[C], typing.Dict[K, V]) with %s(): typing "
                           "spells the arguments by __qualname__, so a function-local config type inside a typed list gives "
                           "'typing.List[mod.f.<locals>.C]' -- not valid Python" % (f.qualname, n.ast.func.id), node=n)
    ctx.ob("names.identifier", gat, "class names come from __name__", any(
        isinstance(x, ast.Attribute) and x.attr == "__name__" for x in ast.walk(gat.node)),
        "class names are rendered from __name__ (always an identifier)", nontrivial=False)

    # ---------------------------------------------------------------- C20.3 purity
    state = an.summary(STATE)
    fstate = an.summary(FIELDSTATE)
    impure = []
    for f in stub_fns:
        params = {a.arg for a in f.params}
        for n in an.cfg(f).nodes:
            for ev in list(state.node_events(f, n)) + list(fstate.node_events(f, n)):
                if ev[0] in ("W_ATTR", "W_FIELDS", "W_DATA", "W_ATTR_MUT", "MARK", "UNMARK") and ev[1] is not None:
                    root = ev[1][0]
                    if isinstance(root, tuple) and root[0] == "param":
                        impure.append((f, n, ev))
                    elif root == "self":
                        impure.append((f, n, ev))
            hit = [t.fn for t in an.targets(f, n) if t.kind == "fn" and t.fn.cls is model.cls("Schema") and t.fn.name in CREATING and t.via != "name"]
            if hit:
                impure.append((f, n, ("CREATING-ACCESSOR", None, hit[0].qualname)))
            # getattr(x, "name"[, default]) is the attribute load x.name
            if n.kind == "call" and isinstance(n.ast.func, ast.Name) and n.ast.func.id in ("getattr", "hasattr") and len(n.ast.args) >= 2 \
                    and isinstance(n.ast.args[1], ast.Constant) and isinstance(n.ast.args[1].value, str):
                ftf = an.ft(f)
                bt = ftf.type_at(n, n.ast.args[0])
                for tg in ftf.property_targets_on(bt, n.ast.args[1].value):
                    if tg.cls is model.cls("Schema") and tg.name in CREATING:
                        impure.append((f, n, ("CREATING-ACCESSOR", None, "%s via %s(x, %r)" % (tg.qualname, n.ast.func.id, n.ast.args[1].value))))
    if not impure:
        ctx.ob("pure", gs, "no write rooted at a parameter; no field-creating accessor", True,
               "the %d stub functions change neither schema nor configuration" % len(stub_fns))
    for f, n, ev in impure:
        ctx.ob("pure", f, n.ast if n.ast is not None else n.stmt, False,
               "%s in %s: generating a stub alters the schema/configuration it describes (%s)" % (ev[0], f.qualname, ev[2]), node=n)
    # results of memoised functions are shared between calls: mutating them in place is a hidden side effect
    cached = [f for f in an.fns() if any("lru_cache" in d or d.endswith("cache") or d.endswith("cache()") for d in f.decorators)]
    from .common import MUTATING_METHODS
    for f in stub_fns:
        gf = an.cfg(f)
        for n in gf.nodes:
            recv = None
            if n.kind == "call" and isinstance(n.ast.func, ast.Attribute) and n.ast.func.attr in MUTATING_METHODS and isinstance(n.ast.func.value, ast.Name):
                recv = n.ast.func.value
            elif n.kind == "assign" and isinstance(n.ast, ast.AugAssign) and isinstance(n.ast.target, ast.Name):
                recv = n.ast.target
            elif n.kind == "assign" and isinstance(n.ast, ast.Assign) and isinstance(n.ast.targets[0], ast.Subscript) and isinstance(n.ast.targets[0].value, ast.Name):
                recv = n.ast.targets[0].value
            if recv is None:
                continue
            for kind, payload in value_sources(f, recv, n):
                src = payload[0] if kind in ("unpack", "iter") else payload
                if isinstance(src, ast.Call):
                    nn = gf.nodes_for(src)
                    if nn and any(c in cached for c in an.callees(f, nn[0])):
                        ctx.ob("pure.cached-result-mutated", f, n.ast, False,
                               "%s mutates in place a value obtained from the memoised %s: the next stub generated in this process starts "
                               "from the already modified value" % (f.qualname, [c.qualname for c in an.callees(f, nn[0]) if c in cached][0]), node=n)

    # ---------------------------------------------------------------- C20.3' the callable the stub describes is the one registered
    # get_method_annotation reads the signature of field.method: the field has to keep the callable it was given, not a wrapper
    # (a forwarding function has the signature (*args, **kwargs), whatever it wraps)
    imf = model.method("InstanceMethodField", "__init__")
    mp_ = imf.positional_params[1] if len(imf.positional_params) > 1 else None
    nst = 0
    for n_ in an.cfg(imf).nodes:
        if n_.kind == "assign" and isinstance(n_.ast, ast.Assign) and any(
                isinstance(t_, ast.Attribute) and t_.attr == "method" and isinstance(t_.value, ast.Name) and t_.value.id == imf.self_name for t_ in n_.ast.targets):
            nst += 1
            srcs_ = value_sources(imf, n_.ast.value, n_)
            okm_ = bool(srcs_) and all(k_ == "param" and p_ == mp_ for k_, p_ in srcs_)
            ctx.ob("method.kept-as-given", imf, n_.ast, okm_, "the registered callable is stored as it is" if okm_ else
                   "InstanceMethodField keeps %s instead of the callable it was given: the stub is rendered from the signature of what is "
                   "stored, not of what was registered" % ", ".join(sorted({ast.unparse(p_)[:40] if isinstance(p_, ast.AST) else str(p_) for _, p_ in srcs_})), node=n_)
    ctx.need(nst >= 1, "InstanceMethodField.__init__ no longer stores the method")

    # ---------------------------------------------------------------- C20.4 partition
    g = an.cfg(gs)
    _partition(ctx, an, model, gs, g)
    _stub_tail(ctx, an, model, gs, g)


def _partition(ctx, an, model, gs, g):
    """Which fields end up in the class body, the constructor line and the methods.  generate_stub records fields in tables:
    either a loop over the schema's fields that stores into them (`t[key] = ...`, `t.append(...)`) or comprehensions over the
    fields / over other tables with filters.  For a field of each kind, membership in a table is decided from the code --
    for a table filled in the loop, by specialising generate_stub for that kind (is the store reachable?); for a
    comprehension, by evaluating its filters (isinstance by the class hierarchy, `key in <table>` by that table's own
    membership).  The tables are then told apart by what is made of them: the statement that builds `def __init__(...)`,
    the loop / comprehension that calls get_method_annotation, the other loops / comprehensions over a table."""
    from engine.specialize import Spec
    ft = an.ft(gs)
    COMP = (ast.SetComp, ast.DictComp, ast.ListComp, ast.GeneratorExp)
    loops = [n for n in g.nodes if n.kind == "for_iter" and isinstance(n.ast, ast.For) and any(
        isinstance(x, ast.Attribute) and x.attr == "_fields" for x in ast.walk(n.ast.iter))]
    head = loops[0] if loops else None
    stores = {}
    in_head = {id(x) for x in ast.walk(head.ast)} if head is not None else set()
    for n in g.nodes:
        if n.kind == "assign" and isinstance(n.ast, ast.Assign):
            for t in n.ast.targets:
                if isinstance(t, ast.Subscript) and isinstance(t.value, ast.Name):
                    stores.setdefault(t.value.id, []).append(n)
        if n.kind == "call" and isinstance(n.ast, ast.Call) and isinstance(n.ast.func, ast.Attribute) and n.ast.func.attr in ("append", "add") \
                and isinstance(n.ast.func.value, ast.Name) and id(n.ast) in in_head:
            stores.setdefault(n.ast.func.value.id, []).append(n)
    defs = {}
    for x in ast.walk(gs.node):
        if isinstance(x, ast.Assign) and len(x.targets) == 1 and isinstance(x.targets[0], ast.Name):
            defs.setdefault(x.targets[0].id, []).append(x.value)
        elif isinstance(x, ast.AnnAssign) and isinstance(x.target, ast.Name) and x.value is not None:
            defs.setdefault(x.target.id, []).append(x.value)
    unpacked = {}                                   # a, b, c = <value>: name -> [(value, position)]
    for x in ast.walk(gs.node):
        if isinstance(x, ast.Assign) and len(x.targets) == 1 and isinstance(x.targets[0], (ast.Tuple, ast.List)):
            for i_, t_ in enumerate(x.targets[0].elts):
                if isinstance(t_, ast.Name):
                    unpacked.setdefault(t_.id, []).append((x.value, i_))

    def store_table(name: ast.Name):
        """the loop-filled table a name stands for (itself, or through `a, b, c = (t1, t2, t3)` / plain aliases)"""
        cur, hops = name.id, 0
        while hops < 8:
            hops += 1
            if cur in stores:
                return cur
            vs = defs.get(cur)
            if vs and len(vs) == 1 and isinstance(vs[0], ast.Name) and cur not in unpacked:
                cur = vs[0].id
                continue
            if cur in unpacked and len(unpacked[cur]) == 1 and not vs:
                src, idx = unpacked[cur][0]
                if isinstance(src, ast.Name):
                    sv = defs.get(src.id)
                    src = sv[0] if sv and len(sv) == 1 else None
                if isinstance(src, (ast.Tuple, ast.List)) and idx < len(src.elts) and isinstance(src.elts[idx], ast.Name):
                    cur = src.elts[idx].id
                    continue
            return None
        return None

    _specs = {}

    def spec_for(kind):
        if kind not in _specs:
            k = model.classes.get(kind)
            field_var = None
            tgt = head.ast.target
            if isinstance(tgt, ast.Tuple) and len(tgt.elts) == 2 and isinstance(tgt.elts[1], ast.Name):
                field_var = tgt.elts[1].id
            elif isinstance(tgt, ast.Name) and isinstance(head.ast.iter, ast.Call) and isinstance(head.ast.iter.func, ast.Attribute) \
                    and head.ast.iter.func.attr == "values":
                field_var = tgt.id

            def decide(e, node):
                if isinstance(e, ast.Call) and isinstance(e.func, ast.Name) and e.func.id == "isinstance" and len(e.args) == 2 \
                        and isinstance(e.args[0], ast.Name) and e.args[0].id == field_var:
                    spec = ft.class_spec(e.args[1], (ft.env_in.get(node) if node is not None else None) or {}) or []
                    if not spec or any(s not in model.classes for s in spec):
                        return None
                    return any(k.is_subclass_of(model.classes[s]) for s in spec)
                return None
            _specs[kind] = Spec(an, gs, decide)
        return _specs[kind]

    def reachable_for(name, kind):
        """can a field of *kind* be stored into table *name*?  (generate_stub specialised for that kind of field)"""
        sp = spec_for(kind)
        return any(n in sp.normal for n in stores.get(name, []))

    def is_fields(e):
        return isinstance(e, ast.Attribute) and e.attr == "_fields"

    def view(e):
        """(base expression, which view) of X / X.items() / X.values() / X.keys()"""
        if isinstance(e, ast.Call) and isinstance(e.func, ast.Attribute) and e.func.attr in ("items", "values", "keys") and not e.args:
            return e.func.value, e.func.attr
        return e, "self"

    def mem(e, kind, depth=0):
        """can (True) / cannot (False) an entry for a field of *kind* be in the collection *e*; None = not read"""
        if depth > 40:
            return None
        if is_fields(e):
            return True
        if isinstance(e, ast.Starred):
            return mem(e.value, kind, depth + 1)
        if isinstance(e, ast.Name):
            st = store_table(e)
            if st is not None and head is not None:
                return reachable_for(st, kind)
            vs = defs.get(e.id)
            if not vs or len(vs) != 1:
                return None
            return mem(vs[0], kind, depth + 1)
        if isinstance(e, (ast.List, ast.Tuple, ast.Set)):
            parts = [mem(x, kind, depth + 1) if isinstance(x, ast.Starred) else (False if isinstance(x, ast.Constant) else None) for x in e.elts]
            if any(p is True for p in parts):
                return True
            return False if all(p is False for p in parts) else None
        if isinstance(e, ast.Dict) and not e.keys:
            return False
        if isinstance(e, ast.BinOp) and isinstance(e.op, (ast.Add, ast.BitOr)):
            a, b = mem(e.left, kind, depth + 1), mem(e.right, kind, depth + 1)
            if a is True or b is True:
                return True
            return False if (a is False and b is False) else None
        if isinstance(e, ast.Call) and isinstance(e.func, ast.Name) and e.func.id in ("list", "dict", "sorted", "tuple", "set", "frozenset") and len(e.args) == 1:
            return mem(view(e.args[0])[0], kind, depth + 1)
        if isinstance(e, COMP) and len(e.generators) == 1:
            gen = e.generators[0]
            base, which = view(gen.iter)
            inb = mem(base, kind, depth + 1)
            if inb is not True:
                return inb
            keyvar = fieldvar = None
            t = gen.target
            if which == "items" and isinstance(t, ast.Tuple) and len(t.elts) == 2 and all(isinstance(x, ast.Name) for x in t.elts):
                keyvar, fieldvar = t.elts[0].id, t.elts[1].id
            elif which in ("keys", "self") and isinstance(t, ast.Name):
                keyvar = t.id
            elif which == "values" and isinstance(t, ast.Name):
                fieldvar = t.id
            if not _holds_fields(base):
                fieldvar = None            # the values of a derived table are annotations, not fields
            res = True
            for c in gen.ifs:
                v = cond(c, kind, keyvar, fieldvar, depth + 1)
                if v is False:
                    return False
                if v is None:
                    res = None
            return res
        return None

    def _holds_fields(base, depth=0):
        """do the values of this mapping stand for the field objects themselves?"""
        if is_fields(base):
            return True
        if isinstance(base, ast.Name) and depth < 6:
            vs = defs.get(base.id)
            if vs and len(vs) == 1:
                v = vs[0]
                if is_fields(v) or isinstance(v, ast.Name):
                    return _holds_fields(v, depth + 1)
                if isinstance(v, ast.DictComp) and len(v.generators) == 1:
                    b, w = view(v.generators[0].iter)
                    t = v.generators[0].target
                    return w == "items" and isinstance(t, ast.Tuple) and len(t.elts) == 2 and isinstance(v.value, ast.Name) \
                        and isinstance(t.elts[1], ast.Name) and v.value.id == t.elts[1].id and _holds_fields(b, depth + 1)
        return False

    def cond(c, kind, keyvar, fieldvar, depth):
        if isinstance(c, ast.UnaryOp) and isinstance(c.op, ast.Not):
            v = cond(c.operand, kind, keyvar, fieldvar, depth + 1)
            return None if v is None else (not v)
        if isinstance(c, ast.BoolOp):
            vs = [cond(v, kind, keyvar, fieldvar, depth + 1) for v in c.values]
            if isinstance(c.op, ast.And):
                return False if any(v is False for v in vs) else (True if all(v is True for v in vs) else None)
            return True if any(v is True for v in vs) else (False if all(v is False for v in vs) else None)
        is_field_expr = isinstance(c, ast.Call) and isinstance(c.func, ast.Name) and c.func.id == "isinstance" and len(c.args) == 2 and (
            (isinstance(c.args[0], ast.Name) and c.args[0].id == fieldvar) or
            # the field looked up by the key: isinstance(schema._fields[key], VirtualField)
            (isinstance(c.args[0], ast.Subscript) and isinstance(c.args[0].slice, ast.Name) and c.args[0].slice.id == keyvar and keyvar is not None
             and _holds_fields(c.args[0].value)))
        if is_field_expr:
            spec = ft.class_spec(c.args[1], {}) or []
            if not spec or any(s_ not in model.classes for s_ in spec):
                return None
            return any(model.classes[kind].is_subclass_of(model.classes[s_]) for s_ in spec)
        if isinstance(c, ast.Compare) and len(c.ops) == 1 and isinstance(c.ops[0], (ast.In, ast.NotIn)) and isinstance(c.left, ast.Name) and c.left.id == keyvar:
            v = mem(c.comparators[0], kind, depth + 1)
            return None if v is None else (v if isinstance(c.ops[0], ast.In) else (not v))
        return None

    # ---- which collection feeds which part of the output
    ctor_stmts, method_iters, class_iters = [], [], []
    for x in ast.walk(gs.node):
        if isinstance(x, ast.Constant) and isinstance(x.value, str) and "def __init__(" in x.value:
            par = x
            while getattr(par, "_parent", None) is not None and not isinstance(par, ast.stmt):
                par = par._parent
            ctor_stmts.append(par)
    in_ctor = {id(y) for st in ctor_stmts for y in ast.walk(st)}
    for x in ast.walk(gs.node):
        iters = []
        if isinstance(x, COMP) and len(x.generators) == 1:
            iters = [(x.generators[0].iter, [x.elt] if not isinstance(x, ast.DictComp) else [x.key, x.value])]
        elif isinstance(x, ast.For) and (head is None or x is not head.ast):
            iters = [(x.iter, x.body)]
        if id(x) in in_ctor:
            continue
        for it, body in iters:
            base = view(it)[0]
            if not isinstance(base, ast.Name) or mem(base, "StringField") is None:
                continue            # not a table of fields
            if any(isinstance(y, ast.Call) and ast.unparse(y.func).endswith("get_method_annotation") for b in body for y in ast.walk(b)):
                method_iters.append(base)
            elif isinstance(x, COMP) and isinstance(getattr(x, "_parent", None), (ast.Assign, ast.AnnAssign)) and not isinstance(x, ast.ListComp):
                continue            # a table defined from another table, not output
            elif isinstance(x, COMP) and isinstance(getattr(x, "_parent", None), (ast.Assign, ast.AnnAssign)) and \
                    any(id(y) in in_ctor for nm in [getattr(x._parent, "targets", [None])[0] or getattr(x._parent, "target", None)] if isinstance(nm, ast.Name)
                        for st in ctor_stmts for y in ast.walk(st) if isinstance(y, ast.Name) and y.id == nm.id):
                continue            # the list the constructor line is made of
            else:
                class_iters.append(base)
    ctor_tables = []
    for st in ctor_stmts:
        seen = set()
        receivers = {id(c.func.value) for c in ast.walk(st) if isinstance(c, ast.Call) and isinstance(c.func, ast.Attribute)
                     and c.func.attr in ("append", "extend", "insert", "add")}         # the output being built, not an input
        work = [y for y in ast.walk(st) if isinstance(y, ast.Name) and isinstance(y.ctx, ast.Load) and id(y) not in receivers]
        while work:
            y = work.pop()
            if y.id in seen:
                continue
            seen.add(y.id)
            if mem(y, "StringField") is not None:
                ctor_tables.append(y)
            elif y.id in defs and len(defs[y.id]) == 1 and isinstance(defs[y.id][0], (ast.BinOp, ast.List, ast.Call)):
                work.extend(z for z in ast.walk(defs[y.id][0]) if isinstance(z, ast.Name) and isinstance(z.ctx, ast.Load))
    ctx.need(bool(ctor_stmts), "generate_stub no longer emits a constructor line")
    ctx.need(bool(class_iters) and bool(method_iters) and bool(ctor_tables),
             "generate_stub: cannot tell which tables feed the class body, the constructor and the methods")
    label = lambda es: sorted({store_table(e) or e.id for e in es})

    # ---- every field is recorded somewhere
    if head is not None and stores:
        body0 = [s for s, lbl in head.succ if lbl is True][0]
        all_store_nodes = {n for ns in stores.values() for n in ns}
        p = path_avoiding(an, gs, body0, lambda n: n is head, lambda n: n in all_store_nodes, exceptions=False)
        ctx.ob("partition.total", gs, "every field is recorded in some table", p is None, "no field is dropped by the partition" if p is None else
               "a field can pass the partition without being recorded: %s" % " -> ".join("%s@%s" % (x.kind, x.lineno) for x in p[:8]))
    else:
        kinds = [k for k in ("StringField", "Schema", "ConfigTypeField", "VirtualField", "InstanceMethodField") if k in model.classes]
        dropped = [k for k in kinds if not any(mem(t, k) is True for t in class_iters + method_iters)]
        ctx.ob("partition.total", gs, "every field is recorded in some table", not dropped, "no field is dropped by the partition" if not dropped else
               "a %s is in neither the class body nor the methods" % dropped[0])
    okc = all(mem(t, "VirtualField") is True and mem(t, "StringField") is True and mem(t, "InstanceMethodField") is False for t in class_iters)
    ctx.ob("partition.attributes-include-virtual", gs, "class body table(s) %s" % label(class_iters), okc,
           "the annotated attributes list every field, virtual ones included, but no instance method" if okc else
           "the annotated attribute list misses virtual or persistent fields, or contains instance methods")
    okk = all(mem(t, "StringField") is True and mem(t, "Schema") is True and mem(t, "VirtualField") is False
              and mem(t, "InstanceMethodField") is False for t in ctor_tables)
    # every kind of field that holds no value of its own (anything built on the virtual / instance-method markers, the classes
    # that exist today and any that is added) stays out of the constructor
    if okk:
        markers = [model.classes[m] for m in ("VirtualFieldMixin", "InstanceMethodFieldMixin") if m in model.classes]
        for k_ in sorted(model.classes):
            kc = model.classes[k_]
            if kc.node is not None and any(kc.is_subclass_of(m) and kc is not m for m in markers) and k_ not in ("VirtualField", "InstanceMethodField"):
                if any(mem(t, k_) is True for t in ctor_tables):
                    okk = False
                    ctx.ob("partition.ctor-only-persistent", gs, "a %s in the constructor table" % k_, False,
                           "a %s (a field without a value of its own: it derives from %s) becomes a constructor parameter -- the stub tests "
                           "for the concrete class, not for the marker the library itself tests" % (
                               k_, [m.name for m in markers if kc.is_subclass_of(m)][0]))
    ctx.ob("partition.ctor-only-persistent", gs, "constructor table(s) %s" % label(ctor_tables), okk,
           "constructor parameters are exactly the persistent fields" if okk else
           "the constructor parameter list contains virtual fields / instance methods or misses persistent fields")
    okm = all(mem(t, "InstanceMethodField") is True and mem(t, "StringField") is False for t in method_iters)
    ctx.ob("partition.methods", gs, "method table(s) %s" % label(method_iters), okm, "one method per instance-method field" if okm else
           "instance methods are not rendered from their own table")



def _stub_tail(ctx, an, model, gs, g):
    # the class body is never empty: the constructor line is emitted on every path (a schema without persistent fields
    # still needs `def __init__(self): ...`, otherwise `class X(...):` has no body and the stub is not valid Python)
    from engine.flow import must_pass
    ctor_nodes = {n for n in g.nodes if n.ast is not None and n.kind in ("assign", "call", "expr") and any(
        isinstance(x, ast.Constant) and isinstance(x.value, str) and "def __init__(" in x.value for x in ast.walk(n.ast))}
    ctx.need(bool(ctor_nodes), "generate_stub no longer emits a constructor line")
    for r in [n for n in g.nodes if n.kind == "return"]:
        p = must_pass(an, gs, r, lambda n: n in ctor_nodes)
        ctx.ob("ctor.always-declared", gs, r.ast, p is None,
               "the constructor is declared whatever the schema contains (the class body is never empty)" if p is None else
               "the constructor line can be skipped (%s): a schema without persistent fields yields `class X(...):` with no body -- not valid Python"
               % " -> ".join("%s@%s" % (x.kind, x.lineno) for x in p[:6]), node=r)
    gma = model.function("stubs", "get_method_annotation")
    rendered = any(n.kind == "call" and gma in an.callees(gs, n) for n in g.nodes)
    ctx.ob("methods.rendered", gs, "get_method_annotation(key, field) for every method", rendered, "each instance method is rendered" if rendered else
           "instance methods are no longer rendered")
    # each component of the FullArgSpec is consumed: by position when the result is unpacked, by attribute otherwise
    NEED = {"args": 0, "varargs": 1, "varkw": 2, "kwonlyargs": 4}

    def is_argspec(v, depth=0):
        """inspect.getfullargspec(...) itself, or a property / accessor of the field that returns it"""
        if isinstance(v, ast.Call) and ast.unparse(v.func).endswith("getfullargspec"):
            return True
        name = v.attr if isinstance(v, ast.Attribute) else (v.func.attr if isinstance(v, ast.Call) and isinstance(v.func, ast.Attribute) and not v.args else None)
        if name is None or depth > 2:
            return False
        cands = [m for c in model.classes.values() for nm, m in c.methods.items() if nm == name]
        return bool(cands) and all(any(isinstance(r, ast.Return) and r.value is not None and is_argspec(r.value, depth + 1) for r in ast.walk(m.node)) for m in cands)
    used = set()
    loads = {x.id for f2 in an.reachable_fns([gma]) for x in ast.walk(f2.node) if isinstance(x, ast.Name) and isinstance(x.ctx, ast.Load)}
    for f2 in an.reachable_fns([gma]):
        for x in ast.walk(f2.node):
            if isinstance(x, ast.Assign) and is_argspec(x.value) and isinstance(x.targets[0], (ast.Tuple, ast.List)):
                for nm, i in NEED.items():
                    if i < len(x.targets[0].elts) and isinstance(x.targets[0].elts[i], ast.Name) and x.targets[0].elts[i].id in loads:
                        used.add(nm)
            if isinstance(x, ast.Attribute) and isinstance(x.ctx, ast.Load) and x.attr in NEED:
                used.add(x.attr)
            if isinstance(x, ast.Attribute) and x.attr == "parameters":
                used |= set(NEED)           # inspect.signature(...).parameters carries every kind
    uses_spec = any((isinstance(x, ast.Call) and ast.unparse(x.func).endswith("signature")) or (isinstance(x, (ast.Call, ast.Attribute)) and is_argspec(x))
                    for f2 in an.reachable_fns([gma]) for x in ast.walk(f2.node))
    covers = used == set(NEED)
    ctx.ob("methods.parameter-kinds", gma, "positional / *args / keyword-only / **kwargs", uses_spec and covers,
           "every parameter kind reported by getfullargspec is rendered" if uses_spec and covers else
           "some parameter kinds of the bound function are not rendered")
    for r in returns_of(an, gs):
        okr = isinstance(r.ast.value, ast.Call) and isinstance(r.ast.value.func, ast.Attribute) and r.ast.value.func.attr == "join"
        ctx.ob("returns-text", gs, r.ast, okr, "returns the joined stub text" if okr else "generate_stub does not return the stub text", node=r, nontrivial=False)
    # class header names the class
    hdr = any(isinstance(x, ast.BinOp) and isinstance(x.op, ast.Mod) and isinstance(x.left, ast.Constant) and isinstance(x.left.value, str)
              and x.left.value.startswith("class %s(") for x in ast.walk(gs.node)) or \
        any(isinstance(x, ast.JoinedStr) and x.values and isinstance(x.values[0], ast.Constant) and str(x.values[0].value).startswith("class ")
            for x in ast.walk(gs.node)) or \
        any(isinstance(x, ast.Call) and isinstance(x.func, ast.Attribute) and x.func.attr == "format" and isinstance(x.func.value, ast.Constant)
            and str(x.func.value.value).startswith("class ") for x in ast.walk(gs.node))
    ctx.ob("declares-one-class", gs, "class %s(...):", hdr, "declares the class under the requested name" if hdr else "the class header is not emitted")
