"""C20 -- generated type stubs are valid Python that declares every field and method."""
from __future__ import annotations

import ast

from engine.defuse import value_sources
from engine.flow import dominating_guards, falls_through, path_avoiding, reachable_from_entry, returns_of
from .common import CALLS, STATE
from .c13 import FIELDSTATE, CREATING

META = {
    "explanation": (
        "That the emitted text parses for every annotation string is not decided. Decided: nothing reachable from "
        "generate_stub writes to standard output/error; the kind dispatch of get_annotation_typestr is total over "
        "the direct kinds of schema member (every direct subclass of BaseField reaches a non-raising branch; no "
        "superclass test shadows a subclass test); generate_stub and everything it calls is pure with respect to "
        "its argument (no attribute/field-table/container write rooted at a parameter, no field-creating accessor "
        "of Schema); the partition of fields into properties / attributes / methods is total, every field lands "
        "among the annotated attributes unless it is an instance method, and exactly the instance methods and "
        "virtual fields are kept out of the constructor parameters; each instance method is rendered."),
    "decided": ["C20.1 no output reachable (REACH-FREE)", "C20.2 kind dispatch total over field kinds (DISPATCH)",
                "C20.3 purity of stub generation", "C20.4 total partition; constructor parameters = persistent fields; methods rendered"],
    "not_decided": ["that the emitted text parses for every annotation string / parameter kind combination"],
}


def check(ctx):
    an, model = ctx.an, ctx.model
    calls = an.summary(CALLS)
    gs = model.function("stubs", "generate_stub")
    reach = an.reachable_fns([gs])
    stub_fns = [f for f in reach if f.module.short == "stubs"]
    ctx.need(len(stub_fns) >= 4, "stub generator functions not found")

    # ---------------------------------------------------------------- C20.1
    hits = []
    for f in reach:
        for n in an.cfg(f).nodes:
            if any(e[0] == "PRINT" for e in calls.direct(f, n)):
                hits.append((f, n))
            if n.kind == "call" and isinstance(n.ast.func, ast.Attribute) and n.ast.func.attr in ("write", "writelines") and \
                    any(isinstance(x, ast.Attribute) and x.attr in ("stdout", "stderr") for x in ast.walk(n.ast.func)):
                hits.append((f, n))
            if n.kind == "call" and ast.unparse(n.ast.func) in ("logging.info", "logging.debug", "logging.warning", "warnings.warn") and f.module.short == "stubs":
                hits.append((f, n))
    if not hits:
        ctx.ob("no-output", gs, "print / sys.stdout / sys.stderr reachable from generate_stub", True,
               "none of the %d functions reachable from generate_stub writes to standard output" % len(reach))
    for f, n in hits:
        ctx.ob("no-output", f, n.ast, False,
               "%s, reachable from generate_stub, writes to standard output: generating a stub prints" % f.qualname, node=n)

    # ---------------------------------------------------------------- C20.2 dispatch
    gat = model.function("stubs", "get_annotation_typestr")
    g = an.cfg(gat)
    ft = an.ft(gat)
    fparam = gat.positional_params[0]
    Base = model.cls("BaseField")
    tests = []
    for t in g.nodes:
        if t.kind == "test" and isinstance(t.ast, ast.Call) and ast.unparse(t.ast.func) == "isinstance" and isinstance(t.ast.args[0], ast.Name) \
                and t.ast.args[0].id == fparam:
            spec = ft.class_spec(t.ast.args[1], ft.env_in.get(t) or {})
            if spec:
                tests.append((t, spec))
    ctx.need(bool(tests), "get_annotation_typestr no longer dispatches on the kind of its argument")
    direct = [c for c in model.classes.values() if c.node is not None and Base in c.bases]
    ctx.need(len(direct) >= 3, "direct subclasses of BaseField not found")
    for c in sorted(direct, key=lambda c: c.name):
        # a test accepting c (c is a subclass of a tested class) whose True edge does not run into a raise
        accepted = None
        for t, spec in tests:
            if any(c.is_subclass_of(model.classes[s]) if s in model.classes else False for s in spec):
                for s2, lbl in t.succ:
                    if lbl is True:
                        dead = g.path(s2, lambda n: n.kind == "raise", may_raise=lambda n: False, stop=lambda n: n.kind == "test") or s2.kind == "raise"
                        if not dead:
                            accepted = t
        ctx.ob("dispatch.total", gat, "branch for %s" % c.name, accepted is not None,
               "a %s reaches a non-raising branch" % c.name if accepted is not None else
               "a schema member of kind %s falls through to `raise TypeError`: generate_stub fails for schemas that contain one" % c.name)
    for i, (ta, sa) in enumerate(tests):
        for tb, sb in tests:
            if ta is tb:
                continue
            for a in sa:
                for b in sb:
                    if a != b and an.types.is_sub(b, a) and g.path(ta, lambda n, tb=tb: n is tb, may_raise=lambda n: False, from_successors=True):
                        ctx.ob("dispatch.subclass-first", gat, "isinstance(field, %s) before isinstance(field, %s)" % (b, a), False,
                               "%s is tested after its base %s and is shadowed" % (b, a), node=tb)

    # names that become stub text must be identifiers: __name__ always is, __qualname__ can contain "<locals>"
    for f in stub_fns:
        for x in ast.walk(f.node):
            q = None
            if isinstance(x, ast.Attribute) and x.attr == "__qualname__":
                q = x
            if isinstance(x, ast.Call) and isinstance(x.func, ast.Name) and x.func.id == "getattr" and len(x.args) >= 2 \
                    and isinstance(x.args[1], ast.Constant) and x.args[1].value == "__qualname__":
                q = x
            if q is not None:
                ctx.ob("names.identifier", f, q, False,
                       "%s renders a class through __qualname__, which is not an identifier for function-local classes "
                       "('f.<locals>.C'): the stub is not valid Python for them" % f.qualname, node=q)
    # str() of a typing generic (typing.List[C]) spells its arguments with __qualname__ as well
    for f in stub_fns:
        ftf = an.ft(f)
        for n in an.cfg(f).nodes:
            if n.kind == "call" and isinstance(n.ast.func, ast.Name) and n.ast.func.id in ("str", "repr") and len(n.ast.args) == 1 and isinstance(n.ast.args[0], ast.Name):
                srcs = value_sources(f, n.ast.args[0], n)
                from_storage = any(k == "expr" and isinstance(pl, ast.Attribute) and pl.attr == "storage_type" for k, pl in srcs)
                not_a_class = any((not tr) and isinstance(t.ast, ast.Call) and isinstance(t.ast.func, ast.Name) and t.ast.func.id == "isinstance"
                                  and len(t.ast.args) == 2 and isinstance(t.ast.args[1], ast.Name) and t.ast.args[1].id == "type"
                                  for t, tr in dominating_guards(an, f, n))
                if from_storage and not_a_class:
                    ctx.ob("names.identifier", f, "%s() of a storage type that is not a plain class" % n.ast.func.id, False,
                           "%s renders a field's storage type that is not a plain class (typing.List[C], typing.Dict[K, V]) with %s(): typing "
                           "spells the arguments by __qualname__, so a function-local config type inside a typed list gives "
                           "'typing.List[mod.f.<locals>.C]' -- not valid Python" % (f.qualname, n.ast.func.id), node=n)
    ctx.ob("names.identifier", gat, "class names come from __name__", any(
        isinstance(x, ast.Attribute) and x.attr == "__name__" for x in ast.walk(gat.node)),
        "class names are rendered from __name__ (always an identifier)", nontrivial=False)

    # ---------------------------------------------------------------- C20.3 purity
    state = an.summary(STATE)
    fstate = an.summary(FIELDSTATE)
    impure = []
    for f in stub_fns:
        params = {a.arg for a in f.params}
        for n in an.cfg(f).nodes:
            for ev in list(state.node_events(f, n)) + list(fstate.node_events(f, n)):
                if ev[0] in ("W_ATTR", "W_FIELDS", "W_DATA", "W_ATTR_MUT", "MARK", "UNMARK") and ev[1] is not None:
                    root = ev[1][0]
                    if isinstance(root, tuple) and root[0] == "param":
                        impure.append((f, n, ev))
                    elif root == "self":
                        impure.append((f, n, ev))
            hit = [t.fn for t in an.targets(f, n) if t.kind == "fn" and t.fn.cls is model.cls("Schema") and t.fn.name in CREATING and t.via != "name"]
            if hit:
                impure.append((f, n, ("CREATING-ACCESSOR", None, hit[0].qualname)))
            # getattr(x, "name"[, default]) is the attribute load x.name
            if n.kind == "call" and isinstance(n.ast.func, ast.Name) and n.ast.func.id in ("getattr", "hasattr") and len(n.ast.args) >= 2 \
                    and isinstance(n.ast.args[1], ast.Constant) and isinstance(n.ast.args[1].value, str):
                ftf = an.ft(f)
                bt = ftf.type_at(n, n.ast.args[0])
                for tg in ftf.property_targets_on(bt, n.ast.args[1].value):
                    if tg.cls is model.cls("Schema") and tg.name in CREATING:
                        impure.append((f, n, ("CREATING-ACCESSOR", None, "%s via %s(x, %r)" % (tg.qualname, n.ast.func.id, n.ast.args[1].value))))
    if not impure:
        ctx.ob("pure", gs, "no write rooted at a parameter; no field-creating accessor", True,
               "the %d stub functions change neither schema nor configuration" % len(stub_fns))
    for f, n, ev in impure:
        ctx.ob("pure", f, n.ast if n.ast is not None else n.stmt, False,
               "%s in %s: generating a stub alters the schema/configuration it describes (%s)" % (ev[0], f.qualname, ev[2]), node=n)
    # results of memoised functions are shared between calls: mutating them in place is a hidden side effect
    cached = [f for f in an.fns() if any("lru_cache" in d or d.endswith("cache") or d.endswith("cache()") for d in f.decorators)]
    from .common import MUTATING_METHODS
    for f in stub_fns:
        gf = an.cfg(f)
        for n in gf.nodes:
            recv = None
            if n.kind == "call" and isinstance(n.ast.func, ast.Attribute) and n.ast.func.attr in MUTATING_METHODS and isinstance(n.ast.func.value, ast.Name):
                recv = n.ast.func.value
            elif n.kind == "assign" and isinstance(n.ast, ast.AugAssign) and isinstance(n.ast.target, ast.Name):
                recv = n.ast.target
            elif n.kind == "assign" and isinstance(n.ast, ast.Assign) and isinstance(n.ast.targets[0], ast.Subscript) and isinstance(n.ast.targets[0].value, ast.Name):
                recv = n.ast.targets[0].value
            if recv is None:
                continue
            for kind, payload in value_sources(f, recv, n):
                src = payload[0] if kind in ("unpack", "iter") else payload
                if isinstance(src, ast.Call):
                    nn = gf.nodes_for(src)
                    if nn and any(c in cached for c in an.callees(f, nn[0])):
                        ctx.ob("pure.cached-result-mutated", f, n.ast, False,
                               "%s mutates in place a value obtained from the memoised %s: the next stub generated in this process starts "
                               "from the already modified value" % (f.qualname, [c.qualname for c in an.callees(f, nn[0]) if c in cached][0]), node=n)

    # ---------------------------------------------------------------- C20.4 partition
    g = an.cfg(gs)
    loops = [n for n in g.nodes if n.kind == "for_iter" and isinstance(n.ast, ast.For) and any(
        isinstance(x, ast.Attribute) and x.attr == "_fields" for x in ast.walk(n.ast.iter))]
    ctx.need(bool(loops), "generate_stub no longer iterates over the schema's fields")
    head = loops[0]
    body0 = [s for s, lbl in head.succ if lbl is True][0]
    stores = {}
    for n in g.nodes:
        if n.kind == "assign" and isinstance(n.ast, ast.Assign):
            for t in n.ast.targets:
                if isinstance(t, ast.Subscript) and isinstance(t.value, ast.Name):
                    stores.setdefault(t.value.id, []).append(n)
    ctx.need(len(stores) >= 1, "generate_stub no longer records fields in any table")
    all_store_nodes = {n for ns in stores.values() for n in ns}
    p = path_avoiding(an, gs, body0, lambda n: n is head, lambda n: n in all_store_nodes, exceptions=False)
    ctx.ob("partition.total", gs, "every field is recorded in some table", p is None, "no field is dropped by the partition" if p is None else
           "a field can pass the partition without being recorded: %s" % " -> ".join("%s@%s" % (x.kind, x.lineno) for x in p[:8]))
    # which table feeds what
    ft = an.ft(gs)
    def branch_kinds(n):
        ks = []
        for t, tr in dominating_guards(an, gs, n):
            if isinstance(t.ast, ast.Call) and ast.unparse(t.ast.func) == "isinstance":
                spec = ft.class_spec(t.ast.args[1], ft.env_in.get(t) or {}) or []
                ks.append((tuple(spec), tr))
        return ks
    table_kinds = {name: [branch_kinds(n) for n in ns] for name, ns in stores.items()}
    # the class body lists table X, the constructor lists table Y, the methods loop table Z
    class_tables = set()
    ctor_tables = set()
    method_tables = set()
    for x in ast.walk(gs.node):
        if isinstance(x, ast.ListComp) and isinstance(x.generators[0].iter, ast.Call) and isinstance(x.generators[0].iter.func, ast.Attribute) \
                and isinstance(x.generators[0].iter.func.value, ast.Name):
            class_tables.add(x.generators[0].iter.func.value.id)
        if isinstance(x, ast.Call) and ast.unparse(x.func) == "list" and x.args and isinstance(x.args[0], ast.Call) and isinstance(x.args[0].func, ast.Attribute) \
                and isinstance(x.args[0].func.value, ast.Name):
            ctor_tables.add(x.args[0].func.value.id)
        if isinstance(x, ast.For) and isinstance(x.iter, ast.Call) and isinstance(x.iter.func, ast.Attribute) and isinstance(x.iter.func.value, ast.Name) \
                and x is not head.ast:
            method_tables.add(x.iter.func.value.id)
    def kinds_true(name):
        out = set()
        for ks in table_kinds.get(name, []):
            for spec, tr in ks:
                if tr:
                    out |= set(spec)
        return out
    from engine.specialize import Spec
    _specs = {}

    def spec_for(kind):
        if kind not in _specs:
            k = model.classes.get(kind)
            field_var = None
            tgt = head.ast.target
            if isinstance(tgt, ast.Tuple) and len(tgt.elts) == 2 and isinstance(tgt.elts[1], ast.Name):
                field_var = tgt.elts[1].id

            def decide(e, node):
                if isinstance(e, ast.Call) and isinstance(e.func, ast.Name) and e.func.id == "isinstance" and len(e.args) == 2 \
                        and isinstance(e.args[0], ast.Name) and e.args[0].id == field_var:
                    spec = ft.class_spec(e.args[1], (ft.env_in.get(node) if node is not None else None) or {}) or []
                    if not spec or any(s not in model.classes for s in spec):
                        return None
                    return any(k.is_subclass_of(model.classes[s]) for s in spec)
                return None
            _specs[kind] = Spec(an, gs, decide)
        return _specs[kind]

    def reachable_for(name, kind):
        """can a field of *kind* be stored into table *name*?  (generate_stub specialised for that kind of field)"""
        sp = spec_for(kind)
        return any(n in sp.normal for n in stores.get(name, []))
    okc = bool(class_tables) and all(reachable_for(t, "VirtualField") and reachable_for(t, "StringField") and not reachable_for(t, "InstanceMethodField")
                                    for t in class_tables)
    ctx.ob("partition.attributes-include-virtual", gs, "class body table(s) %s" % sorted(class_tables), okc,
           "the annotated attributes list every field, virtual ones included, but no instance method" if okc else
           "the annotated attribute list misses virtual or persistent fields, or contains instance methods")
    okk = bool(ctor_tables) and all(reachable_for(t, "StringField") and reachable_for(t, "Schema") and not reachable_for(t, "VirtualField")
                                    and not reachable_for(t, "InstanceMethodField") for t in ctor_tables)
    ctx.ob("partition.ctor-only-persistent", gs, "constructor table(s) %s" % sorted(ctor_tables), okk,
           "constructor parameters are exactly the persistent fields" if okk else
           "the constructor parameter list contains virtual fields / instance methods or misses persistent fields")
    okm = bool(method_tables) and all(reachable_for(t, "InstanceMethodField") and not reachable_for(t, "StringField") for t in method_tables)
    ctx.ob("partition.methods", gs, "method table(s) %s" % sorted(method_tables), okm, "one method per instance-method field" if okm else
           "instance methods are not rendered from their own table")
    # the class body is never empty: the constructor line is emitted on every path (a schema without persistent fields
    # still needs `def __init__(self): ...`, otherwise `class X(...):` has no body and the stub is not valid Python)
    from engine.flow import must_pass
    ctor_nodes = {n for n in g.nodes if n.ast is not None and n.kind in ("assign", "call", "expr") and any(
        isinstance(x, ast.Constant) and isinstance(x.value, str) and "def __init__(" in x.value for x in ast.walk(n.ast))}
    ctx.need(bool(ctor_nodes), "generate_stub no longer emits a constructor line")
    for r in [n for n in g.nodes if n.kind == "return"]:
        p = must_pass(an, gs, r, lambda n: n in ctor_nodes)
        ctx.ob("ctor.always-declared", gs, r.ast, p is None,
               "the constructor is declared whatever the schema contains (the class body is never empty)" if p is None else
               "the constructor line can be skipped (%s): a schema without persistent fields yields `class X(...):` with no body -- not valid Python"
               % " -> ".join("%s@%s" % (x.kind, x.lineno) for x in p[:6]), node=r)
    gma = model.function("stubs", "get_method_annotation")
    rendered = any(n.kind == "call" and gma in an.callees(gs, n) for n in g.nodes)
    ctx.ob("methods.rendered", gs, "get_method_annotation(key, field) for every method", rendered, "each instance method is rendered" if rendered else
           "instance methods are no longer rendered")
    uses_spec = any(isinstance(x, ast.Call) and (ast.unparse(x.func).endswith("getfullargspec") or ast.unparse(x.func).endswith("signature"))
                    for f2 in an.reachable_fns([gma]) for x in ast.walk(f2.node))
    covers = all(any(isinstance(x, ast.Name) and x.id == nm for x in ast.walk(gma.node)) for nm in ("varargs", "varkw", "kwonlyargs"))
    ctx.ob("methods.parameter-kinds", gma, "positional / *args / keyword-only / **kwargs", uses_spec and covers,
           "every parameter kind reported by getfullargspec is rendered" if uses_spec and covers else
           "some parameter kinds of the bound function are not rendered")
    for r in returns_of(an, gs):
        okr = isinstance(r.ast.value, ast.Call) and isinstance(r.ast.value.func, ast.Attribute) and r.ast.value.func.attr == "join"
        ctx.ob("returns-text", gs, r.ast, okr, "returns the joined stub text" if okr else "generate_stub does not return the stub text", node=r, nontrivial=False)
    # class header names the class
    hdr = any(isinstance(x, ast.BinOp) and isinstance(x.op, ast.Mod) and isinstance(x.left, ast.Constant) and isinstance(x.left.value, str)
              and x.left.value.startswith("class %s(") for x in ast.walk(gs.node)) or \
        any(isinstance(x, ast.JoinedStr) and x.values and isinstance(x.values[0], ast.Constant) and str(x.values[0].value).startswith("class ")
            for x in ast.walk(gs.node)) or \
        any(isinstance(x, ast.Call) and isinstance(x.func, ast.Attribute) and x.func.attr == "format" and isinstance(x.func.value, ast.Constant)
            and str(x.func.value.value).startswith("class ") for x in ast.walk(gs.node))
    ctx.ob("declares-one-class", gs, "class %s(...):", hdr, "declares the class under the requested name" if hdr else "the class header is not emitted")
