"""C06 -- a rejected operation leaves the configuration exactly as it was."""
from __future__ import annotations

import ast

from engine.order import ESCAPE, OrderAnalysis
from engine.effects import ap_str
from .common import CALLS, STATE, is_obs_write, not_fresh

META = {
    "explanation": (
        "Decides the structural core of C06 for all inputs: in each single-element mutator "
        "(Config._set_value/__setattr__/__setitem__, and every override of a single-element "
        "inserting builtin in the typed list/dict proxies) no path performs an observable write "
        "(Config._data, the default-mark set, the builtin container behind a proxy) on a "
        "non-fresh object and afterwards lets an exception escape; in Config.loads/load no "
        "observable write precedes parsing, include processing or reading the file. "
        "Interprocedural: events and 'write then escape' facts are summarised per function over "
        "access paths and mapped through every call (so the writes load_tree performs on the "
        "*fresh* sub-configuration built for a dict assignment are recognised as invisible)."),
    "decided": ["C06.1 no observable write before an escaping raise in the single-element mutators",
                "C06.2 parse, include processing and file read strictly before the first observable write in Config.loads/load",
                "C06.3 constructor keywords: object unobservable when __init__ raises (trivial)"],
    "not_decided": ["a load that fails validation half-way (the statement does not claim it)",
                    "multi-element operations (extend, update, += ) -- outside the statement"],
}

CONFIG_MUTATORS = ["_set_value", "__setattr__", "__setitem__"]
SINGLE_INSERT = {"list": ["append", "insert", "__setitem__"], "dict": ["__setitem__", "setdefault"]}


def proxy_classes(model):
    out = []
    for c in model.classes.values():
        if c.node is None:
            continue
        for b in ("list", "dict"):
            if c.is_subclass_of(b):
                out.append((c, b))
    return out


def check_include_failures(ctx):
    """"...or whose include file cannot be resolved": the load is abandoned *before* anything is written only if the failure leaves
    the include step as an exception.  In every `include` implementation a handler either raises on all its paths, or the function
    cannot return normally from it -- a handler that hands back the including tree lets load_tree start writing, and the error
    (if it comes at all) comes from a later key."""
    an, model = ctx.an, ctx.model
    mixin = model.cls("IncludeFieldMixin")
    n = 0
    for c in mixin.subclasses(strict=True):
        f = c.methods.get("include")
        if f is None:
            continue
        g = an.cfg(f)
        for h in [x for x in g.nodes if x.kind == "handler"]:
            n += 1
            p = g.path(h, lambda x: x is g.exit or x.kind == "return", may_raise=lambda x: False, from_successors=True)
            ctx.ob("include.failure-propagates", f, h.ast.type if h.ast.type is not None else "except:", p is None,
                   "the handler raises on every path" if p is None else
                   "%s catches %s and carries on (returns a tree): an include that cannot be resolved no longer stops the load before "
                   "load_tree writes the keys that come first in the document" % (f.qualname, ast.unparse(h.ast.type) if h.ast.type is not None else "everything"), node=h)
    if n == 0:
        ctx.ob("include.failure-propagates", mixin, "no handler in an include implementation", True, "failures of validate / open / parse leave include() as exceptions", nontrivial=False)


def check(ctx):
    an, model = ctx.an, ctx.model
    check_include_failures(ctx)
    state = an.summary(STATE)
    calls = an.summary(CALLS)
    esc = OrderAnalysis(an, state, is_obs_write, ESCAPE, keep_ap=not_fresh)

    instances = [model.method("Config", m) for m in CONFIG_MUTATORS]
    proxies = proxy_classes(model)
    ctx.need(len(proxies) >= 2, "typed list/dict proxy classes not found")
    for c, b in proxies:
        for m in SINGLE_INSERT[b]:
            if m in c.methods:
                instances.append(c.methods[m])
    for f in instances:
        evs = [e for e in state.fn_events(f) if is_obs_write(e) and e[1] is not None and not_fresh(e[1])]
        if f.cls.name == "Config":
            ctx.need(bool(evs), "%s performs no observable write any more: rule would be vacuous" % f.qualname)
        hits = esc.violations(f)
        if not hits:
            ctx.ob("order.write-then-escape", f, "no observable write is followed by an escaping raise", True,
                   "%d observable write events reachable; none can be followed by an exception leaving %s"
                   % (len(evs), f.qualname))
        seen = set()
        for h in hits:
            key = (h.a_node.id, h.a_event[0], h.via)
            if key in seen:
                continue
            seen.add(key)
            ctx.ob("order.write-then-escape", f, h.a_node.ast if h.a_node.ast is not None else h.a_node.stmt, False,
                   "%s on %s at line %s can be followed by an exception that leaves %s (%s; %s)"
                   % (h.a_event[0], ap_str(h.a_event[1]), h.a_node.lineno, f.qualname, h.via, h.describe()),
                   node=h.a_node)

    # C06.2 ---------------------------------------------------------------------------------
    # B: decoding the document and resolving its includes (key-file reads made by field codecs
    # during load_tree are not part of "fails to parse / include cannot be resolved")
    sel_b = lambda ev: ev[0] in ("PARSE", "INCLUDE")
    pre = OrderAnalysis(an, state, is_obs_write, calls, sel_b, keep_ap=not_fresh)
    for name in ("loads", "load"):
        f = model.method("Config", name)
        bevs = [e for e in calls.fn_events(f) if sel_b(e)]
        wevs = [e for e in state.fn_events(f) if is_obs_write(e) and e[1] is not None and e[1][0] == "self"]
        ctx.need(bool(bevs) and bool(wevs), "Config.%s no longer parses and writes: vanished anchor" % name)
        hits = pre.violations(f)
        if not hits:
            ctx.ob("order.parse-before-write", f, "parse/include/read precede every observable write", True,
                   "%d parse/include/open/read events, %d observable writes; no write precedes any of them"
                   % (len(bevs), len(wevs)))
        seen = set()
        for h in hits:
            key = (h.a_node.id, h.via)
            if key in seen:
                continue
            seen.add(key)
            ctx.ob("order.parse-before-write", f, h.a_node.ast or h.a_node.stmt, False,
                   "observable write %s on %s (line %s) can be followed by parsing/include/read (%s): a failure "
                   "there leaves the configuration changed" % (h.a_event[0], ap_str(h.a_event[1]), h.a_node.lineno, h.describe()),
                   node=h.a_node)

    # C06.3 ---------------------------------------------------------------------------------
    init = model.method("Config", "__init__")
    ctx.ob("ctor.unobservable", init, "Config.__init__", True,
           "if __init__ raises the object was never handed out; nothing else is written (trivial)",
           nontrivial=False)
