"""Per-property rule tables. Each module exposes META (dict) and check(ctx)."""
import importlib

PROPERTY_IDS = ["C%02d" % i for i in range(1, 21)]


def registry():
    out = {}
    for pid in PROPERTY_IDS:
        try:
            out[pid] = importlib.import_module("rules.%s" % pid.lower())
        except ModuleNotFoundError as err:
            if err.name != "rules.%s" % pid.lower():
                raise
    return out
