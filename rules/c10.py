"""C10 -- a sensitive-value mask hides every sensitive value at every depth of the tree."""
from __future__ import annotations

import ast
import builtins

from engine.defuse import value_sources
from engine.flow import dominating_guards, reachable_from_entry, same_name_value
from .common import CALLS

META = {
    "explanation": (
        "Decides the routing of the mask: (1) every call edge that re-enters Config.to_tree from anything "
        "reachable from Config.to_tree (the direct recursion, and edges inside field.to_basic "
        "implementations such as ListField.to_basic) hands on the caller's sensitive_mask; an edge in a "
        "function that has no mask to hand on is accepted only when to_tree itself intercepts the same value "
        "first, on a guard that mentions nothing but that value, and renders its items through a forwarding "
        "edge; (2) the encoder (field.to_basic) is unreachable once the sensitive branch is taken, the "
        "sensitive branch exists, and what it renders is the mask (repeated to the value's length for a "
        "one-character mask, verbatim otherwise) or nothing for an empty value; (3) the mask is consulted "
        "nowhere else, so without a mask and for non-sensitive fields rendering is unchanged."),
    "decided": ["C10.1 mask forwarded on every edge re-entering to_tree (FORWARD, with interception idiom)",
                "C10.2 sensitive branch dominates and excludes the encoder; renders only the mask",
                "C10.3 the mask influences nothing outside the sensitive branch and the forwarding arguments"],
    "not_decided": ["the exact rendered text for every value/mask combination (str() of the value, lengths)"],
}


def to_tree_family(an):
    Config = an.model.cls("Config")
    return [f for f in an.types.cha("Config", "to_tree")]


def mask_param(fn):
    for a in fn.params:
        if a.arg == "sensitive_mask":
            return a.arg
    return None


def forwards_mask(an, g, node, callee) -> bool:
    mp = mask_param(g)
    if mp is None:
        return False
    call = node.ast
    cp = callee.positional_params
    idx = cp.index("sensitive_mask") - 1 if "sensitive_mask" in cp else None
    arg = None
    for kw in call.keywords:
        if kw.arg == "sensitive_mask":
            arg = kw.value
    if arg is None and idx is not None and idx < len(call.args):
        arg = call.args[idx]
    if arg is None:
        return False
    srcs = value_sources(g, arg, node)
    return bool(srcs) and all(k == "param" and p == mp for k, p in srcs)


def check(ctx):
    an, model = ctx.an, ctx.model
    # shared clause (C01): to_tree recognises a list of configurations by `isinstance(value, list)` -- what a typed list field stores
    # is its own proxy (a list), whatever sequence it was given; a tuple stored as a tuple passes the interception and is rendered
    # by ListField.to_basic without the mask
    from .c01 import check_container_validators
    sub0 = type(ctx)(ctx.pid, ctx.an, ctx.tier)
    check_container_validators(sub0)
    ctx.obligations.extend(o for o in sub0.obligations if "container.returns-own-proxy" in o.rule)
    from .common import check_own_tables
    check_own_tables(ctx)       # shared clause: the field table to_tree reads / the tables configurations must not share
    to_tree = model.method("Config", "to_tree")
    ctx.need(mask_param(to_tree) is not None, "Config.to_tree lost its sensitive_mask parameter")
    fam = to_tree_family(an)
    g0 = an.cfg(to_tree)

    # ---------------------------------------------------------------- C10.1 FORWARD
    edges = []
    for g in an.reachable_fns([to_tree]):
        for n in an.cfg(g).nodes:
            if n.kind != "call":
                continue
            tg = [t.fn for t in an.targets(g, n) if t.kind == "fn" and t.fn in fam]
            if tg:
                edges.append((g, n, tg[0]))
    ctx.need(any(g is to_tree for g, _, _ in edges), "the recursion of Config.to_tree into sub-configurations vanished")
    # the entry points above to_tree (dumps, save, ...): whoever takes a mask hands exactly that mask on -- `mask or None` turns the
    # (legal) empty mask into "no mask" and renders every sensitive value in clear
    for g in an.fns():
        if g in an.reachable_fns([to_tree]) or mask_param(g) is None:
            continue
        for n in an.cfg(g).nodes:
            if n.kind != "call":
                continue
            for t in an.targets(g, n):
                if t.kind == "fn" and t.fn is not None and t.fn is not g and mask_param(t.fn) is not None:
                    ok_ = forwards_mask(an, g, n, t.fn)
                    ctx.ob("forward.entry-point", g, n.ast, ok_, "hands on the caller's sensitive_mask unchanged" if ok_ else
                           "%s does not hand its sensitive_mask on unchanged to %s: a mask the caller gave (the empty string included) can be "
                           "replaced or dropped, sensitive values are rendered in clear" % (g.qualname, t.fn.qualname), node=n)
    for g, n, callee in edges:
        if forwards_mask(an, g, n, callee):
            ctx.ob("forward", g, n.ast, True, "hands on the caller's sensitive_mask", node=n)
            continue
        if g is to_tree:
            ctx.ob("forward", g, n.ast, False,
                   "recursion into a nested configuration drops the mask: sensitive values below are rendered in clear",
                   node=n)
            continue
        ok, why = intercepted(an, to_tree, g, n)
        ctx.ob("forward", g, n.ast, ok, why, node=n)
        if ok:
            # the interception sits in to_tree and sees the *outermost* value only.  If the same function is also entered
            # with an element of a container (a list inside a list, a list inside a dict), that inner value never passes
            # to_tree's guard and its configurations are rendered by this edge -- without the mask.
            for f2 in an.reachable_fns([to_tree]):
                if f2 is to_tree:
                    continue
                for n2 in an.cfg(f2).nodes:
                    if n2.kind != "call" or g not in an.callees(f2, n2):
                        continue
                    tgs2 = [t for t in an.targets(f2, n2) if t.kind == "fn" and t.fn is g]
                    nested = False
                    for t in tgs2:
                        b = an.bind_args(t, f2, n2)
                        for p_, a_ in b.items():
                            if p_ == g.self_name or a_ is None or not isinstance(a_, ast.Name):
                                continue
                            for k, pl in value_sources(f2, a_, n2):
                                if k != "iter":
                                    continue
                                it, idx = pl[0], pl[1]
                                if isinstance(it, ast.Call) and isinstance(it.func, ast.Attribute) and it.func.attr == "items" and idx == 0:
                                    continue        # a dict key: hashable, never a list or a configuration
                                nested = True
                    if nested:
                        ctx.ob("forward.nested-containers", f2, "elements of the value handed to %s" % g.qualname, False,
                               "%s hands the *elements* of its value to %s, which renders configurations through an edge without the mask; "
                               "Config.to_tree intercepts only the outermost list, so configurations inside nested containers "
                               "(ListField(ListField(schema)), DictField(..., ListField(schema))) are rendered unmasked" % (f2.qualname, g.qualname),
                               node=n2)

    # other renderers: a function outside the to_tree family that takes a mask and encodes field values itself (a new
    # `flatten(config, sensitive_mask=...)`) is a second root -- every call from below it into the to_tree family hands the mask
    # on, or is intercepted by that function the way to_tree intercepts lists of configurations
    calls_ = an.summary(CALLS)
    tt_reach = an.reachable_fns([to_tree])
    for r in an.fns():
        if r in fam or r in tt_reach or mask_param(r) is None or isinstance(r.node, ast.Lambda):
            continue
        if not any(e[0] == "CODEC" and e[2] == "to_basic" for n in an.cfg(r).nodes for e in calls_.direct(r, n)):
            continue
        for g in an.reachable_fns([r]):
            if g in fam and g is not r:
                continue        # below a to_tree call the rules above apply
            for n in an.cfg(g).nodes:
                if n.kind != "call":
                    continue
                tg = [t.fn for t in an.targets(g, n) if t.kind == "fn" and t.fn in fam]
                if not tg:
                    continue
                if g is r:
                    ok_ = forwards_mask(an, g, n, tg[0])
                    ctx.ob("forward.other-renderer", g, n.ast, ok_, "hands on the caller's sensitive_mask" if ok_ else
                           "%s renders a nested configuration without its mask" % r.qualname, node=n)
                    continue
                if forwards_mask(an, g, n, tg[0]):
                    continue
                try:
                    ok_, why_ = intercepted(an, r, g, n)
                except Exception:       # the interception analysis is written for to_tree's shape
                    ok_, why_ = False, "not intercepted"
                ctx.ob("forward.other-renderer", g, n.ast, ok_,
                       why_ if ok_ else "%s encodes values through %s, which renders configurations without the mask, and does not keep "
                       "lists of configurations away from it the way Config.to_tree does: %s" % (r.qualname, g.qualname, why_), node=n)

    # ---------------------------------------------------------------- C10.2 sensitive branch
    # decided by specialising to_tree: "a mask is given / the field is sensitive / the value is non-empty / the mask is one
    # character" each fix the outcome of the tests that ask exactly that (through local flags and inlined helpers alike);
    # what can still be stored in the tree on the feasible paths is the verdict.
    from engine.specialize import Spec
    mp = mask_param(to_tree)
    calls = an.summary(CALLS)
    reach = reachable_from_entry(an, to_tree)
    ftt = an.ft(to_tree)
    encoders = [n for n in g0.nodes if n in reach and any(e[0] == "CODEC" and e[2] == "to_basic" for e in calls.direct(to_tree, n))]
    ctx.need(bool(encoders), "Config.to_tree no longer calls field.to_basic: vanished anchor")
    tree_names = {r.ast.value.id for r in g0.nodes if r.kind == "return" and isinstance(r.ast.value, ast.Name)}
    stores = [n for n in g0.nodes if n.kind == "assign" and n in reach and isinstance(n.ast, ast.Assign) and any(
        isinstance(t, ast.Subscript) and isinstance(t.value, ast.Name) and t.value.id in tree_names for t in n.ast.targets)]
    ctx.need(bool(stores), "Config.to_tree no longer stores into the tree it returns: vanished anchor")

    def is_mask(e, node):
        if not isinstance(e, ast.Name):
            return False
        srcs = value_sources(to_tree, e, node)
        return bool(srcs) and all(k == "param" and p == mp for k, p in srcs)

    def is_field_value(e, node):
        """the value read from the field (field.__getval__(self)), possibly through locals"""
        if isinstance(e, ast.Call) and isinstance(e.func, ast.Name) and e.func.id == "str" and len(e.args) == 1:
            e = e.args[0]
        srcs = value_sources(to_tree, e, node) if isinstance(e, ast.Name) else [("expr", e)]
        return bool(srcs) and all(k == "expr" and isinstance(p, ast.Call) and isinstance(p.func, ast.Attribute) and p.func.attr == "__getval__"
                                  for k, p in srcs)

    def scenario(mask_given, sensitive, truthy=None, one_char=None):
        def decide(e, node):
            if isinstance(e, ast.Compare) and len(e.ops) == 1 and isinstance(e.comparators[0], ast.Constant) and e.comparators[0].value is None \
                    and is_mask(e.left, node):
                if isinstance(e.ops[0], (ast.Is, ast.Eq)):
                    return not mask_given
                if isinstance(e.ops[0], (ast.IsNot, ast.NotEq)):
                    return mask_given
            if is_mask(e, node):
                return None if mask_given else False
            if isinstance(e, ast.Attribute) and e.attr == "sensitive":
                return sensitive
            if isinstance(e, ast.Call) and isinstance(e.func, ast.Name) and e.func.id == "isinstance" and len(e.args) == 2:
                spec = ftt.class_spec(e.args[1], {}) or []
                if is_field_value(e.args[0], node) and spec and all(c in ("Config", "list", "dict", "tuple", "ListProxy", "DictProxy") or
                                                                     (c in an.model.classes and an.model.classes[c].is_subclass_of(an.model.cls("Config"))) for c in spec):
                    return False        # a scalar value
                if isinstance(e.args[0], ast.Name) and spec and not is_field_value(e.args[0], node) and any(
                        k == "iter" for k, _ in value_sources(to_tree, e.args[0], node)):
                    # the field of this iteration: a plain scalar Field (neither a schema, a configuration type nor a mixin kind)
                    return any(c in ("Field", "BaseField") for c in spec)
            if one_char is not None and isinstance(e, ast.Compare) and len(e.ops) == 1 and isinstance(e.left, ast.Call) and isinstance(e.left.func, ast.Name) \
                    and e.left.func.id == "len" and e.left.args and is_mask(e.left.args[0], node) and isinstance(e.comparators[0], ast.Constant) \
                    and e.comparators[0].value == 1:
                if isinstance(e.ops[0], ast.Eq):
                    return one_char
                if isinstance(e.ops[0], ast.NotEq):
                    return not one_char
            if truthy is not None and is_field_value(e, node) and not isinstance(e, ast.Call):
                return truthy
            if isinstance(e, ast.Compare) and len(e.ops) == 1 and isinstance(e.ops[0], ast.NotIn) and isinstance(e.comparators[0], ast.Attribute) \
                    and e.comparators[0].attr == "_data":
                return False
            return None
        return Spec(an, to_tree, decide)

    def mask_derived(p, node):
        return isinstance(p, ast.AST) and any(isinstance(x, ast.Name) and isinstance(x.ctx, ast.Load) and is_mask(x, None) for x in ast.walk(p))

    def stored(sp):
        out = []
        for st in stores:
            if st in sp.nodes:
                for k, p in sp.sources(st.ast.value, st):
                    out.append((k, p, st))
        return out

    def repeated_form(p):
        if not (isinstance(p, ast.BinOp) and isinstance(p.op, ast.Mult)):
            return False
        for m, l in ((p.left, p.right), (p.right, p.left)):
            if is_mask(m, None) and isinstance(l, ast.Call) and isinstance(l.func, ast.Name) and l.func.id == "len" and len(l.args) == 1 \
                    and is_field_value(l.args[0], None):
                return True
        return False

    # S0: the branch exists at all -- with a mask and a sensitive non-empty value the encoder is out of reach
    s_on = scenario(True, True, truthy=True)
    enc_on = [n for n in encoders if n in s_on.nodes]
    any_mask_store = any(mask_derived(p, st) for k, p, st in stored(s_on))
    if enc_on and not any_mask_store:
        ctx.ob("sensitive-branch.exists", to_tree, "masking of sensitive values", False,
               "to_tree has no branch that masks a sensitive value when sensitive_mask is given: sensitive values are never masked")
        return
    ctx.ob("sensitive-branch.exists", to_tree, "masking of sensitive values", True, "a sensitive value is replaced when a mask is given")
    for n in encoders:
        ok = n not in s_on.nodes
        ctx.ob("sensitive-branch.excludes-encoder", to_tree, n.ast, ok,
               "field.to_basic is out of reach for a sensitive value once a mask is given" if ok else
               "a sensitive value still reaches field.to_basic although a mask is given: it is rendered in clear", node=n)
    # what is rendered: one-character masks are repeated to the value's length, any other mask is used verbatim
    for one, want in ((True, "the mask repeated to the length of the value"), (False, "the mask itself")):
        sp = scenario(True, True, truthy=True, one_char=one)
        vals = stored(sp)
        ctx.need(bool(vals), "no store into the tree reachable for a masked value")
        for k, p, st in vals:
            if one:
                ok = k == "expr" and repeated_form(p)
            else:
                ok = k == "param" and p == mp
            ctx.ob("sensitive-branch.renders-mask", to_tree, "%s mask: %s" % ("one-character" if one else "longer / empty",
                                                                             ast.unparse(p)[:50] if isinstance(p, ast.AST) else p), ok,
                   "renders %s" % want if ok else
                   "for a %s mask the sensitive branch renders %s instead of %s" % (
                       "one-character" if one else "longer or empty", ast.unparse(p)[:60] if isinstance(p, ast.AST) else p, want), node=st)
    # an empty sensitive value is not replaced by a mask (nothing to hide, and nothing invented)
    sp = scenario(True, True, truthy=False)
    for k, p, st in stored(sp):
        ok = not mask_derived(p, st) and not (isinstance(p, ast.Call) and any(n.ast is p for n in encoders))
        ctx.ob("sensitive-branch.empty-value", to_tree, ast.unparse(p)[:50] if isinstance(p, ast.AST) else str(p), ok,
               "an empty sensitive value is rendered without a mask" if ok else "an empty sensitive value is rendered as a mask", node=st)
    # masking is confined to sensitive fields with a mask given
    for mg, sens, what in ((True, False, "a field that is not sensitive"), (False, True, "no mask given")):
        sp = scenario(mg, sens, truthy=True)
        vals = stored(sp)
        bad = [(p, st) for k, p, st in vals if mask_derived(p, st) or (k == "param" and p == mp)]
        ctx.ob("sensitive-branch.guard", to_tree, "masking with %s" % what, not bad,
               "with %s the value is not masked" % what if not bad else
               "with %s the value is still masked: %s" % (what, ast.unparse(bad[0][0])[:50] if isinstance(bad[0][0], ast.AST) else bad[0][0]),
               node=bad[0][1] if bad else None)
        enc_here = [n for n in encoders if n in sp.nodes]
        ctx.ob("encoder.after-sensitive-test", to_tree, "field.to_basic with %s" % what, bool(enc_here),
               "with %s the value goes through field.to_basic" % what if enc_here else
               "with %s the value is never encoded" % what)

    # ---------------------------------------------------------------- C10.3 other uses of the mask
    for x in ast.walk(to_tree.node):
        if isinstance(x, ast.Name) and x.id == mp and isinstance(x.ctx, ast.Load):
            role = mask_role(x, mp)
            if role is None:
                # inside a larger expression (conditional expression, helper arguments): what it may do to the tree is decided
                # by the scenario table above (sensitive-branch.guard / renders-mask), not by its syntactic position
                role = "part of an expression whose effect on the tree is decided by the scenario table"
            ctx.ob("mask.uses", to_tree, getattr(x, "_parent", x), role is not None,
                   "use of the mask as %s" % role if role else
                   "the mask influences rendering outside the sensitive branch / forwarding: %s" %
                   ast.unparse(stmt_of(x))[:70], node=x, nontrivial=False)
        if isinstance(x, ast.Name) and x.id == mp and isinstance(x.ctx, ast.Store):
            ctx.ob("mask.uses", to_tree, stmt_of(x), False, "sensitive_mask is re-assigned inside to_tree", node=x)


def stmt_of(x):
    while x is not None and not isinstance(x, ast.stmt):
        x = getattr(x, "_parent", None)
    return x


def is_len_eq_one(e, mp) -> bool:
    return (isinstance(e, ast.Compare) and len(e.ops) == 1 and isinstance(e.ops[0], ast.Eq)
            and isinstance(e.left, ast.Call) and isinstance(e.left.func, ast.Name) and e.left.func.id == "len"
            and e.left.args and isinstance(e.left.args[0], ast.Name) and e.left.args[0].id == mp
            and isinstance(e.comparators[0], ast.Constant) and e.comparators[0].value == 1)


def mask_form(val, mp):
    if isinstance(val, ast.Name) and val.id == mp:
        return "mask"
    if isinstance(val, ast.BinOp) and isinstance(val.op, ast.Mult):
        a, b = val.left, val.right
        for m, l in ((a, b), (b, a)):
            if isinstance(m, ast.Name) and m.id == mp and isinstance(l, ast.Call) and isinstance(l.func, ast.Name) \
                    and l.func.id == "len":
                return "mask * len(value)"
    return None


def mask_role(x, mp):
    p = getattr(x, "_parent", None)
    if isinstance(p, ast.keyword) and p.arg == "sensitive_mask":
        return "forwarded argument"
    if isinstance(p, ast.Compare) and isinstance(p.comparators[0], ast.Constant) and p.comparators[0].value is None:
        return "presence test"
    if isinstance(p, ast.Call) and isinstance(p.func, ast.Name) and p.func.id == "len":
        return "length test"
    if isinstance(p, ast.BinOp) and isinstance(p.op, ast.Mult):
        return "repeated mask"
    if isinstance(p, (ast.Assign, ast.AnnAssign)) and p.value is x:
        return "verbatim mask"
    if isinstance(p, ast.Call) and x in p.args:
        # positional forwarding into to_tree
        if isinstance(p.func, ast.Attribute) and p.func.attr == "to_tree":
            return "forwarded argument"
    return None


def _intercepted_by_spec(an, to_tree, c, f, vals, shape):
    from engine.specialize import Spec
    ftt = an.ft(to_tree)
    state = {}

    def origin(sp, x, node):
        out = set()
        for k, pl in sp.sources(x, node):
            if k == "expr" and isinstance(pl, ast.AST):
                out.add(id(pl))
            elif k == "param":
                out.add(("param", pl))
            else:
                return None
        return frozenset(out) or None

    def decide(e, node, sp):
        if sp.rd is None:
            return None
        if "v" not in state:
            os_ = [origin(sp, v, c) for v in vals]
            state["v"] = {o for o in os_ if o}

        def is_v(x):
            return isinstance(x, ast.Name) and origin(sp, x, node) in state["v"]

        def cls_of(t):
            return ftt.class_spec(t, {}) or []

        def is_listy(spec):
            return bool(spec) and all(s_ in ("list", "tuple") or (s_ in an.model.classes and (an.model.classes[s_].is_subclass_of("list") or s_ == "ContainerValueMixin"))
                                      for s_ in spec)
        if is_v(e):
            return True
        if isinstance(e, ast.Call) and isinstance(e.func, ast.Name):
            fn_ = e.func.id
            if fn_ == "isinstance" and len(e.args) == 2 and is_v(e.args[0]):
                spec = cls_of(e.args[1])
                if shape == "items":
                    if is_listy(spec):
                        return True
                    if spec == ["Config"]:
                        return False
                else:
                    if "Config" in spec:
                        return True
                    if is_listy(spec):
                        return False
                return None
            if fn_ == "len" and len(e.args) == 1 and is_v(e.args[0]) and shape == "items":
                return True
            if fn_ in ("all", "any") and len(e.args) == 1 and isinstance(e.args[0], (ast.GeneratorExp, ast.ListComp)) and shape == "items":
                ge = e.args[0]
                if len(ge.generators) == 1 and not ge.generators[0].ifs and isinstance(ge.generators[0].target, ast.Name) and is_v(ge.generators[0].iter):
                    elt, neg = ge.elt, False
                    while isinstance(elt, ast.UnaryOp) and isinstance(elt.op, ast.Not):
                        elt, neg = elt.operand, not neg
                    if isinstance(elt, ast.Call) and isinstance(elt.func, ast.Name) and elt.func.id == "isinstance" and len(elt.args) == 2 \
                            and isinstance(elt.args[0], ast.Name) and elt.args[0].id == ge.generators[0].target.id and "Config" in cls_of(elt.args[1]):
                        # every item is a configuration, the list is not empty
                        return (not neg) if fn_ == "all" else (not neg)
        return None
    try:
        sp = Spec(an, to_tree, decide)
    except RecursionError:
        return False
    return bool(state.get("v")) and c not in sp.nodes and f in sp.nodes


def intercepted(an, to_tree, g, edge_node):
    """An unforwarding edge in g is harmless iff to_tree renders the items of the same value itself,
    through a forwarding edge, on a guard that depends on nothing but that value."""
    g0 = an.cfg(to_tree)
    base = "%s re-enters to_tree without the mask (it has none to hand on): configurations held in this value are rendered in clear" % g.qualname
    # call nodes in to_tree that lead to g
    cs = [n for n in g0.nodes if n.kind == "call" and g in an.reachable_fns(an.callees(to_tree, n))
          and g not in [to_tree]]
    cs = [n for n in cs if not any(t.fn in to_tree_family(an) for t in an.targets(to_tree, n) if t.kind == "fn")]
    if not cs:
        return False, base
    fam = to_tree_family(an)
    loop_heads = {n for n in g0.nodes if n.kind == "for_iter" and isinstance(n.ast, ast.For)}
    oracle = lambda n: an.node_may_raise(to_tree, n)
    # what does the unforwarding edge render: the items of the value g was given, or that value itself?
    erecv = edge_node.ast.func.value if isinstance(edge_node.ast.func, ast.Attribute) else None
    shape = None
    if erecv is not None:
        kinds = {k for k, _ in value_sources(g, erecv, edge_node)}
        if kinds == {"iter"}:
            shape = "items"
        elif kinds == {"param"}:
            shape = "self"
    if shape is None:
        return False, base + " (cannot relate what it renders to the value it was given)"
    for c in cs:
        # the value handed to g
        tgs = [t for t in an.targets(to_tree, c) if t.kind == "fn"]
        vals = []
        for t in tgs:
            b = an.bind_args(t, to_tree, c)
            for p, a in b.items():
                if p != t.fn.self_name and a is not None and isinstance(a, ast.Name):
                    vals.append(a)
        found = None
        for f in g0.nodes:
            if f.kind != "call" or not any(t.kind == "fn" and t.fn in fam for t in an.targets(to_tree, f)):
                continue
            if not forwards_mask(an, to_tree, f, fam[0]):
                continue
            recv = f.ast.func.value if isinstance(f.ast.func, ast.Attribute) else None
            if recv is None:
                continue
            for kind, payload in value_sources(to_tree, recv, f):
                if shape == "items" and kind == "iter" and isinstance(payload[0], ast.Name):
                    for v in vals:
                        if v.id == payload[0].id:
                            found = (f, v)
                        elif same_name_value(to_tree, v, c, payload[0], payload[2] if len(payload) > 2 else None):
                            found = (f, payload[0])     # the same value under the name the intercepting branch uses
            if shape == "self" and isinstance(recv, ast.Name):
                for v in vals:
                    if same_name_value(to_tree, recv, f, v, c):
                        found = (f, v)
        if found is None:
            return False, base
        f, v = found
        # the same question by specialisation: assume the value is what the unforwarding edge would render (a non-empty list
        # of configurations / a configuration) -- is the encoder call then unreachable and the forwarding edge reachable?
        if _intercepted_by_spec(an, to_tree, c, f, vals, shape):
            return True, ("%s has no mask to hand on, but for a value it would render (%s) Config.to_tree never reaches the encoder: "
                          "it renders the value itself through the forwarding edge at line %s"
                          % (g.qualname, "a non-empty list of configurations" if shape == "items" else "a configuration", f.lineno))
        # mutually exclusive within one iteration, interception first
        if g0.path(f, lambda n: n is c, may_raise=oracle, stop=lambda n: n in loop_heads, from_successors=True):
            return False, base + " (the intercepting branch falls through to the encoder)"
        fdom = dominating_guards(an, to_tree, f)
        cdom = {(t, tr) for t, tr in dominating_guards(an, to_tree, c)}
        specific = [t for t, tr in fdom if (t, tr) not in cdom]      # taken with this outcome on the way to f, not on the way to c
        if not specific:
            return False, base + " (no guard selects the intercepting branch)"
        Config = an.model.cls("Config")
        ftt = an.ft(to_tree)

        def atom_ok(e):
            """accepted guard atoms: truthiness of V; isinstance(V, list-like); all/any(isinstance(item, Config) for item in V);
            for a value rendered itself: isinstance(V, Config)"""
            if shape == "self":
                if isinstance(e, ast.Call) and isinstance(e.func, ast.Name) and e.func.id == "isinstance" and len(e.args) == 2 \
                        and isinstance(e.args[0], ast.Name) and e.args[0].id == v.id:
                    spec = ftt.class_spec(e.args[1], {}) or []
                    return "Config" in spec
                return False
            if isinstance(e, ast.Name) and e.id == v.id:
                return True
            if isinstance(e, ast.Call) and isinstance(e.func, ast.Name) and e.func.id in ("bool", "len") and len(e.args) == 1 \
                    and isinstance(e.args[0], ast.Name) and e.args[0].id == v.id:
                return True
            if isinstance(e, ast.Name) and e.id != v.id:
                # the explicit spelling of all(isinstance(item, Config) for item in V):
                #     flag = True; for item in V: if not isinstance(item, Config): flag = False; break
                from engine.defuse import reaching_defs
                rd_ = reaching_defs(to_tree)
                tn = [t_ for t_ in g0.nodes if t_.kind == "test" and t_.ast is e]
                defs_ = rd_.reaching(tn[0], e.id) if tn else []
                falses = [d_ for d_ in defs_ if d_.kind == "assign" and isinstance(d_.value, ast.Constant) and d_.value.value is False]
                others = [d_ for d_ in defs_ if d_ not in falses]

                def init_ok(d_):
                    # the flag starts as True, or as a conjunction of tests of the value itself (a non-empty list)
                    if d_.kind != "assign" or d_.value is None:
                        return False
                    if isinstance(d_.value, ast.Constant):
                        return d_.value.value is True
                    conj = d_.value.values if isinstance(d_.value, ast.BoolOp) and isinstance(d_.value.op, ast.And) else [d_.value]
                    return all(not isinstance(c_, ast.Name) and atom_ok(c_) for c_ in conj)
                if len(falses) == 1 and len(others) == 1 and init_ok(others[0]):
                    fd = falses[0]
                    for t2, tr2 in dominating_guards(an, to_tree, fd.node):
                        a2 = t2.ast
                        if (not tr2) and isinstance(a2, ast.Call) and isinstance(a2.func, ast.Name) and a2.func.id == "isinstance" and len(a2.args) == 2 \
                                and isinstance(a2.args[0], ast.Name) and "Config" in (ftt.class_spec(a2.args[1], {}) or []):
                            srcs_ = value_sources(to_tree, a2.args[0], t2)
                            if srcs_ and all(k_ == "iter" and isinstance(p_[0], ast.Name) and p_[0].id == v.id for k_, p_ in srcs_):
                                return True
                return False
            if isinstance(e, ast.Call) and isinstance(e.func, ast.Name) and e.func.id == "isinstance" and len(e.args) == 2 \
                    and isinstance(e.args[0], ast.Name) and e.args[0].id == v.id:
                spec = ftt.class_spec(e.args[1], {}) or []
                return bool(spec) and all(sp in ("list", "tuple") or (sp in an.model.classes and (
                    an.model.classes[sp].is_subclass_of("list") or sp == "ContainerValueMixin")) for sp in spec)
            if isinstance(e, ast.Call) and isinstance(e.func, ast.Name) and e.func.id in ("all", "any") and len(e.args) == 1 \
                    and isinstance(e.args[0], (ast.GeneratorExp, ast.ListComp)):
                ge = e.args[0]
                if len(ge.generators) == 1 and isinstance(ge.generators[0].iter, ast.Name) and ge.generators[0].iter.id == v.id \
                        and not ge.generators[0].ifs and isinstance(ge.generators[0].target, ast.Name):
                    elt = ge.elt
                    if isinstance(elt, ast.Call) and isinstance(elt.func, ast.Name) and elt.func.id == "isinstance" and len(elt.args) == 2 \
                            and isinstance(elt.args[0], ast.Name) and elt.args[0].id == ge.generators[0].target.id:
                        spec = ftt.class_spec(elt.args[1], {}) or []
                        return "Config" in spec
            return False

        for t in specific:
            if not atom_ok(t.ast):
                return False, base + (" (the intercepting guard `%s` is not a test of the value being %s: "
                                      "values it does not select still reach the unforwarding edge)" % (
                                          ast.unparse(t.ast)[:60], "a list of configurations" if shape == "items" else "a configuration"))
        # the encoder call must come after the interception test (reachable from a False edge)
        ok_order = any(g0.path(t, lambda n: n is c, may_raise=oracle, stop=lambda n: n in loop_heads) for t in specific)
        if not ok_order:
            return False, base + " (the encoder is not ordered after the intercepting guard)"
        return True, ("%s has no mask to hand on, but Config.to_tree intercepts the same value first (guard %s, which "
                      "mentions only the value) and renders each item through a forwarding edge at line %s"
                      % (g.qualname, " and ".join(ast.unparse(t.ast)[:40] for t in specific), f.lineno))
    return False, base
