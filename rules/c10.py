"""C10 -- a sensitive-value mask hides every sensitive value at every depth of the tree."""
from __future__ import annotations

import ast
import builtins

from engine.defuse import value_sources
from engine.flow import dominating_guards, reachable_from_entry, same_name_value
from .common import CALLS

META = {
    "explanation": (
        "Decides the routing of the mask: (1) every call edge that re-enters Config.to_tree from anything "
        "reachable from Config.to_tree (the direct recursion, and edges inside field.to_basic "
        "implementations such as ListField.to_basic) hands on the caller's sensitive_mask; an edge in a "
        "function that has no mask to hand on is accepted only when to_tree itself intercepts the same value "
        "first, on a guard that mentions nothing but that value, and renders its items through a forwarding "
        "edge; (2) the encoder (field.to_basic) is unreachable once the sensitive branch is taken, the "
        "sensitive branch exists, and what it renders is the mask (repeated to the value's length for a "
        "one-character mask, verbatim otherwise) or nothing for an empty value; (3) the mask is consulted "
        "nowhere else, so without a mask and for non-sensitive fields rendering is unchanged."),
    "decided": ["C10.1 mask forwarded on every edge re-entering to_tree (FORWARD, with interception idiom)",
                "C10.2 sensitive branch dominates and excludes the encoder; renders only the mask",
                "C10.3 the mask influences nothing outside the sensitive branch and the forwarding arguments"],
    "not_decided": ["the exact rendered text for every value/mask combination (str() of the value, lengths)"],
}


def to_tree_family(an):
    Config = an.model.cls("Config")
    return [f for f in an.types.cha("Config", "to_tree")]


def mask_param(fn):
    for a in fn.params:
        if a.arg == "sensitive_mask":
            return a.arg
    return None


def forwards_mask(an, g, node, callee) -> bool:
    mp = mask_param(g)
    if mp is None:
        return False
    call = node.ast
    cp = callee.positional_params
    idx = cp.index("sensitive_mask") - 1 if "sensitive_mask" in cp else None
    arg = None
    for kw in call.keywords:
        if kw.arg == "sensitive_mask":
            arg = kw.value
    if arg is None and idx is not None and idx < len(call.args):
        arg = call.args[idx]
    if arg is None:
        return False
    srcs = value_sources(g, arg, node)
    return bool(srcs) and all(k == "param" and p == mp for k, p in srcs)


def check(ctx):
    an, model = ctx.an, ctx.model
    to_tree = model.method("Config", "to_tree")
    ctx.need(mask_param(to_tree) is not None, "Config.to_tree lost its sensitive_mask parameter")
    fam = to_tree_family(an)
    g0 = an.cfg(to_tree)

    # ---------------------------------------------------------------- C10.1 FORWARD
    edges = []
    for g in an.reachable_fns([to_tree]):
        for n in an.cfg(g).nodes:
            if n.kind != "call":
                continue
            tg = [t.fn for t in an.targets(g, n) if t.kind == "fn" and t.fn in fam]
            if tg:
                edges.append((g, n, tg[0]))
    ctx.need(any(g is to_tree for g, _, _ in edges), "the recursion of Config.to_tree into sub-configurations vanished")
    for g, n, callee in edges:
        if forwards_mask(an, g, n, callee):
            ctx.ob("forward", g, n.ast, True, "hands on the caller's sensitive_mask", node=n)
            continue
        if g is to_tree:
            ctx.ob("forward", g, n.ast, False,
                   "recursion into a nested configuration drops the mask: sensitive values below are rendered in clear",
                   node=n)
            continue
        ok, why = intercepted(an, to_tree, g, n)
        ctx.ob("forward", g, n.ast, ok, why, node=n)

    # ---------------------------------------------------------------- C10.2 sensitive branch
    mp = mask_param(to_tree)
    calls = an.summary(CALLS)
    reach = reachable_from_entry(an, to_tree)
    t_sens = [n for n in g0.nodes if n.kind == "test" and n in reach and isinstance(n.ast, ast.Attribute)
              and n.ast.attr == "sensitive"]
    t_mask = [n for n in g0.nodes if n.kind == "test" and n in reach and isinstance(n.ast, ast.Compare)
              and len(n.ast.ops) == 1 and isinstance(n.ast.ops[0], (ast.Is, ast.IsNot))
              and isinstance(n.ast.left, ast.Name) and n.ast.left.id == mp
              and isinstance(n.ast.comparators[0], ast.Constant) and n.ast.comparators[0].value is None]
    encoders = [n for n in g0.nodes if n in reach and any(e[0] == "CODEC" and e[2] == "to_basic" for e in calls.direct(to_tree, n))]
    ctx.need(bool(encoders), "Config.to_tree no longer calls field.to_basic: vanished anchor")
    if not t_sens or not t_mask:
        ctx.ob("sensitive-branch.exists", to_tree, "test of field.sensitive and of sensitive_mask is not None", False,
               "to_tree has no branch on %s: sensitive values are never masked" %
               ("field.sensitive" if not t_sens else "sensitive_mask is not None"))
        return
    ctx.ob("sensitive-branch.exists", to_tree, "test of field.sensitive and of sensitive_mask is not None", True,
           "%d test(s) of .sensitive, %d of the mask" % (len(t_sens), len(t_mask)))
    loop_heads = {n for n in g0.nodes if n.kind == "for_iter"}
    oracle = lambda n: an.node_may_raise(to_tree, n)
    for tm in t_mask:
        truth = isinstance(tm.ast.ops[0], ast.IsNot)      # the edge on which a mask is present
        entry = [s for s, lbl in tm.succ if lbl is truth]
        # the mask test must itself sit under field.sensitive being true
        under_sens = any(t in t_sens and tr for t, tr in dominating_guards(an, to_tree, tm))
        ctx.ob("sensitive-branch.guard", to_tree, tm.ast, under_sens,
               "the mask test is evaluated only for fields whose .sensitive is true" if under_sens else
               "the mask branch is not restricted to sensitive fields: non-sensitive values would be masked", node=tm)
        for e in entry:
            p = g0.path(e, lambda n: n in encoders, may_raise=oracle, stop=lambda n: n in loop_heads)
            ctx.ob("sensitive-branch.excludes-encoder", to_tree, encoders[0].ast, p is None,
                   "field.to_basic is unreachable in the same iteration once the sensitive branch is taken"
                   if p is None else "a sensitive value still reaches the encoder after the mask branch: %s" %
                   " -> ".join("%s@%s" % (x.kind, x.lineno) for x in p), node=tm)
    # every encoder call must lie on the no-mask / not-sensitive side
    for enc in encoders:
        bad = None
        for tm in t_mask:
            truth = isinstance(tm.ast.ops[0], ast.IsNot)
            for s, lbl in tm.succ:
                if lbl is truth and g0.path(s, lambda n: n is enc, may_raise=oracle, stop=lambda n: n in loop_heads):
                    bad = tm
        ctx.ob("encoder.after-sensitive-test", to_tree, enc.ast, bad is None,
               "reached only when the field is not sensitive or no mask is given" if bad is None else
               "the encoder runs on the masked side", node=enc)
        # and the encoder must not run *before* the sensitive test of the same iteration
        first = None
        for t in t_sens:
            first = first or g0.path(enc, lambda n, t=t: n is t, may_raise=oracle, stop=lambda n: n in loop_heads,
                                     from_successors=True)
        ctx.ob("encoder.not-before-sensitive-test", to_tree, enc.ast, first is None,
               "field.to_basic never runs ahead of the sensitive test of the same field" if first is None else
               "field.to_basic runs before the sensitive test: %s" %
               " -> ".join("%s@%s" % (x.kind, x.lineno) for x in first), node=enc)

    # what the sensitive branch renders
    for n in g0.nodes:
        if n.kind != "assign" or n not in reach:
            continue
        st = n.ast
        val = getattr(st, "value", None)
        if val is None:
            continue
        uses_mask = any(isinstance(x, ast.Name) and x.id == mp and mask_role(x, mp) != "forwarded argument"
                        for x in ast.walk(val))
        if not uses_mask:
            continue
        under = any(t in t_mask and tr is isinstance(t.ast.ops[0], ast.IsNot) for t, tr in dominating_guards(an, to_tree, n))
        form = mask_form(val, mp)
        ok = under and form is not None
        why = "renders %s under `sensitive_mask is not None`" % form if ok else (
            "the mask is used outside the `sensitive_mask is not None` branch" if not under else
            "the sensitive branch renders %s, which is neither the mask nor the mask repeated to the value's length"
            % ast.unparse(val))
        if ok and form == "mask * len(value)":
            # only for one-character masks
            one = any(tr and is_len_eq_one(t.ast, mp) for t, tr in dominating_guards(an, to_tree, n))
            if not one:
                ok, why = False, "the mask is repeated although it is not known to be one character long"
        if ok and form == "mask":
            notone = any((not tr) and is_len_eq_one(t.ast, mp) for t, tr in dominating_guards(an, to_tree, n))
            if not notone:
                ok, why = False, "the verbatim mask is used for one-character masks too (must be repeated to the value's length)"
        ctx.ob("sensitive-branch.renders-mask", to_tree, st, ok, why, node=n)

    # ---------------------------------------------------------------- C10.3 other uses of the mask
    for x in ast.walk(to_tree.node):
        if isinstance(x, ast.Name) and x.id == mp and isinstance(x.ctx, ast.Load):
            role = mask_role(x, mp)
            ctx.ob("mask.uses", to_tree, getattr(x, "_parent", x), role is not None,
                   "use of the mask as %s" % role if role else
                   "the mask influences rendering outside the sensitive branch / forwarding: %s" %
                   ast.unparse(stmt_of(x))[:70], node=x, nontrivial=False)
        if isinstance(x, ast.Name) and x.id == mp and isinstance(x.ctx, ast.Store):
            ctx.ob("mask.uses", to_tree, stmt_of(x), False, "sensitive_mask is re-assigned inside to_tree", node=x)


def stmt_of(x):
    while x is not None and not isinstance(x, ast.stmt):
        x = getattr(x, "_parent", None)
    return x


def is_len_eq_one(e, mp) -> bool:
    return (isinstance(e, ast.Compare) and len(e.ops) == 1 and isinstance(e.ops[0], ast.Eq)
            and isinstance(e.left, ast.Call) and isinstance(e.left.func, ast.Name) and e.left.func.id == "len"
            and e.left.args and isinstance(e.left.args[0], ast.Name) and e.left.args[0].id == mp
            and isinstance(e.comparators[0], ast.Constant) and e.comparators[0].value == 1)


def mask_form(val, mp):
    if isinstance(val, ast.Name) and val.id == mp:
        return "mask"
    if isinstance(val, ast.BinOp) and isinstance(val.op, ast.Mult):
        a, b = val.left, val.right
        for m, l in ((a, b), (b, a)):
            if isinstance(m, ast.Name) and m.id == mp and isinstance(l, ast.Call) and isinstance(l.func, ast.Name) \
                    and l.func.id == "len":
                return "mask * len(value)"
    return None


def mask_role(x, mp):
    p = getattr(x, "_parent", None)
    if isinstance(p, ast.keyword) and p.arg == "sensitive_mask":
        return "forwarded argument"
    if isinstance(p, ast.Compare) and isinstance(p.comparators[0], ast.Constant) and p.comparators[0].value is None:
        return "presence test"
    if isinstance(p, ast.Call) and isinstance(p.func, ast.Name) and p.func.id == "len":
        return "length test"
    if isinstance(p, ast.BinOp) and isinstance(p.op, ast.Mult):
        return "repeated mask"
    if isinstance(p, (ast.Assign, ast.AnnAssign)) and p.value is x:
        return "verbatim mask"
    if isinstance(p, ast.Call) and x in p.args:
        # positional forwarding into to_tree
        if isinstance(p.func, ast.Attribute) and p.func.attr == "to_tree":
            return "forwarded argument"
    return None


def intercepted(an, to_tree, g, edge_node):
    """An unforwarding edge in g is harmless iff to_tree renders the items of the same value itself,
    through a forwarding edge, on a guard that depends on nothing but that value."""
    g0 = an.cfg(to_tree)
    base = "%s re-enters to_tree without the mask (it has none to hand on): configurations held in this value are rendered in clear" % g.qualname
    # call nodes in to_tree that lead to g
    cs = [n for n in g0.nodes if n.kind == "call" and g in an.reachable_fns(an.callees(to_tree, n))
          and g not in [to_tree]]
    cs = [n for n in cs if not any(t.fn in to_tree_family(an) for t in an.targets(to_tree, n) if t.kind == "fn")]
    if not cs:
        return False, base
    fam = to_tree_family(an)
    loop_heads = {n for n in g0.nodes if n.kind == "for_iter" and isinstance(n.ast, ast.For)}
    oracle = lambda n: an.node_may_raise(to_tree, n)
    for c in cs:
        # the value handed to g
        tgs = [t for t in an.targets(to_tree, c) if t.kind == "fn"]
        vals = []
        for t in tgs:
            b = an.bind_args(t, to_tree, c)
            for p, a in b.items():
                if p != t.fn.self_name and a is not None and isinstance(a, ast.Name):
                    vals.append(a)
        found = None
        for f in g0.nodes:
            if f.kind != "call" or not any(t.kind == "fn" and t.fn in fam for t in an.targets(to_tree, f)):
                continue
            if not forwards_mask(an, to_tree, f, fam[0]):
                continue
            recv = f.ast.func.value if isinstance(f.ast.func, ast.Attribute) else None
            if recv is None:
                continue
            for kind, payload in value_sources(to_tree, recv, f):
                if kind == "iter" and isinstance(payload[0], ast.Name):
                    for v in vals:
                        if v.id == payload[0].id:
                            found = (f, v)
        if found is None:
            return False, base
        f, v = found
        # mutually exclusive within one iteration, interception first
        if g0.path(f, lambda n: n is c, may_raise=oracle, stop=lambda n: n in loop_heads, from_successors=True):
            return False, base + " (the intercepting branch falls through to the encoder)"
        fdom = dominating_guards(an, to_tree, f)
        cdom = {t for t, _ in dominating_guards(an, to_tree, c)}
        specific = [t for t, tr in fdom if t not in cdom]
        if not specific:
            return False, base + " (no guard selects the intercepting branch)"
        Config = an.model.cls("Config")
        ftt = an.ft(to_tree)

        def atom_ok(e):
            """accepted guard atoms: truthiness of V; isinstance(V, list-like); all/any(isinstance(item, Config) for item in V)"""
            if isinstance(e, ast.Name) and e.id == v.id:
                return True
            if isinstance(e, ast.Call) and isinstance(e.func, ast.Name) and e.func.id == "isinstance" and len(e.args) == 2 \
                    and isinstance(e.args[0], ast.Name) and e.args[0].id == v.id:
                spec = ftt.class_spec(e.args[1], {}) or []
                return bool(spec) and all(sp in ("list", "tuple") or (sp in an.model.classes and (
                    an.model.classes[sp].is_subclass_of("list") or sp == "ContainerValueMixin")) for sp in spec)
            if isinstance(e, ast.Call) and isinstance(e.func, ast.Name) and e.func.id in ("all", "any") and len(e.args) == 1 \
                    and isinstance(e.args[0], (ast.GeneratorExp, ast.ListComp)):
                ge = e.args[0]
                if len(ge.generators) == 1 and isinstance(ge.generators[0].iter, ast.Name) and ge.generators[0].iter.id == v.id \
                        and not ge.generators[0].ifs and isinstance(ge.generators[0].target, ast.Name):
                    elt = ge.elt
                    if isinstance(elt, ast.Call) and isinstance(elt.func, ast.Name) and elt.func.id == "isinstance" and len(elt.args) == 2 \
                            and isinstance(elt.args[0], ast.Name) and elt.args[0].id == ge.generators[0].target.id:
                        spec = ftt.class_spec(elt.args[1], {}) or []
                        return "Config" in spec
            return False

        for t in specific:
            if not atom_ok(t.ast):
                return False, base + (" (the intercepting guard `%s` is not a test of the value being a list of configurations: "
                                      "lists it does not select still reach the unforwarding edge)" % ast.unparse(t.ast)[:60])
        # the encoder call must come after the interception test (reachable from a False edge)
        ok_order = any(g0.path(t, lambda n: n is c, may_raise=oracle, stop=lambda n: n in loop_heads) for t in specific)
        if not ok_order:
            return False, base + " (the encoder is not ordered after the intercepting guard)"
        return True, ("%s has no mask to hand on, but Config.to_tree intercepts the same value first (guard %s, which "
                      "mentions only the value) and renders each item through a forwarding edge at line %s"
                      % (g.qualname, " and ".join(ast.unparse(t.ast)[:40] for t in specific), f.lineno))
    return False, base
