"""XML writer / reader agreement, decided per plain-data kind by specialising both functions.

For each kind K the writer `_to_element` is specialised under "value is a K" (isinstance / is None tests with a
fixed outcome keep one edge) and the type tag written on the feasible paths is collected; for each tag T the reader
`_from_element` is specialised under "the type attribute is T" and the kinds of the values it can return are
collected.  The comparison of the two tables is the rule.  Because the tables are computed from feasible paths and
not from the spelling of the branches, an if/elif chain, an early-return chain, a merged `(list, dict)` branch with a
local flag and conditional expressions are all read the same way.
"""
from __future__ import annotations

import ast

from engine.defuse import value_sources
from engine.specialize import Spec

KINDS = ["str", "bool", "int", "float", "none", "list", "dict"]
_MODEL = [None]


def cval(fn, e):
    """the constant an expression stands for: a literal, or a module / class level named constant (TYPE_ATTR = "type")"""
    if isinstance(e, ast.Constant):
        return e.value
    if isinstance(e, (ast.Name, ast.Attribute)) and _MODEL[0] is not None:
        try:
            v = _MODEL[0].const_eval(fn.module, e, fn.cls)
        except (ValueError, KeyError, AttributeError):
            return None
        return v if isinstance(v, (str, int, float, bool, type(None))) else None
    return None
KCLASS = {"str": "str", "bool": "bool", "int": "int", "float": "float", "list": "list", "dict": "dict"}
SUBCLASS = {("bool", "int")}


def _kind_is(kind, cls):
    """is a value of exactly kind `kind` an instance of builtin class `cls`?"""
    if kind == "none":
        return cls in ("object", "NoneType")
    if kind == "other":
        return cls == "object"
    k = KCLASS[kind]
    return cls == "object" or k == cls or (k, cls) in SUBCLASS


def _is_param_name(fn, e, node, pname):
    if not isinstance(e, ast.Name):
        return False
    srcs = value_sources(fn, e, node)
    return bool(srcs) and all(k == "param" and p == pname for k, p in srcs)


def writer_decider(an, te, vparam, kind):
    ft = an.ft(te)

    def decide(e, node):
        if isinstance(e, ast.Call) and isinstance(e.func, ast.Name) and e.func.id == "isinstance" and len(e.args) == 2 \
                and _is_param_name(te, e.args[0], node, vparam):
            spec = ft.class_spec(e.args[1], (ft.env_in.get(node) if node is not None else None) or {})
            if not spec:
                return None
            return any(_kind_is(kind, c) for c in spec)
        if isinstance(e, ast.Compare) and len(e.ops) == 1:
            l, r, op = e.left, e.comparators[0], e.ops[0]
            if isinstance(r, ast.Constant) and r.value is None and _is_param_name(te, l, node, vparam):
                if isinstance(op, (ast.Is, ast.Eq)):
                    return kind == "none"
                if isinstance(op, (ast.IsNot, ast.NotEq)):
                    return kind != "none"
            # type(value) is list / type(value) in (list, dict)
            if isinstance(l, ast.Call) and isinstance(l.func, ast.Name) and l.func.id == "type" and len(l.args) == 1 \
                    and _is_param_name(te, l.args[0], node, vparam):
                names = [x.id for x in ([r] if isinstance(r, ast.Name) else getattr(r, "elts", [])) if isinstance(x, ast.Name)]
                if names:
                    hit = kind in KCLASS and KCLASS[kind] in names
                    if isinstance(op, (ast.Is, ast.Eq, ast.In)):
                        return hit
                    if isinstance(op, (ast.IsNot, ast.NotEq, ast.NotIn)):
                        return not hit
        return None
    return decide


def tuple_component(sp, value, index, node):
    """the expressions component *index* of a tuple-valued expression can be (through locals), or [value-as-unknown]"""
    if isinstance(value, (ast.Tuple, ast.List)) and index < len(value.elts):
        return [value.elts[index]]
    out = []
    for k, p in sp.sources(value, node):
        if k == "expr" and isinstance(p, (ast.Tuple, ast.List)) and index < len(p.elts):
            out.append(p.elts[index])
        else:
            return [ast.Name(id="<component %d of %s>" % (index, ast.unparse(value)[:20]), ctx=ast.Load())]
    return out


def text_writes(sp, fn):
    """(node, value expr) of every write of an element's text on feasible paths: `x.text = v`, or `..., x.text = pair`"""
    out = []
    for n in sp.g.nodes:
        if n not in sp.normal or n.kind != "assign" or not isinstance(n.ast, ast.Assign):
            continue
        for tg in n.ast.targets:
            if isinstance(tg, ast.Attribute) and tg.attr == "text":
                out.append((n, n.ast.value))
            if isinstance(tg, (ast.Tuple, ast.List)):
                for i_, el in enumerate(tg.elts):
                    if isinstance(el, ast.Attribute) and el.attr == "text":
                        out += [(n, c) for c in tuple_component(sp, n.ast.value, i_, n)]
    return out


def tag_writes(sp, te):
    """(node, value expr) of every write of the element's type attribute on feasible paths"""
    out = []
    for n in sp.g.nodes:
        if n not in sp.normal:
            continue
        if n.kind == "assign" and isinstance(n.ast, ast.Assign):
            for tg in n.ast.targets:
                if isinstance(tg, ast.Subscript) and cval(te, tg.slice) == "type":
                    out.append((n, n.ast.value))
                if isinstance(tg, (ast.Tuple, ast.List)):
                    # ele.attrib["type"], text = scalar
                    for i_, el in enumerate(tg.elts):
                        if isinstance(el, ast.Subscript) and cval(te, el.slice) == "type":
                            out += [(n, c) for c in tuple_component(sp, n.ast.value, i_, n)]
        if n.kind == "call" and isinstance(n.ast.func, ast.Attribute) and n.ast.func.attr == "set" and len(n.ast.args) == 2 \
                and cval(te, n.ast.args[0]) == "type":
            out.append((n, n.ast.args[1]))
        if n.kind == "call" and n.ast.keywords and ast.unparse(n.ast.func).endswith("Element"):
            for k in n.ast.keywords:
                if k.arg == "type":
                    out.append((n, k.value))
    return out


def const_values(sp, expr, node):
    vals = set()
    for k, p in sp.sources(expr, node):
        if k == "expr" and isinstance(p, ast.Constant):
            vals.add(p.value)
        elif k == "expr" and isinstance(p, (ast.Name, ast.Attribute)) and isinstance(cval(sp.fn, p), str):
            vals.add(cval(sp.fn, p))
        else:
            vals.add(("?", ast.unparse(p) if isinstance(p, ast.AST) else str(p)))
    return vals


class Elements:
    """abstract description of what a loop variable / call argument of the writer denotes"""

    def __init__(self, sp, fn, vparam, kind):
        self.sp, self.fn, self.vparam, self.kind = sp, fn, vparam, kind

    def is_value(self, e, node):
        srcs = self.sp.sources(e, node)
        return bool(srcs) and all(k == "param" and p == self.vparam for k, p in srcs)

    def describe(self, expr, node, depth=0):
        """set of descriptors: ('const', c) ('key',) ('val',) ('elem',) ('value',) ('tuple', (..)) ('?', text)"""
        out = set()
        if depth > 6:
            return {("?", "depth")}
        if isinstance(expr, ast.Tuple):
            parts = [self.describe(e, node, depth + 1) for e in expr.elts]
            if all(len(p) == 1 for p in parts):
                return {("tuple", tuple(next(iter(p)) for p in parts))}
            return {("?", ast.unparse(expr))}
        for k, p in self.sp.sources(expr, node):
            if k == "expr" and isinstance(p, ast.Constant):
                out.add(("const", p.value))
            elif k == "expr" and isinstance(p, (ast.Name, ast.Attribute)) and isinstance(cval(self.fn, p), str):
                out.add(("const", cval(self.fn, p)))
            elif k == "param" and p == self.vparam:
                out.add(("value",))
            elif k == "iter":
                iterable, index, bnode = p
                for d in self.elements(iterable, bnode, depth + 1):
                    if index is None:
                        out.add(d)
                    elif d[0] == "tuple" and index < len(d[1]):
                        out.add(d[1][index])
                    else:
                        out.add(("?", "component %s of %s" % (index, d)))
            elif k == "expr" and isinstance(p, ast.Subscript) and self.is_value(p.value, node) and self.kind == "dict" \
                    and self.describe(p.slice, node, depth + 1) == {("key",)}:
                out.add(("val",))
            elif k == "expr" and isinstance(p, ast.Tuple):
                out |= self.describe(p, node, depth + 1)
            else:
                out.add(("?", ast.unparse(p)[:40] if isinstance(p, ast.AST) else str(p)))
        return out

    def elements(self, iterable, node, depth=0):
        out = set()
        srcs = self.sp.sources(iterable, node) if isinstance(iterable, (ast.Name, ast.IfExp, ast.BoolOp)) else [("expr", iterable)]
        if isinstance(iterable, ast.Name) and self.is_value(iterable, node):
            srcs = [("param", self.vparam)]
        for k, p in srcs:
            if k == "param" and p == self.vparam:
                out.add(("elem",) if self.kind == "list" else ("key",) if self.kind == "dict" else ("?", "iterating a %s" % self.kind))
            elif k == "expr" and isinstance(p, ast.Call) and isinstance(p.func, ast.Attribute) and not p.args \
                    and p.func.attr in ("items", "keys", "values") and self.is_value(p.func.value, node) and self.kind == "dict":
                out.add({"items": ("tuple", (("key",), ("val",))), "keys": ("key",), "values": ("val",)}[p.func.attr])
            elif k == "expr" and isinstance(p, ast.Call) and isinstance(p.func, ast.Name) and p.func.id in ("list", "tuple", "iter") and len(p.args) == 1:
                out |= self.elements(p.args[0], node, depth + 1)
            elif k == "expr" and isinstance(p, ast.Call) and isinstance(p.func, ast.Name) and p.func.id == "enumerate" and 1 <= len(p.args) <= 2:
                for d in self.elements(p.args[0], node, depth + 1):
                    out.add(("tuple", (("index",), d)))
            elif k == "expr" and isinstance(p, (ast.ListComp, ast.GeneratorExp)) and len(p.generators) == 1 and not p.generators[0].ifs:
                out |= self.describe(p.elt, None, depth + 1)
            elif k == "expr" and isinstance(p, ast.Name):
                out |= self.elements(p, node, depth + 1) if p is not iterable else {("?", p.id)}
            else:
                out.add(("?", ast.unparse(p)[:40] if isinstance(p, ast.AST) else str(p)))
        return out


def classify_value(sp, fe, expr, node, text_ok):
    """kinds a returned expression can have on feasible paths"""
    kinds = set()
    for k, p in sp.sources(expr, node):
        if k != "expr":
            kinds.add("?%s" % k)
            continue
        if isinstance(p, ast.Constant):
            kinds.add({bool: "bool", type(None): "none", str: "str", int: "int", float: "float"}.get(type(p.value), "?const"))
        elif isinstance(p, (ast.Compare,)) or (isinstance(p, ast.UnaryOp) and isinstance(p.op, ast.Not)) or (
                isinstance(p, ast.BoolOp) and all(isinstance(v, (ast.Compare, ast.UnaryOp)) for v in p.values)):
            kinds.add("bool")
        elif isinstance(p, ast.Call) and isinstance(p.func, ast.Name) and p.func.id in ("int", "float", "bool", "str", "list", "dict"):
            kinds.add(p.func.id)
        elif isinstance(p, ast.Call) and isinstance(p.func, ast.Name) and all(
                k2 == "expr" and isinstance(q, ast.Name) and q.id in ("int", "float", "bool", "str") for k2, q in sp.sources(p.func, sp.where.get(id(p)))):
            for k2, q in sp.sources(p.func, sp.where.get(id(p))):
                kinds.add(q.id)     # convert = int if ... else float; convert(text)
        elif isinstance(p, (ast.List, ast.ListComp)):
            kinds.add("list")
        elif isinstance(p, (ast.Dict, ast.DictComp)):
            kinds.add("dict")
        elif text_ok(p):
            kinds.add("str")
        else:
            kinds.add("?" + ast.unparse(p)[:30])
    return kinds


def reader_decider(fe, tparam, tag):
    def is_tagvar(e, node):
        if not isinstance(e, ast.Name):
            return False
        srcs = value_sources(fe, e, node)
        if not srcs:
            return False
        for k, p in srcs:
            if k == "param" and p == tparam:
                continue
            if k == "expr" and isinstance(p, (ast.Call, ast.Subscript)) and any(
                    isinstance(x, (ast.Constant, ast.Name)) and cval(fe, x) == "type" for x in ast.walk(p)):
                continue
            return False
        return True

    def decide(e, node):
        if isinstance(e, ast.Name) and tag and is_tagvar(e, node):
            return True         # `if py_type:` -- in this scenario the type attribute is the (non-empty) tag
        if isinstance(e, ast.Compare) and len(e.ops) == 1 and is_tagvar(e.left, node):
            r, op = e.comparators[0], e.ops[0]
            rv = cval(fe, r)
            if isinstance(rv, str):
                if isinstance(op, ast.Eq):
                    return rv == tag
                if isinstance(op, ast.NotEq):
                    return rv != tag
            if isinstance(r, (ast.Tuple, ast.List, ast.Set)) and all(isinstance(cval(fe, x), str) for x in r.elts):
                hit = tag in [cval(fe, x) for x in r.elts]
                if isinstance(op, ast.In):
                    return hit
                if isinstance(op, ast.NotIn):
                    return not hit
            if isinstance(r, ast.Constant) and r.value is None:
                if isinstance(op, (ast.Is, ast.Eq)):
                    return False
                if isinstance(op, (ast.IsNot, ast.NotEq)):
                    return True
        return None
    return decide, is_tagvar


def check_xml_tables(ctx, an, model):
    _MODEL[0] = model
    xml = model.cls("XmlConfigFormat")
    te, fe = model.method("XmlConfigFormat", "_to_element"), model.method("XmlConfigFormat", "_from_element")
    ctx.need(len(te.positional_params) >= 3 and len(fe.positional_params) >= 2, "XML _to_element/_from_element signature changed")
    vparam = te.positional_params[2]
    eparam = fe.positional_params[1]
    tparam = fe.positional_params[2] if len(fe.positional_params) > 2 else None
    gte = an.cfg(te)

    # ------------------------------------------------------------------ writer table
    wtag = {}
    wspec = {}
    for kind in KINDS:
        sp = Spec(an, te, writer_decider(an, te, vparam, kind))
        wspec[kind] = sp
        rs = sp.raises()
        # a raise that rejects a *member* of the value (a map key that is not a string) does not reject plain data of this kind
        from engine.flow import dominating_guards as _dg

        def member_level(r_):
            for t_, tr_ in _dg(an, te, r_):
                e_ = t_.ast
                if isinstance(e_, ast.Call) and isinstance(e_.func, ast.Name) and e_.func.id == "isinstance" and len(e_.args) == 2 and isinstance(e_.args[0], ast.Name) \
                        and ast.unparse(e_.args[1]) == "str" and tr_ is False:
                    ss_ = sp.sources(e_.args[0], t_)
                    if ss_ and all(k_ == "iter" for k_, _p in ss_):
                        return True
            return False
        rs = [r_ for r_ in rs if not member_level(r_)]
        if rs and not sp.falls_off():
            ctx.ob("xml.writer-covers", te, "writer branch for %s" % kind, False,
                   "the XML writer has no branch for %s values: they are rejected" % kind, node=rs[0])
            continue
        if rs:
            ctx.ob("xml.writer-covers", te, "writer branch for %s" % kind, False,
                   "some %s values are rejected by the XML writer (raise reachable for this kind)" % kind, node=rs[0])
            continue
        writes = tag_writes(sp, te)
        tags = set()
        for n, v in writes:
            tags |= const_values(sp, v, n)
        wnodes = {n for n, _ in writes}
        untagged = gte.path(gte.entry, lambda n: n is gte.exit, may_raise=lambda n: False, stop=lambda n: n in wnodes,
                            edge_filter=sp.edge_ok) is not None
        ok = len(tags) == 1 and all(isinstance(t, str) for t in tags) and not untagged
        tag = next(iter(tags)) if len(tags) == 1 else None
        ctx.ob("xml.writer-covers", te, "writer branch for %s" % kind, ok,
               "%s values are tagged %r on every path" % (kind, tag) if ok else
               ("a %s value can be written without a type attribute: it comes back as text" % kind if untagged or not tags else
                "a %s value can be tagged %s" % (kind, sorted(map(str, tags)))), node=writes[0][0] if writes else None)
        if ok:
            wtag[kind] = tag
    for sub_, sup_ in SUBCLASS:
        if sub_ in wtag and sup_ in wtag:
            ok = wtag[sub_] != wtag[sup_]
            ctx.ob("dispatch.subclass-first", te, "isinstance(value, %s) decided before isinstance(value, %s)" % (sub_, sup_), ok,
                   "%s values reach their own branch although they are also %s instances" % (sub_, sup_) if ok else
                   "%s is tested after its base class %s: %s values are written as %s" % (sub_, sup_, sub_, sup_))
    wtags = sorted(wtag.values())
    ctx.ob("xml.tags-distinct", te, "tags %s" % wtags, len(set(wtags)) == len(wtags), "one tag per kind" if len(set(wtags)) == len(wtags) else
           "two kinds share a tag: %s" % sorted((k, t) for k, t in wtag.items()))
    # anything else is rejected
    other = Spec(an, te, writer_decider(an, te, vparam, "other"))
    rej = not other.falls_off() and bool(other.raises())
    ctx.ob("dispatch.rejecting", te, "non-basic value -> raise", rej,
           "a value of no plain-data kind ends in raise" if rej else "a non-basic value is silently written as something else")

    # ------------------------------------------------------------------ reader table
    def text_ok(p):
        # the element text (possibly `ele.text or ""`), nothing computed from it
        if isinstance(p, ast.Attribute) and p.attr == "text":
            return True
        if isinstance(p, ast.BoolOp) and isinstance(p.op, ast.Or):
            return all(text_ok(v) or (isinstance(v, ast.Constant) and v.value == "") for v in p.values)
        return False
    rspec = {}
    rkinds = {}
    for kind, tag in wtag.items():
        dec, is_tagvar = reader_decider(fe, tparam, tag)
        sp = Spec(an, fe, dec)
        rspec[kind] = sp
        kinds = set()
        rets = sp.returns()
        for r in rets:
            if r.ast.value is None:
                kinds.add("none")
            else:
                kinds |= classify_value(sp, fe, r.ast.value, r, text_ok)
        rkinds[kind] = kinds
        allowed = {kind} | ({"str"} if kind in ("bool", "int", "float", "str") else set())
        ok = kind in kinds and kinds <= allowed
        ctx.ob("xml.tags-agree", fe, "tag %r: written for %s, read as %s" % (tag, kind, sorted(kinds)), ok,
               "the reader produces a %s for %r (text fallback for unparsable scalars allowed)" % (kind, tag) if ok else
               ("the writer tags %s values with %r but the reader never produces a %s for it: the type is not preserved (it produces %s)"
                % (kind, tag, kind, sorted(kinds)) if kind not in kinds else
                "for tag %r the reader can also produce %s" % (tag, sorted(kinds - allowed))), node=rets[0] if rets else None)

    # ------------------------------------------------------------------ string payload read back verbatim
    from engine.flow import dominating_guards
    sp = rspec.get("str")
    if sp is not None:
        for r in sp.returns():
            if r.ast.value is None:
                continue
            leaves = []
            for k, p in sp.sources(r.ast.value, r):
                if k == "expr" and isinstance(p, ast.Call) and isinstance(p.func, ast.Name) and p.func.id == "str" and len(p.args) == 1 and not p.keywords:
                    leaves += sp.sources(p.args[0], sp.where.get(id(p)) or r)      # str() of the element text: the text itself
                else:
                    leaves.append((k, p))
            for k, p in leaves:
                bad = None
                if k == "expr" and isinstance(p, ast.Attribute) and p.attr == "text":
                    pass
                elif k == "expr" and isinstance(p, ast.Constant) and p.value == "":
                    par = getattr(p, "_parent", None)
                    in_or = isinstance(par, ast.BoolOp) and isinstance(par.op, ast.Or) and any(
                        isinstance(v, ast.Attribute) and v.attr == "text" for v in par.values[:par.values.index(p)])
                    at = sp.where.get(id(p))
                    guarded = at is not None and any(
                        (isinstance(t.ast, (ast.Name, ast.Attribute)) and not tr) or
                        (isinstance(t.ast, ast.Compare) and isinstance(t.ast.ops[0], ast.Is) and tr) for t, tr in dominating_guards(an, fe, at))
                    if not (in_or or guarded):
                        bad = "replaced by '' at line %s under a condition other than 'no text'" % getattr(p, "lineno", "?")
                else:
                    bad = "transformed by `%s`" % (ast.unparse(p)[:40] if isinstance(p, ast.AST) else k)
                ctx.ob("xml.str-payload-verbatim", fe, r.ast, bad is None,
                       "a string element decodes to its text exactly ('' when the element has none)" if bad is None else
                       "the text of a string element is %s before it becomes the value: strings do not survive the round trip" % bad, node=r)

    # ------------------------------------------------------------------ children: writer
    for kind, want0, want1 in (("list", {("const", "item")}, {("elem",)}), ("dict", {("key",)}, {("val",)})):
        sp = wspec.get(kind)
        if sp is None or kind not in wtag:
            continue
        el = Elements(sp, te, vparam, kind)
        calls = [n for n in gte.nodes if n.kind == "call" and n in sp.normal and te in an.callees(te, n)]
        if not calls:
            ctx.ob("xml.children-naming", te, "%s children" % kind, False,
                   "the members of a %s are not written (no recursive _to_element call on this path)" % kind)
            continue
        for n in calls:
            a = list(n.ast.args)
            if len(a) < 2:
                ctx.ob("xml.children-naming", te, n.ast, False, "recursive call without key and value", node=n)
                continue
            d0, d1 = el.describe(a[0], n), el.describe(a[1], n)
            if kind == "list":
                ok0 = d0 == want0 or (len(d0) == 1 and next(iter(d0))[0] == "const" and isinstance(next(iter(d0))[1], str) and next(iter(d0))[1])
            else:
                ok0 = d0 == want0
            ok = bool(ok0) and d1 == want1
            ctx.ob("xml.children-naming", te, n.ast, ok,
                   ("list items are written one element each, in order" if kind == "list" else "map entries are written under their key") if ok else
                   "%s members are written as _to_element(%s, %s)" % (kind, sorted(d0), sorted(d1)), node=n)
            # the child element is attached to the element that is returned
            par = getattr(n.ast, "_parent", None)
            attached = False
            if isinstance(par, ast.Call) and isinstance(par.func, ast.Attribute) and par.func.attr in ("append",):
                attached = True
            elif isinstance(par, ast.Assign) and len(par.targets) == 1 and isinstance(par.targets[0], ast.Name):
                nm = par.targets[0].id
                attached = any(isinstance(x, ast.Call) and isinstance(x.func, ast.Attribute) and x.func.attr in ("append", "insert")
                               and any(isinstance(y, ast.Name) and y.id == nm for y in x.args) for x in ast.walk(te.node))
            elif isinstance(par, (ast.ListComp, ast.GeneratorExp)):
                pp = getattr(par, "_parent", None)
                attached = isinstance(pp, ast.Call) and isinstance(pp.func, ast.Attribute) and pp.func.attr == "extend"
            ctx.ob("xml.children-attached", te, n.ast, attached, "the child element is appended to its parent" if attached else
                   "the child element built for a %s member is never attached" % kind, node=n)

    # ------------------------------------------------------------------ children: reader
    gfe = an.cfg(fe)
    for kind in ("list", "dict"):
        sp = rspec.get(kind)
        if sp is None:
            continue
        calls = [n for n in gfe.nodes if n.kind == "call" and n in sp.nodes and fe in an.callees(fe, n)]
        if not calls:
            ctx.ob("xml.children-naming", fe, "%s children decoded" % kind, False,
                   "the reader does not decode the children of a %r element" % wtag[kind])
            continue
        for n in calls:
            a0 = n.ast.args[0] if n.ast.args else None
            forced = len(n.ast.args) > 1 or any(k.arg for k in n.ast.keywords)
            child = None
            okc = False
            if isinstance(a0, ast.Name):
                srcs = sp.sources(a0, n)
                okc = bool(srcs) and all(k == "iter" and _iter_of_param(sp, fe, p[0], p[2], eparam) and p[1] is None for k, p in srcs)
                child = a0.id
            ok = okc and not forced
            ctx.ob("xml.children-naming", fe, n.ast, ok,
                   "every child element is decoded by its own type attribute" if ok else
                   ("children are decoded with a forced type: nested types are lost" if forced and okc else
                    "the recursive decode is not applied to each child of the element"), node=n)
            if kind == "dict" and ok:
                # stored under the child's tag
                keyed = False
                par = getattr(n.ast, "_parent", None)
                if isinstance(par, ast.DictComp) and par.value is n.ast:
                    keyed = _is_tag_of(par.key, child)
                elif isinstance(par, ast.Tuple) and len(par.elts) == 2 and par.elts[1] is n.ast and isinstance(getattr(par, "_parent", None), (ast.GeneratorExp, ast.ListComp)) \
                        and par._parent.elt is par and isinstance(getattr(par._parent, "_parent", None), ast.Call) \
                        and isinstance(par._parent._parent.func, ast.Name) and par._parent._parent.func.id in ("dict", "OrderedDict"):
                    keyed = _is_tag_of(par.elts[0], child)      # dict((sub.tag, decode(sub)) for sub in ele)
                else:
                    nm = par.targets[0].id if isinstance(par, ast.Assign) and len(par.targets) == 1 and isinstance(par.targets[0], ast.Name) else None
                    for x in ast.walk(fe.node):
                        if isinstance(x, ast.Assign) and len(x.targets) == 1 and isinstance(x.targets[0], ast.Subscript) and _is_tag_of(x.targets[0].slice, child):
                            if x.value is n.ast or (nm and isinstance(x.value, ast.Name) and x.value.id == nm):
                                keyed = True
                ctx.ob("xml.children-naming", fe, "map entry key of %s" % ast.unparse(n.ast), keyed,
                       "map entries are read back under the child's tag" if keyed else "decoded map entries are not stored under the child's tag", node=n)
            if kind == "list" and ok:
                par = getattr(n.ast, "_parent", None)
                kept = False
                if isinstance(par, ast.ListComp) and par.elt is n.ast:
                    kept = True
                elif isinstance(par, ast.GeneratorExp) and par.elt is n.ast and isinstance(getattr(par, "_parent", None), ast.Call) \
                        and isinstance(par._parent.func, ast.Name) and par._parent.func.id in ("list", "tuple") and len(par._parent.args) == 1:
                    kept = True             # list(decode(sub) for sub in ele)
                elif isinstance(par, ast.Call) and isinstance(par.func, ast.Attribute) and par.func.attr == "append":
                    kept = True
                elif isinstance(par, ast.Assign) and len(par.targets) == 1 and isinstance(par.targets[0], ast.Name):
                    nm = par.targets[0].id
                    kept = any(isinstance(x, ast.Call) and isinstance(x.func, ast.Attribute) and x.func.attr == "append"
                               and any(isinstance(y, ast.Name) and y.id == nm for y in x.args) for x in ast.walk(fe.node))
                ctx.ob("xml.children-naming", fe, "list item of %s" % ast.unparse(n.ast), kept,
                       "list items are appended in document order" if kept else "decoded list items are not appended to the result", node=n)
    return wtag, wspec, rspec


def _is_tag_of(e, child):
    return isinstance(e, ast.Attribute) and e.attr == "tag" and isinstance(e.value, ast.Name) and e.value.id == child


def _iter_of_param(sp, fn, iterable, node, pname):
    if isinstance(iterable, ast.Call) and isinstance(iterable.func, ast.Name) and iterable.func.id in ("list", "iter", "tuple") and len(iterable.args) == 1:
        iterable = iterable.args[0]
    if not isinstance(iterable, ast.Name):
        return False
    srcs = sp.sources(iterable, node)
    return bool(srcs) and all(k == "param" and p == pname for k, p in srcs)


# ---------------------------------------------------------------------------------------------- YAML root key
def _rootkey_decider(fn, configured):
    def is_rk(e):
        return isinstance(e, ast.Attribute) and e.attr == "root_key" and isinstance(e.value, ast.Name) and e.value.id == fn.self_name

    def decide(e, node):
        if is_rk(e):
            return configured
        if isinstance(e, ast.Compare) and len(e.ops) == 1:
            l, r, op = e.left, e.comparators[0], e.ops[0]
            if is_rk(l) and isinstance(r, ast.Constant) and r.value is None:
                if isinstance(op, (ast.Is, ast.Eq)):
                    return not configured
                if isinstance(op, (ast.IsNot, ast.NotEq)):
                    return configured
            if is_rk(l) and isinstance(op, ast.In) and configured:
                return True     # the document was written by dumps: the key is there
            if is_rk(l) and isinstance(op, ast.NotIn) and configured:
                return False
        return None
    return decide, is_rk


def check_yaml_root(ctx, an, model):
    yd, yl = model.method("YamlConfigFormat", "dumps"), model.method("YamlConfigFormat", "loads")
    tparam = yd.positional_params[2]
    uses_d = any(isinstance(x, ast.Attribute) and x.attr == "root_key" for x in ast.walk(yd.node))
    uses_l = any(isinstance(x, ast.Attribute) and x.attr == "root_key" for x in ast.walk(yl.node))
    sym = uses_d == uses_l
    ctx.ob("yaml.root-key-symmetric", yl, "wrap in dumps <-> unwrap in loads", sym,
           ("root_key wraps the tree on dumps and is unwrapped on loads" if uses_d else "no root key handling on either side") if sym else
           "the YAML root key is %s" % ("wrapped on dumps but never unwrapped on loads" if uses_d else "unwrapped on loads but never written"))
    for configured in (True, False):
        what = "with a root key" if configured else "without a root key"
        dec, is_rk = _rootkey_decider(yd, configured)
        sp = Spec(an, yd, dec)
        g = an.cfg(yd)
        dumps = [n for n in g.nodes if n.kind == "call" and n in sp.normal and ast.unparse(n.ast.func).endswith("dump") and n.ast.args]
        if not dumps:
            ctx.ob("yaml.dumps-wrapped-tree", yd, "yaml.dump(tree) %s" % what, False, "dumps does not serialise anything %s" % what)
        for n in dumps:
            srcs = sp.sources(n.ast.args[0], n)
            if configured and uses_d:
                ok = bool(srcs) and all(k == "expr" and isinstance(p, ast.Dict) and len(p.keys) == 1 and p.keys[0] is not None and is_rk(p.keys[0])
                                        and all(k2 == "param" and p2 == tparam for k2, p2 in sp.sources(p.values[0], sp.where.get(id(p)))) for k, p in srcs)
                ctx.ob("yaml.dumps-wrapped-tree", yd, "yaml.dump(...) %s" % what, ok,
                       "with a root key configured the document is {root_key: tree}" if ok else
                       "with a root key configured dumps does not serialise {root_key: tree}", node=n)
            else:
                ok = bool(srcs) and all(k == "param" and p == tparam for k, p in srcs)
                ctx.ob("yaml.wrap-only-with-root-key", yd, "yaml.dump(...) %s" % what, ok,
                       "without a root key the tree itself is the document" if ok else
                       "the tree is wrapped (or replaced) although no root key is configured", node=n)
        dec0, is_rk = _rootkey_decider(yl, configured)
        g = an.cfg(yl)
        loads = [n for n in g.nodes if n.kind == "call" and ast.unparse(n.ast.func).endswith("load")]

        def dec(e, node, sp, dec0=dec0):
            # the document is what dumps wrote: a mapping, not an empty / non-mapping document (those are handled apart)
            def is_document(x):
                if not isinstance(x, ast.Name) or sp.rd is None:
                    return False
                ss = sp.sources(x, node)
                return bool(ss) and all(k == "expr" and isinstance(p_, ast.Call) and any(p_ is l.ast for l in loads) for k, p_ in ss)
            if isinstance(e, ast.Compare) and len(e.ops) == 1 and isinstance(e.comparators[0], ast.Constant) and e.comparators[0].value is None \
                    and is_document(e.left):
                return isinstance(e.ops[0], (ast.IsNot, ast.NotEq))
            if isinstance(e, ast.Call) and isinstance(e.func, ast.Name) and e.func.id == "isinstance" and len(e.args) == 2 and is_document(e.args[0]) \
                    and ast.unparse(e.args[1]) in ("dict", "Mapping", "(dict, OrderedDict)", "collections.abc.Mapping"):
                return True
            return dec0(e, node)
        sp = Spec(an, yl, dec)
        for r in sp.normal_returns():
            if r.ast.value is None:
                ctx.ob("yaml.returns-unwrapped", yl, r.ast, False, "loads returns nothing %s" % what, node=r)
                continue
            srcs = sp.sources(r.ast.value, r)

            def is_doc(p):
                return isinstance(p, ast.Call) and any(p is l.ast for l in loads)

            def is_unwrapped(p):
                return isinstance(p, ast.Subscript) and is_rk(p.slice) and all(
                    k == "expr" and is_doc(q) for k, q in sp.sources(p.value, sp.where.get(id(p))))
            if configured and uses_l:
                ok = bool(srcs) and all(k == "expr" and is_unwrapped(p) for k, p in srcs)
                ctx.ob("yaml.returns-unwrapped", yl, r.ast, ok, "returns document[root_key] when a root key is configured" if ok else
                       "a document written under the root key is not unwrapped on this return", node=r)
            else:
                ok = bool(srcs) and all(k == "expr" and is_doc(p) for k, p in srcs)
                ctx.ob("yaml.unwrap-only-with-root-key", yl, r.ast, ok, "without a root key the document is returned as it is" if ok else
                       "loads indexes / replaces the document although no root key is configured", node=r)


# ---------------------------------------------------------------------------------------------- documents are not edited as text
TEXT_EDITS = {"split", "rsplit", "splitlines", "join", "replace", "strip", "lstrip", "rstrip", "translate", "expandtabs", "format",
              "sub", "subn", "removeprefix", "removesuffix", "lower", "upper", "title", "capitalize", "swapcase", "casefold", "zfill",
              "center", "ljust", "rjust", "partition", "rpartition"}
CONVERSIONS = {"encode", "decode"}


def _edit_in_chain(an, fn, expr, node, depth=0, seen=None):
    """follow the derivation of a serialised document backwards; returns a description of the first textual edit on it, or None"""
    seen = seen if seen is not None else set()
    if depth > 8:
        return None
    for k, p in value_sources(fn, expr, node):
        if k != "expr":
            continue
        if id(p) in seen:
            continue
        seen.add(id(p))
        if isinstance(p, ast.Constant):
            continue
        if isinstance(p, ast.Call):
            f = p.func
            if isinstance(f, ast.Attribute) and f.attr in CONVERSIONS:
                r = _edit_in_chain(an, fn, f.value, None, depth + 1, seen)
                if r:
                    return r
                continue
            if isinstance(f, ast.Attribute) and f.attr in TEXT_EDITS:
                return "`%s`" % ast.unparse(p)[:60]
            if isinstance(f, ast.Name) and f.id in ("bytes", "str", "bytearray"):
                for a in p.args[:1]:
                    r = _edit_in_chain(an, fn, a, None, depth + 1, seen)
                    if r:
                        return r
                continue
            # a helper of the same class: follow what it returns; anything else is the library
            nodes = an.cfg(fn).nodes_for(p)
            callees = an.callees(fn, nodes[0]) if nodes else []
            for c in callees:
                if c.cls is not None and fn.cls is not None and c.cls is fn.cls:
                    for r_ in an.cfg(c).nodes:
                        if r_.kind == "return" and r_.ast.value is not None:
                            r = _edit_in_chain(an, c, r_.ast.value, r_, depth + 1, seen)
                            if r:
                                return "%s (in %s)" % (r, c.qualname)
            continue
        if isinstance(p, (ast.BinOp, ast.JoinedStr, ast.ListComp, ast.GeneratorExp)):
            return "`%s`" % ast.unparse(p)[:60]
        if isinstance(p, ast.Subscript) and isinstance(p.slice, ast.Slice):
            return "`%s`" % ast.unparse(p)[:60]
    return None


def check_documents_verbatim(ctx, an, model):
    CF = model.cls("ConfigFormat")
    n_ret = 0
    for c in CF.subclasses(strict=True):
        d = c.methods.get("dumps")
        if d is not None:
            for r in an.cfg(d).nodes:
                if r.kind == "return" and r.ast.value is not None:
                    n_ret += 1
                    bad = _edit_in_chain(an, d, r.ast.value, r)
                    ctx.ob("wrapper.document-verbatim", d, r.ast, bad is None,
                           "the document is the serialiser's output (only encoded)" if bad is None else
                           "the serialised document is edited as text by %s: string values containing what the edit touches do not survive" % bad, node=r)
        l = c.methods.get("loads")
        if l is not None and len(l.positional_params) >= 3:
            cparam = l.positional_params[2]
            for n in an.cfg(l).nodes:
                if n.kind != "call" or not n.ast.args:
                    continue
                f = n.ast.func
                if not (isinstance(f, ast.Attribute) and isinstance(f.value, ast.Name) and model_is_import(l, f.value.id)):
                    continue
                a0 = n.ast.args[0]
                if not any(isinstance(x, ast.Name) and any(k == "param" and p == cparam for k, p in value_sources(l, x, n)) for x in ast.walk(a0)) \
                        and not isinstance(a0, ast.Name):
                    continue
                bad = _edit_in_chain(an, l, a0, n)
                ctx.ob("wrapper.document-verbatim", l, n.ast, bad is None,
                       "the parser is given the document as it was read (only decoded)" if bad is None else
                       "the document is edited as text by %s before it is parsed" % bad, node=n)
    ctx.need(n_ret >= 5, "fewer than 5 dumps return statements found")
    # ... and the methods analysed are the methods that run: nothing in the package replaces a format's dumps / loads after the
    # class was defined (an __init_subclass__ / decorator / registry hook that wraps them edits the document outside the rules' view)
    n_repl = 0
    for f in an.fns():
        for x in ast.walk(f.node) if model.enclosing_function(f.node) is f.parent or True else ():
            tgt = None
            if isinstance(x, ast.Assign):
                for t in x.targets:
                    if isinstance(t, ast.Attribute) and t.attr in ("loads", "dumps"):
                        tgt = t
            elif isinstance(x, ast.Call) and isinstance(x.func, ast.Name) and x.func.id == "setattr" and len(x.args) == 3:
                a1 = x.args[1]
                if (isinstance(a1, ast.Constant) and a1.value in ("loads", "dumps")) or (
                        not isinstance(a1, ast.Constant) and f.cls is not None and f.cls.is_subclass_of(CF)):
                    tgt = x
            if tgt is not None and model.enclosing_function(x) is f:
                n_repl += 1
                ctx.ob("wrapper.methods-not-replaced", f, x, False,
                       "%s replaces a format's %s at run time: the document passes through code the format classes do not show "
                       "(what a binary format reads is no longer what was read from the file)" % (f.qualname, ast.unparse(tgt)[:40]), node=x)
    if n_repl == 0:
        ctx.ob("wrapper.methods-not-replaced", CF, "no assignment to .loads / .dumps", True, "the format methods are the ones defined in the classes", nontrivial=False)


def model_is_import(fn, name):
    mod = fn.module
    imports = getattr(mod, "imports", None)
    if isinstance(imports, dict):
        return name in imports
    return name in ("json", "yaml", "bson", "pickle", "ET", "minidom")


def check_get_constructs(ctx, an, model):
    """ConfigFormat.get hands out a formatter built from the options it was given"""
    get = model.method("ConfigFormat", "get")
    kw = get.node.args.kwarg.arg if get.node.args.kwarg else None
    ctx.need(kw is not None, "ConfigFormat.get no longer takes **options")
    g = an.cfg(get)
    for r in g.nodes:
        if r.kind != "return" or r.ast.value is None:
            continue
        for k, p in value_sources(get, r.ast.value, r):
            ok, why = False, "returns %s" % (ast.unparse(p)[:50] if isinstance(p, ast.AST) else p)
            if k == "expr" and isinstance(p, ast.Call):
                def hands_options(call_):
                    return any(kk.arg is None and isinstance(kk.value, ast.Name) and kk.value.id == kw for kk in call_.keywords)
                # the options go to the constructor, or to the inner formatter a wrapper is built around: Wrapper(cls.get(inner, **options))
                passes = hands_options(p) or any(isinstance(a_, ast.Call) and isinstance(a_.func, ast.Attribute) and a_.func.attr == "get"
                                                 and isinstance(a_.func.value, ast.Name) and a_.func.value.id == get.self_name and hands_options(a_) for a_ in p.args)
                callee_src = value_sources(get, p.func, None) if isinstance(p.func, ast.Name) else [("expr", p.func)]
                callee_src = [(k2, q) for k2, q in callee_src if not (k2 == "expr" and isinstance(q, ast.Constant) and q.value is None)]

                def class_table_lookup(q):
                    """<cls>.<private table>[name] / <cls>.<private table>.get(name)"""
                    tbl = q.value if isinstance(q, ast.Subscript) else (q.func.value if isinstance(q, ast.Call) and isinstance(q.func, ast.Attribute)
                                                                        and q.func.attr == "get" else None)
                    return isinstance(tbl, ast.Attribute) and isinstance(tbl.value, ast.Name) and tbl.value.id == get.self_name and tbl.attr.startswith("_")
                from_registry = bool(callee_src) and all(k2 == "expr" and isinstance(q, ast.AST) and class_table_lookup(q) for k2, q in callee_src)
                ok = passes and from_registry
                why = "constructs the registered class with the given options" if ok else (
                    "the formatter is constructed without the options it was asked for" if not passes else "the class constructed is not the registered one")
            elif k == "expr" and isinstance(p, (ast.Subscript, ast.Call)):
                pass
            if k == "expr" and isinstance(p, ast.Subscript):
                # a cache: its key has to contain the option *values*
                keysrc = []
                for k3, q in value_sources(get, p.slice, r):
                    keysrc.append(q if isinstance(q, ast.AST) else None)
                vals = any(q is not None and any(isinstance(x, ast.Call) and isinstance(x.func, ast.Attribute) and x.func.attr in ("items", "values")
                                                 and isinstance(x.func.value, ast.Name) and x.func.value.id == kw for x in ast.walk(q)) for q in keysrc)
                ok = vals
                why = "cached formatters are keyed by the option values" if ok else \
                    "a cached formatter is returned whose key ignores the option values: a later request gets the options of an earlier one"
            ctx.ob("registry.get-honours-options", get, r.ast, ok, why, node=r)


def check_xml_output_validated(ctx, an, model):
    """ElementTree writes tag names and text unchecked; the document XmlConfigFormat.dumps returns has been through a
    parser, so a key that is no XML name / a control character makes dumps *fail* instead of producing a file that cannot
    be loaded."""
    from engine.flow import must_pass
    dumps = model.method("XmlConfigFormat", "dumps")
    PARSERS = {"parseString", "fromstring", "XML", "parse", "XMLParser", "feed"}
    fns = [dumps] + [c for c in an.reachable_fns([dumps]) if c.cls is dumps.cls and c is not dumps]

    def is_parse(n):
        return n.kind == "call" and (
            (isinstance(n.ast.func, ast.Attribute) and n.ast.func.attr in PARSERS) or
            (isinstance(n.ast.func, ast.Name) and n.ast.func.id in PARSERS))
    validated = {}
    for f in fns:
        g = an.cfg(f)
        rets = [n for n in g.nodes if n.kind == "return"]
        ok = bool(rets) and any(is_parse(n) for n in g.nodes) and all(must_pass(an, f, r, is_parse) is None for r in rets)
        validated[f] = ok
    # dumps itself, or a helper it passes through on every path
    g = an.cfg(dumps)
    ok = validated[dumps]
    if not ok:
        rets = [n for n in g.nodes if n.kind == "return"]
        helper_call = lambda n: n.kind == "call" and any(validated.get(c) for c in an.callees(dumps, n))
        ok = bool(rets) and all(must_pass(an, dumps, r, helper_call) is None for r in rets)
    ctx.ob("xml.output-validated", dumps, "serialised document re-parsed before it is returned", ok,
           "the document is parsed once before dumps returns: out-of-domain keys / characters make dumps fail, nothing unloadable is written" if ok else
           "XmlConfigFormat.dumps returns what ElementTree wrote without parsing it: a key that is no XML name or a control character "
           "yields a document that cannot be loaded, and save overwrites the previous file with it")
