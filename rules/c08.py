"""C08 -- ciphers invert exactly; AES is standard with a fresh IV; bad input is rejected."""
from __future__ import annotations

import ast

from engine.defuse import value_sources
from engine.flow import dominating_guards, falls_through, reachable_from_entry, returns_of
from .common import CALLS

META = {
    "explanation": (
        "Cryptographic behaviour is not decidable statically; the layout and wiring are: in AesProvider.encrypt "
        "the IV handed to CBC has exactly one reaching definition, os.urandom(N) evaluated inside the method, and "
        "is the leftmost operand of the returned concatenation; decrypt splits at the same N on both sides and "
        "guards the split by a length test of at least IV + one block; both directions build AES(key), CBC(iv), "
        "PKCS7(8*N); the XOR provider's decrypt delegates to encrypt and pairs every index of the data with "
        "cycle(key); _get_provider and SecureField.to_python cannot fall through or return None for a non-None "
        "input; unknown methods end in raise."),
    "decided": ["C08.1 IV: single fresh definition, prepended, split at the same N, guard dominates the split",
                "C08.2 same primitives in both directions (AES/CBC/PKCS7(8N)), key handed over whole",
                "C08.3 XOR self-inverse by construction", "C08.5 rejections: no fall-through returns"],
    "not_decided": ["that AES-CBC/PKCS7 round-trips and interoperates; ciphertext inequality; wrong key never decrypts"],
}


def const(model, fn, e):
    try:
        return model.const_eval(fn.module, e, fn.cls)
    except ValueError:
        return None


def call_names(fn):
    out = {}
    for x in ast.walk(fn.node):
        if isinstance(x, ast.Call):
            nm = ast.unparse(x.func).split(".")[-1]
            out.setdefault(nm, []).append(x)
    return out



def xor_keystream(xe):
    """Is every byte of the data XOR-ed with the key *repeated over the whole data*?  Two spellings are read: the in-place
    loop `for i, k in zip(range(len(buf)), cycle(key)): buf[i] ^= k` and the generator `bytes(b ^ k for b, k in zip(data,
    cycle(key)))`.  What makes the rule: the key side of the zip is cycle(<key attribute>) (zip stops at its shortest
    argument: without cycle only len(key) bytes are produced), the other side enumerates the whole data, and the two loop
    variables are what is XOR-ed."""
    why = "no XOR of the data with the repeated key found"
    loops = []
    for x in ast.walk(xe.node):
        if isinstance(x, ast.For):
            loops.append((x.target, x.iter, x))
        elif isinstance(x, (ast.GeneratorExp, ast.ListComp)) and len(x.generators) == 1 and not x.generators[0].ifs:
            loops.append((x.generators[0].target, x.generators[0].iter, x))
    for tgt, it, owner in loops:
        if not (isinstance(it, ast.Call) and ast.unparse(it.func) == "zip" and len(it.args) == 2 and isinstance(tgt, ast.Tuple) and len(tgt.elts) == 2
                and all(isinstance(e, ast.Name) for e in tgt.elts)):
            continue
        def dr(a):
            # keystream = cycle(self.__key); zip(range(len(out)), keystream)
            if isinstance(a, ast.Name):
                srcs = value_sources(xe, a, None)
                if len(srcs) == 1 and srcs[0][0] == "expr" and isinstance(srcs[0][1], ast.Call):
                    return srcs[0][1]
            return a
        sides = list(zip(tgt.elts, [dr(a) for a in it.args]))

        def key_attr(a):
            """self.<key attribute>, directly or through a plain local copy (an inlined helper's parameter)"""
            if isinstance(a, ast.Name):
                srcs = value_sources(xe, a, None)
                if len(srcs) == 1 and srcs[0][0] == "expr":
                    a = srcs[0][1]
            return isinstance(a, ast.Attribute) and isinstance(a.value, ast.Name) and a.value.id == xe.self_name
        key_side = [(v, a) for v, a in sides if isinstance(a, ast.Call) and ast.unparse(a.func).endswith("cycle") and len(a.args) == 1
                    and key_attr(a.args[0])]
        if len(key_side) != 1:
            if any(isinstance(a, ast.Attribute) and isinstance(a.value, ast.Name) and a.value.id == xe.self_name for _, a in sides):
                why = "the key is zipped with the data without cycle(): zip stops at the shorter one, only len(key) bytes are processed"
            continue
        kvar = key_side[0][0]
        dvar, darg = [(v, a) for v, a in sides if v is not kvar][0]
        indexed = isinstance(darg, ast.Call) and ast.unparse(darg.func) == "range" and len(darg.args) == 1 and isinstance(darg.args[0], ast.Call) \
            and ast.unparse(darg.args[0].func) == "len" and len(darg.args[0].args) == 1
        if indexed:
            buf = ast.unparse(darg.args[0].args[0])
            cell = "%s[%s]" % (buf, dvar.id)
            for st in getattr(owner, "body", []):
                # buf[i] ^= k   |   buf[i] = buf[i] ^ k   |   buf[i] = k ^ buf[i]
                if isinstance(st, ast.AugAssign) and isinstance(st.op, ast.BitXor) and ast.unparse(st.target) == cell \
                        and isinstance(st.value, ast.Name) and st.value.id == kvar.id:
                    return True, "every index of the data is XOR-ed with the key repeated over it"
                if isinstance(st, ast.Assign) and len(st.targets) == 1 and ast.unparse(st.targets[0]) == cell and isinstance(st.value, ast.BinOp) \
                        and isinstance(st.value.op, ast.BitXor) and sorted([ast.unparse(st.value.left), ast.unparse(st.value.right)]) == sorted([cell, kvar.id]):
                    return True, "every index of the data is XOR-ed with the key repeated over it"
            why = "the loop over the data indices does not XOR buf[i] with the key byte"
            continue
        if isinstance(darg, ast.Name) and isinstance(owner, (ast.GeneratorExp, ast.ListComp)):
            e = owner.elt
            if isinstance(e, ast.BinOp) and isinstance(e.op, ast.BitXor) and {ast.unparse(e.left), ast.unparse(e.right)} == {dvar.id, kvar.id}:
                par = getattr(owner, "_parent", None)
                if isinstance(par, ast.Call) and ast.unparse(par.func) in ("bytes", "bytearray"):
                    return True, "every byte of the data is XOR-ed with the key repeated over it"
                why = "the XOR-ed bytes are not collected into bytes(...)"
            else:
                why = "the generator over (data, key) does not XOR the two bytes"
    big = xor_bigint(xe)
    if big is not None:
        return True, "the data and the key repeated to the data's length are XOR-ed as integers of the same width"
    return False, why


def xor_bigint(xe):
    """third spelling: int.from_bytes(data, o) ^ int.from_bytes(bytes(islice(cycle(key), len(data))), o), turned back with
    .to_bytes(len(data), o).  Returns the `.to_bytes` call, or None."""
    def one(a):
        if isinstance(a, ast.Name):
            srcs = value_sources(xe, a, None)
            if len(srcs) == 1 and srcs[0][0] == "expr" and isinstance(srcs[0][1], ast.AST):
                return srcs[0][1]
        return a

    def from_bytes(x):
        x = one(x)
        if isinstance(x, ast.Call) and ast.unparse(x.func) == "int.from_bytes" and len(x.args) + len(x.keywords) == 2 and x.args:
            order = x.args[1] if len(x.args) == 2 else next((k.value for k in x.keywords if k.arg == "byteorder"), None)
            if isinstance(order, ast.Constant):
                return x.args[0], order.value
        return None

    def is_len_of(n, dname):
        n = one(n)
        return isinstance(n, ast.Call) and ast.unparse(n.func) == "len" and len(n.args) == 1 and ast.unparse(n.args[0]) == dname

    for x in ast.walk(xe.node):
        if not (isinstance(x, ast.BinOp) and isinstance(x.op, ast.BitXor)):
            continue
        a, b = from_bytes(x.left), from_bytes(x.right)
        if a is None or b is None or a[1] != b[1]:
            continue
        for (d, _), (k, _) in ((a, b), (b, a)):
            if not isinstance(d, ast.Name):
                continue
            k = one(k)
            if isinstance(k, ast.Call) and ast.unparse(k.func) in ("bytes", "bytearray") and len(k.args) == 1:
                k = one(k.args[0])
            if not (isinstance(k, ast.Call) and ast.unparse(k.func).endswith("islice") and len(k.args) == 2 and is_len_of(k.args[1], d.id)):
                continue
            c = one(k.args[0])
            if not (isinstance(c, ast.Call) and ast.unparse(c.func).endswith("cycle") and len(c.args) == 1 and isinstance(c.args[0], ast.Attribute)
                    and isinstance(c.args[0].value, ast.Name) and c.args[0].value.id == xe.self_name):
                continue
            # the integer is turned back into exactly len(data) bytes in the same byte order
            for t in ast.walk(xe.node):
                if isinstance(t, ast.Call) and isinstance(t.func, ast.Attribute) and t.func.attr == "to_bytes" and len(t.args) == 2 \
                        and one(t.func.value) is x and is_len_of(t.args[0], d.id) and isinstance(t.args[1], ast.Constant) and t.args[1].value == a[1]:
                    return t
    return None


def check(ctx):
    an, model = ctx.an, ctx.model
    calls = an.summary(CALLS)
    aes = model.cls("AesProvider")
    enc, dec = model.method("AesProvider", "encrypt"), model.method("AesProvider", "decrypt")

    # ---------------------------------------------------------------- C08.1 IV
    g = an.cfg(enc)
    cn = call_names(enc)
    modes_used = sorted(k for k in cn if k in ("ECB", "CTR", "GCM", "CFB", "OFB", "XTS", "CFB8"))
    if "CBC" not in cn and modes_used:
        ctx.ob("iv.mode-is-cbc", enc, "modes.%s" % modes_used[0], False,
               "AesProvider.encrypt uses %s instead of CBC with a fresh IV: values no longer are IV + AES-256-CBC ciphertext" % modes_used[0])
        return
    ctx.need("CBC" in cn, "AesProvider.encrypt no longer builds a CBC mode: vanished anchor")
    N = None
    for cbc in cn["CBC"]:
        ok, why = False, "CBC is given no IV"
        if cbc.args:
            srcs = value_sources(enc, cbc.args[0], g.nodes_for(cbc)[0] if g.nodes_for(cbc) else None)
            ur = [pl for k, pl in srcs if k == "expr" and isinstance(pl, ast.Call) and any(
                e[0] == "URANDOM" for nn in g.nodes_for(pl) for e in calls.direct(enc, nn))]
            if len(srcs) == 1 and len(ur) == 1:
                N = const(model, enc, ur[0].args[0]) if ur[0].args else None
                in_loop = False
                ok, why = True, "the IV has exactly one reaching definition, os.urandom(%s), evaluated per call" % N
            else:
                why = "the IV given to CBC comes from %s, not from one os.urandom(...) call inside the method" % [
                    (k, ast.unparse(pl)[:30] if isinstance(pl, ast.AST) else pl) for k, pl in srcs]
        ctx.ob("iv.fresh", enc, cbc, ok, why, node=cbc)
        # prepended: leftmost operand of the returned concatenation
        for r in returns_of(an, enc):
            e = r.ast.value
            left = e
            while isinstance(left, ast.BinOp) and isinstance(left.op, ast.Add):
                left = left.left
            # b"".join([iv, body, tail]) / b"".join(parts) with parts a list display: the first part
            je = e
            if isinstance(je, ast.Call) and isinstance(je.func, ast.Attribute) and je.func.attr == "join" and isinstance(je.func.value, ast.Constant) \
                    and je.func.value.value in (b"", "") and len(je.args) == 1:
                seq = je.args[0]
                if isinstance(seq, ast.Name):
                    ss = value_sources(enc, seq, r)
                    if len(ss) == 1 and ss[0][0] == "expr" and isinstance(ss[0][1], (ast.List, ast.Tuple)):
                        seq = ss[0][1]
                if isinstance(seq, (ast.List, ast.Tuple)) and seq.elts:
                    left = seq.elts[0]
                    e = ast.BinOp(left=left, op=ast.Add(), right=seq.elts[-1])
            okl = False
            if cbc.args and isinstance(e, ast.BinOp):
                sl = value_sources(enc, left, r)
                sc = value_sources(enc, cbc.args[0], g.nodes_for(cbc)[0])
                okl = len(sl) == 1 and len(sc) == 1 and sl[0][1] is sc[0][1]
            ctx.ob("iv.prepended", enc, r.ast, okl, "the returned value starts with the IV that was used" if okl else
                   "the IV used for encryption is not the leftmost part of the returned ciphertext", node=r)
    ctx.ob("iv.length", enc, "os.urandom(N)", N == 16, "16-byte IV (AES block size)" if N == 16 else "IV length is %s, not 16" % N)
    # ... and every KeyFile.encrypt call runs the provider: what it returns is a SecureValue built in this call from this call's
    # provider.encrypt(...) result -- never one issued earlier (the IV, and with it the whole ciphertext, would repeat)
    kenc = model.method("KeyFile", "encrypt")
    gk = an.cfg(kenc)
    for r in returns_of(an, kenc):
        if r.ast.value is None:
            continue
        bad = None
        for k, pl in value_sources(kenc, r.ast.value, r):
            fresh = False
            if k == "expr" and isinstance(pl, ast.Call):
                nn = gk.nodes_for(pl)
                tg = an.targets(kenc, nn[0]) if nn else []
                is_sv = ast.unparse(pl.func).split(".")[-1] == "SecureValue" or (bool(tg) and all(t.kind == "ctor" for t in tg))
                if is_sv and (pl.args or pl.keywords):
                    payload = pl.args[-1] if len(pl.args) >= 2 else next((kw.value for kw in pl.keywords if kw.arg == "ciphertext"), None)
                    ps = value_sources(kenc, payload, nn[0] if nn else r) if payload is not None else []
                    fresh = bool(ps) and all(k2 == "expr" and isinstance(p2, ast.Call) and isinstance(p2.func, ast.Attribute) and p2.func.attr == "encrypt"
                                             for k2, p2 in ps)
            if not fresh:
                bad = pl if isinstance(pl, ast.AST) else k
        ctx.ob("iv.fresh-per-encrypt", kenc, r.ast, bad is None,
               "every call encrypts anew: the value returned is built from this call's provider.encrypt(...)" if bad is None else
               "KeyFile.encrypt can return %s, a value that was not produced by encrypting in this call: equal plaintexts get the same IV and "
               "ciphertext again" % (ast.unparse(bad)[:50] if isinstance(bad, ast.AST) else bad), node=r)

    # decrypt: split points
    g = an.cfg(dec)
    cparam = dec.positional_params[1]
    slices = [x for x in ast.walk(dec.node) if isinstance(x, ast.Subscript) and isinstance(x.slice, ast.Slice)
              and isinstance(x.value, ast.Name)]
    uppers = [const(model, dec, x.slice.upper) for x in slices if x.slice.upper is not None and x.slice.lower is None]
    lowers = [const(model, dec, x.slice.lower) for x in slices if x.slice.lower is not None and x.slice.upper is None]
    oks = len(uppers) == 1 and len(lowers) == 1 and uppers[0] == lowers[0] == N
    ctx.ob("iv.split", dec, "ciphertext[:N] / ciphertext[N:]", oks,
           "decrypt takes the first %s bytes as IV and the rest as ciphertext: the same N as encrypt" % N if oks else
           "decrypt splits at %s/%s while encrypt prepends %s bytes" % (uppers, lowers, N))
    dcn = call_names(dec)
    if "CBC" in dcn:
        for cbc in dcn["CBC"]:
            okiv = False
            if cbc.args:
                for k, pl in value_sources(dec, cbc.args[0], g.nodes_for(cbc)[0] if g.nodes_for(cbc) else None):
                    okiv = k == "expr" and isinstance(pl, ast.Subscript) and isinstance(pl.slice, ast.Slice) and pl.slice.lower is None
            ctx.ob("iv.decrypt-uses-prefix", dec, cbc, okiv, "CBC is initialised with the stored prefix" if okiv else
                   "decrypt does not initialise CBC with the prefix of the stored value", node=cbc)
    # the decrypted payload is the part after the IV
    upd = [x for x in dcn.get("update", []) if x.args]
    okp = False
    for u in upd:
        for k, pl in value_sources(dec, u.args[0], g.nodes_for(u)[0] if g.nodes_for(u) else None):
            if k == "expr" and isinstance(pl, ast.Subscript) and isinstance(pl.slice, ast.Slice) and pl.slice.upper is None:
                okp = True
    ctx.ob("iv.decrypt-payload", dec, "decryptor.update(ciphertext[N:])", okp, "the payload decrypted is the part after the IV" if okp else
           "decrypt feeds something other than the part after the IV to the cipher")
    # guard dominates the slicing
    sub_nodes = [n for n in g.nodes if n.kind == "subscript" and isinstance(n.ast.slice, ast.Slice)]
    ctx.need(bool(sub_nodes), "AesProvider.decrypt no longer slices its input: vanished anchor")
    for sn in sub_nodes:
        okg, bound = False, None
        from engine.flow import guard_atoms
        for e, tr, t in guard_atoms(an, dec, sn):
            if isinstance(e, ast.Compare) and isinstance(e.left, ast.Call) and isinstance(e.left.func, ast.Name) and e.left.func.id == "len" \
                    and len(e.ops) == 1:
                b = const(model, dec, e.comparators[0])
                if isinstance(e.ops[0], ast.Lt) and not tr:
                    okg, bound = True, b
                if isinstance(e.ops[0], ast.GtE) and tr:
                    okg, bound = True, b
                if isinstance(e.ops[0], ast.LtE) and not tr and b is not None:
                    okg, bound = True, b + 1
                if isinstance(e.ops[0], ast.Gt) and tr and b is not None:
                    okg, bound = True, b + 1
        good = okg and N is not None and bound is not None and bound >= 2 * N
        ctx.ob("reject.short-ciphertext", dec, sn.ast, good,
               "a length test (>= %s = IV + one block) dominates the split; shorter input ends in EncryptionError" % bound if good else
               "the IV split is not protected by a length test of at least IV + one block (found bound %s)" % bound, node=sn)

    # ---------------------------------------------------------------- C08.2 same primitives
    prim = {}
    for f in (enc, dec):
        names = call_names(f)
        prim[f.name] = {
            "AES": [ast.unparse(a) for c in names.get("AES", []) for a in c.args],
            "CBC": len(names.get("CBC", [])),
            "PKCS7": [(const(model, f, c.args[0]) if isinstance(const(model, f, c.args[0]), int) else ast.unparse(c.args[0])) if c.args else None
                      for c in names.get("PKCS7", [])],
            "Cipher": len(names.get("Cipher", [])),
        }
    same = prim["encrypt"]["AES"] == prim["decrypt"]["AES"] and len(prim["encrypt"]["AES"]) == 1 \
        and prim["encrypt"]["CBC"] == prim["decrypt"]["CBC"] == 1 and prim["encrypt"]["PKCS7"] == prim["decrypt"]["PKCS7"] \
        and prim["encrypt"]["Cipher"] == prim["decrypt"]["Cipher"] == 1
    ctx.ob("agree.primitives", aes, "AES(key) / CBC(iv) / PKCS7(bits) on both sides", same,
           "encrypt and decrypt build the same cipher, mode and padding: %s" % prim["encrypt"] if same else
           "encrypt and decrypt disagree: %s vs %s" % (prim["encrypt"], prim["decrypt"]))
    bits = prim["encrypt"]["PKCS7"][0] if prim["encrypt"]["PKCS7"] else None
    if isinstance(bits, str):
        sym = "block_size" in bits
        ctx.ob("agree.block-size", aes, "PKCS7(%s)" % bits, sym, "padding block taken from the cipher's own block_size" if sym else
               "PKCS7(%s) cannot be related to the %s-byte block" % (bits, N), nontrivial=False)
    else:
        ctx.ob("agree.block-size", aes, "PKCS7(8*N)", N is not None and bits == 8 * N,
               "padding block (%s bits) equals the IV/block size" % bits if N is not None and bits == 8 * N else
               "PKCS7(%s) does not match a %s-byte block" % (bits, N))
    for f, which in ((enc, ("padder", "encryptor")), (dec, ("unpadder", "decryptor"))):
        names = call_names(f)
        okw = all(w in names for w in which) and not any(w in names for w in (("unpadder", "decryptor") if f is enc else ("padder", "encryptor")))
        ctx.ob("agree.direction", f, "%s uses %s" % (f.name, "/".join(which)), okw, "direction-correct primitives" if okw else
               "%s does not use %s" % (f.qualname, "/".join(which)))
    # pad-then-encrypt / decrypt-then-unpad, finalize on both
    for f in (enc, dec):
        fin = call_names(f).get("finalize", [])
        ctx.ob("agree.finalize", f, "update(...) + finalize() for cipher and padding", len(fin) == 2,
               "both the cipher and the padding context are finalised" if len(fin) == 2 else
               "%d finalize() calls in %s: the last block / padding is lost" % (len(fin), f.qualname))

    # ---------------------------------------------------------------- C08.3 XOR
    xe, xd = model.method("XorProvider", "encrypt"), model.method("XorProvider", "decrypt")
    rets = returns_of(an, xd)
    okd = bool(rets)
    for r in rets:
        v = r.ast.value
        okd = okd and isinstance(v, ast.Call) and isinstance(v.func, ast.Attribute) and v.func.attr == "encrypt" \
            and isinstance(v.func.value, ast.Name) and v.func.value.id == xd.self_name and len(v.args) == 1 \
            and isinstance(v.args[0], ast.Name) and v.args[0].id == xd.positional_params[1]
    ctx.ob("xor.decrypt-is-encrypt", xd, "return self.encrypt(ciphertext)", okd, "XOR decryption is the same transformation" if okd else
           "XorProvider.decrypt is no longer encrypt applied to its input")
    xor_ok, why = xor_keystream(xe)
    ctx.ob("xor.keystream", xe, "for i, c in zip(range(len(buf)), cycle(key)): buf[i] ^= c", xor_ok, why)
    for r in returns_of(an, xe):
        v = r.ast.value
        if isinstance(v, ast.Name):
            srcs_ = value_sources(xe, v, r)
            if len(srcs_) == 1 and srcs_[0][0] == "expr":
                v = srcs_[0][1]         # the result under the local name of an inlined helper
        okr = isinstance(v, ast.Call) and ast.unparse(v.func) == "bytes" and len(v.args) == 1 or (v is not None and v is xor_bigint(xe))
        ctx.ob("xor.returns-buffer", xe, r.ast, okr, "returns the transformed buffer" if okr else "XorProvider.encrypt does not return the transformed buffer", node=r)

    # ---------------------------------------------------------------- C08.5 rejections
    from engine.specialize import Spec
    gp = model.method("KeyFile", "_get_provider")
    mparam = gp.positional_params[1]

    def gp_decide(e, node, sp=None):
        # the key file is open, the requested method is none of the names the function knows
        if isinstance(e, ast.Attribute) and isinstance(e.value, ast.Name) and e.value.id == gp.self_name and "key" in e.attr:
            return True

        def is_method(x):
            if not isinstance(x, ast.Name):
                return False
            if x.id == mparam:
                return True
            # a local that, under the assumption, can only hold the parameter (`resolved = method` unless method == 'best')
            srcs = sp.sources(x, node) if sp is not None and sp.rd is not None else value_sources(gp, x, node)
            return bool(srcs) and all(k == "param" and p_ == mparam for k, p_ in srcs)
        if isinstance(e, ast.Compare) and len(e.ops) == 1 and is_method(e.left):
            r, op = e.comparators[0], e.ops[0]
            try:
                cv = model.const_eval(gp.module, r, gp.cls)
            except (ValueError, KeyError):
                cv = None
            if cv is None and isinstance(r, ast.Name):
                rs = sp.sources(r, node) if sp is not None and sp.rd is not None else value_sources(gp, r, node)
                vals = {pl.value if k == "expr" and isinstance(pl, ast.Constant) else None for k, pl in rs}
                if len(vals) == 1 and None not in vals:
                    cv = vals.pop()        # name = 'aes' (a row of an unrolled dispatch table)
                elif len(rs) == 1 and rs[0][0] == "expr" and isinstance(rs[0][1], (ast.Dict, ast.Tuple, ast.List, ast.Set)):
                    elts = rs[0][1].keys if isinstance(rs[0][1], ast.Dict) else rs[0][1].elts
                    if elts and all(isinstance(x, ast.Constant) for x in elts):
                        cv = tuple(x.value for x in elts)      # a local table of the known methods
            if isinstance(cv, str) or isinstance(cv, (tuple, list, set, frozenset, dict)):
                if isinstance(op, (ast.Eq, ast.In)):
                    return False
                if isinstance(op, (ast.NotEq, ast.NotIn)):
                    return True
        return None
    spu = Spec(an, gp, gp_decide)
    oku = not spu.normal_returns() and not spu.falls_off() and bool(spu.raises())
    ctx.ob("reject.unknown-method", gp, "unknown method -> raise", oku,
           "an unknown method ends in raise" if oku else "_get_provider can return without a provider for an unknown method")
    tp = model.method("SecureField", "to_python")
    vparam = tp.positional_params[2]
    ft = falls_through(an, tp)
    ctx.ob("reject.wrong-shape", tp, "no fall-through", not ft, "a stored value of the wrong shape ends in raise" if not ft else
           "SecureField.to_python can fall off the end and return None for a malformed stored value")
    for r in returns_of(an, tp):
        v = r.ast.value
        none_ret = v is None or (isinstance(v, ast.Constant) and v.value is None)
        under_none = any(tr and isinstance(t.ast, ast.Compare) and isinstance(t.ast.ops[0], ast.Is) and isinstance(t.ast.left, ast.Name)
                         and t.ast.left.id == vparam for t, tr in dominating_guards(an, tp, r))
        if under_none:
            continue
        ctx.ob("reject.no-none-for-value", tp, r.ast, not none_ret, "returns a value" if not none_ret else
               "returns None for a non-None stored value", node=r)
    # each malformed-input test ends in raise
    g = an.cfg(tp)
    for n in g.nodes:
        if n.kind == "raise":
            continue
    dict_branch_raises = len([n for n in g.nodes if n.kind == "raise"])
    ctx.ob("reject.count", tp, "raise sites in SecureField.to_python", dict_branch_raises >= 4,
           "%d rejection sites (method missing, ciphertext not a string, bad base64, decryption failure, wrong shape)" % dict_branch_raises
           if dict_branch_raises >= 4 else "only %d rejection sites remain" % dict_branch_raises, nontrivial=False)
    # a stored record of the wrong shape: to_python specialised for "a dict without a method" / "a dict whose ciphertext
    # is not a string" must not return
    def tp_decider(which):
        def comp(e, node, keyname):
            """is e the record component `keyname` (value.get('k') / value['k'], possibly through a local)?"""
            def direct(x):
                if isinstance(x, ast.Call) and isinstance(x.func, ast.Attribute) and x.func.attr == "get" and x.args and isinstance(x.args[0], ast.Constant) \
                        and x.args[0].value == keyname:
                    return True
                return isinstance(x, ast.Subscript) and isinstance(x.slice, ast.Constant) and x.slice.value == keyname
            if direct(e):
                return True
            if isinstance(e, ast.Name):
                srcs = value_sources(tp, e, node)
                return bool(srcs) and all(k == "expr" and isinstance(pl, ast.AST) and direct(pl) for k, pl in srcs)
            return False

        def decide(e, node):
            if isinstance(e, ast.Call) and isinstance(e.func, ast.Name) and e.func.id == "isinstance" and len(e.args) == 2:
                names = [x.id for x in ([e.args[1]] if isinstance(e.args[1], ast.Name) else getattr(e.args[1], "elts", [])) if isinstance(x, ast.Name)]
                if isinstance(e.args[0], ast.Name) and e.args[0].id == vparam:
                    return "dict" in names
                if comp(e.args[0], node, "ciphertext") and names:
                    return ("str" in names) if which == "method" else False
            if isinstance(e, ast.Compare) and len(e.ops) == 1 and isinstance(e.left, ast.Name) and e.left.id == vparam \
                    and isinstance(e.comparators[0], ast.Constant) and e.comparators[0].value is None:
                return isinstance(e.ops[0], (ast.IsNot, ast.NotEq))
            if comp(e, node, "method"):
                return which != "method"
            if isinstance(e, ast.Compare) and len(e.ops) == 1 and comp(e.left, node, "method") and isinstance(e.comparators[0], ast.Constant) \
                    and e.comparators[0].value is None:
                return (which == "method") == isinstance(e.ops[0], (ast.Is, ast.Eq))
            return None
        return decide
    for x in ast.walk(tp.node):
        if isinstance(x, ast.Call) and isinstance(x.func, ast.Attribute) and x.func.attr == "get" and len(x.args) >= 2 and isinstance(x.args[0], ast.Constant) \
                and x.args[0].value in ("method", "ciphertext") and not (isinstance(x.args[1], ast.Constant) and x.args[1].value is None):
            ctx.ob("reject.%s" % ("missing-method" if x.args[0].value == "method" else "ciphertext-not-a-string"), tp, x, False,
                   "a record without a %r entry is given %s instead of being rejected" % (x.args[0].value, ast.unparse(x.args[1])), node=x)
    for what, which in (("missing method", "method"), ("ciphertext not a string", "ciphertext")):
        spx = Spec(an, tp, tp_decider(which))
        found = not spx.normal_returns() and not spx.falls_off() and bool(spx.raises())
        ctx.ob("reject.%s" % what.replace(" ", "-"), tp, what, found, "rejected with an error" if found else
               "a stored secret with %s is no longer rejected" % what)
    # "stored secrets of the wrong ... encoding are rejected": base64.b64decode silently drops every character outside the alphabet
    # unless it is told to validate -- 'ELv!*\n mzrZq' decodes (to the bytes of 'ELvmzrZq') instead of being refused
    gtp = an.cfg(tp)
    ndec = 0
    # (every reader of stored secrets: SecureField.to_python and the overrides in its subclasses)
    readers = [tp] + [c_.methods["to_python"] for c_ in model.cls("SecureField").subclasses(strict=True) if "to_python" in c_.methods]
    for tpx, n in [(f_, n_) for f_ in readers for n_ in an.cfg(f_).nodes]:
        if n.kind != "call" or not isinstance(n.ast, ast.Call):
            continue
        nm = ast.unparse(n.ast.func).split(".")[-1]
        if nm not in ("b64decode", "standard_b64decode", "urlsafe_b64decode", "a2b_base64", "decodebytes", "b32decode", "b16decode"):
            continue
        if tpx is tp:
            ndec += 1
        strict = any(kw.arg in ("validate", "strict_mode") and isinstance(kw.value, ast.Constant) and kw.value.value is True for kw in n.ast.keywords) \
            or nm in ("b32decode", "b16decode")
        if not strict:
            # or the text was checked against the alphabet before (a full-match regular expression)
            from engine.flow import guard_atoms as _ga
            strict = any(isinstance(e_, ast.Call) and isinstance(e_.func, ast.Attribute) and e_.func.attr == "fullmatch" and truth_ is True
                         for e_, truth_, _t in _ga(an, tpx, n))
        ctx.ob("reject.bad-encoding", tpx, n.ast, strict,
               "the stored ciphertext is decoded strictly: text that is not base64 is an error" if strict else
               "%s decodes the stored ciphertext with %s without validation: characters outside the alphabet are dropped "
               "silently and a malformed record yields a value instead of an error" % (tpx.qualname, nm), node=n)
    ctx.need(ndec >= 1, "SecureField.to_python no longer decodes the stored ciphertext: vanished anchor")
    aes_init = model.method("AesProvider", "__init__")
    ctx.ob("reject.aes-unavailable", aes_init, "AES_AVAILABLE guard", any(n.kind == "raise" for n in an.cfg(aes_init).nodes),
           "constructing the AES provider without the cryptography package raises", nontrivial=False)

    # ---------------------------------------------------------------- shared with C07: "for every 32-byte key ... across sessions"
    # presupposes that the key a later session reads is byte-for-byte the key that was generated / stored
    from . import c07
    sub = type(ctx)(ctx.pid, ctx.an, ctx.tier)
    c07.check(sub)
    ctx.obligations.extend(o for o in sub.obligations if o.rule.split(".", 1)[1].split(".")[0] in ("verbatim", "generated-is-written-is-returned", "generated-length"))
    # "the recorded method is always a concrete one": what SecureField writes next to the ciphertext is the method the encryption
    # actually used (shared with C03.1 / C03.2)
    if getattr(ctx, "_shared_from", None) != "C03":
        from . import c03
        sub3 = type(ctx)(ctx.pid, ctx.an, ctx.tier)
        sub3._shared_from = "C08"
        c03.check(sub3)
        ctx.obligations.extend(o for o in sub3.obligations if o.rule.split(".", 1)[1].startswith(("method.recorded-from-result", "method.encrypt-uses-resolved",
                                                                                                  "ciphertext.from-result", "shape.secure-basic")))
