"""C19 -- a failed save never damages the file on disk."""
from __future__ import annotations

import ast

from engine.defuse import value_sources
from engine.flow import mentions_params, must_complete, reachable_from_entry
from .common import CALLS, open_mode, open_path_expr

META = {
    "explanation": (
        "Fully structural: in Config.save (and any helper the destination path is handed to) the destination "
        "is opened for writing only after serialisation (Config.dumps -> to_tree -> field.to_basic -> "
        "formatter.dumps) has completed normally on every path; nothing that serialises (CODEC / TO_TREE / "
        "FORMAT events, transitively) is reachable after the open; no handler swallows a serialisation "
        "failure before the open; the one write hands exactly the value dumps returned to the file; the "
        "destination path never reaches the serialiser."),
    "decided": ["C19.1 dumps completes before the destination is opened for writing (dominance, normal completion)",
                "C19.2 no serialisation step is reachable after the destination is opened",
                "C19.3 the data written is exactly the value returned by dumps, written once",
                "C19.3b every normal return of save is preceded by the write (must-pass-through; no skip-the-write shortcut)",
                "C19.4 the destination path does not flow into dumps"],
    "not_decided": ["'a successful save loads back equal' (C02's remainder)", "OS-level write failures / partial writes"],
}

SERIALISE = ("CODEC", "TO_TREE", "FORMAT")


def dest_opens(an, fn, params, depth=0, seen=None):
    """(function, open node) pairs that open a path derived from *params* for writing."""
    seen = seen or set()
    out = []
    if id(fn) in seen or depth > 3:
        return out
    seen.add(id(fn))
    g = an.cfg(fn)
    calls = an.summary(CALLS)
    for n in g.nodes:
        if n.kind != "call":
            continue
        evs = [e for e in calls.direct(fn, n) if e[0] == "OPEN"]
        pe = open_path_expr(n.ast)
        if evs and pe is not None and mentions_params(fn, pe, n, params):
            out.append((fn, n, evs[0][2]))
            continue
        for t in an.targets(fn, n):
            if t.kind == "fn" and t.fn is not None:
                b = an.bind_args(t, fn, n)
                tainted = {p for p, a in b.items() if a is not None and p != t.fn.self_name
                           and mentions_params(fn, a, n, params)}
                if tainted:
                    out.extend(dest_opens(an, t.fn, tainted, depth + 1, seen))
    return out


def check(ctx):
    an, model = ctx.an, ctx.model
    save = model.method("Config", "save")
    dumps = model.method("Config", "dumps")
    calls = an.summary(CALLS)
    g = an.cfg(save)
    params = save.positional_params
    ctx.need(len(params) >= 2, "Config.save lost its filename parameter")
    fparam = params[1]
    opens = dest_opens(an, save, {fparam})
    wopens = [(f, n, m) for f, n, m in opens if any(c in m for c in "wax+") or m == "?"]
    ctx.need(bool(wopens), "Config.save never opens its destination for writing: vanished anchor")
    dumps_nodes = [n for n in g.nodes if any(c is dumps for c in an.callees(save, n))]
    ctx.need(bool(dumps_nodes), "Config.save no longer calls Config.dumps: vanished anchor")
    dset = set(dumps_nodes)
    ser_in_dumps = [e for e in calls.fn_events(dumps) if e[0] in SERIALISE]
    ctx.need(bool(ser_in_dumps), "Config.dumps no longer serialises (no CODEC/TO_TREE/FORMAT reachable)")

    for f, on, mode in wopens:
        # the node in `save` through which the open happens (the open itself, or the call leading to it)
        if f is save:
            at = on
        else:
            cands = [n for n in g.nodes if f in an.reachable_fns(an.callees(save, n))]
            ctx.need(bool(cands), "cannot locate the call in save that reaches %s" % f.qualname)
            at = cands[0]
        p = must_complete(an, save, at, lambda n: n in dset)
        ctx.ob("dom.dumps-before-open", save, on.ast, p is None,
               "every path to open(dest, %r) has completed self.dumps(...) normally" % mode if p is None else
               "the destination can be opened (and truncated) before serialisation has succeeded: %s"
               % " -> ".join("%s@%s" % (x.kind, x.lineno) for x in p), node=on)
        # nothing serialises after the open
        oracle = lambda n: an.node_may_raise(save, n)

        def serialises(n):
            return any(e[0] in SERIALISE for e in calls.node_events(save, n))

        q = g.path(at, serialises, may_raise=oracle, from_successors=True)
        ctx.ob("order.no-serialise-after-open", save, on.ast, q is None,
               "no to_basic/to_tree/formatter call is reachable once the destination is open" if q is None else
               "serialisation continues after the destination was opened: %s (a failure there leaves a truncated file)"
               % " -> ".join("%s@%s" % (x.kind, x.lineno) for x in q), node=on)
        if f is not save:
            gf = an.cfg(f)
            q2 = gf.path(on, lambda n: any(e[0] in SERIALISE for e in calls.node_events(f, n)),
                         may_raise=lambda n: an.node_may_raise(f, n), from_successors=True)
            ctx.ob("order.no-serialise-after-open", f, on.ast, q2 is None,
                   "no serialisation after the open in helper" if q2 is None else
                   "serialisation after the open in %s" % f.qualname, node=on)

    # C19.2a' other savers: any other function of the package that opens a file for writing and serialises a configuration
    # (a new `save_config(config, filename)` helper, a `Config.save_as`) is held to the same order
    saved_reach = an.reachable_fns([save])
    for f2 in an.fns():
        if f2 is save or f2 in saved_reach or isinstance(f2.node, ast.Lambda):
            continue
        g2 = an.cfg(f2)
        w2 = [n for n in g2.nodes if n.kind == "call" and any(e[0] == "OPEN" and (any(c in str(e[2]) for c in "wax+") or e[2] == "?") for e in calls.direct(f2, n))]
        if not w2:
            continue
        for on2 in w2:
            q3 = g2.path(on2, lambda n: any(e[0] in SERIALISE for e in calls.node_events(f2, n)),
                         may_raise=lambda n: an.node_may_raise(f2, n), from_successors=True)
            ctx.ob("order.no-serialise-after-open", f2, on2.ast, q3 is None,
                   "no serialisation after the open" if q3 is None else
                   "%s opens its destination for writing and serialises afterwards (%s): a failure there leaves a truncated file"
                   % (f2.qualname, " -> ".join("%s@%s" % (x.kind, x.lineno) for x in q3[:8])), node=on2)

    # C19.2b nothing else damages the destination while serialisation has not succeeded: a remove / rename / overwrite of
    # the destination path that can run without dumps having completed normally (in a failure handler, or before dumps) is
    # only sound when it is known that the destination did not exist -- a test on the very path value it acts on
    from engine.flow import guard_atoms
    DESTRUCTIVE = {"remove": (0,), "unlink": (0,), "rmdir": (0,), "rmtree": (0,), "truncate": (0,), "rename": (0, 1), "replace": (0, 1),
                   "move": (0, 1), "copy": (1,), "copyfile": (1,), "copy2": (1,), "renames": (0, 1)}
    EXISTS = ("exists", "isfile", "lexists", "is_file")
    nd = 0
    for n in g.nodes:
        if n.kind != "call" or not isinstance(n.ast, ast.Call):
            continue
        f_ = n.ast.func
        name = f_.attr if isinstance(f_, ast.Attribute) else (f_.id if isinstance(f_, ast.Name) else None)
        if name not in DESTRUCTIVE:
            continue
        if isinstance(f_, ast.Attribute) and not n.ast.args and name in ("unlink", "rmdir", "truncate", "rename", "replace"):
            hit = [f_.value] if mentions_params(save, f_.value, n, {fparam}) else []        # Path(dest).unlink()
        else:
            hit = [n.ast.args[i] for i in DESTRUCTIVE[name] if i < len(n.ast.args) and mentions_params(save, n.ast.args[i], n, {fparam})]
        if not hit:
            continue
        nd += 1
        if must_complete(an, save, n, lambda x: x in dset) is None:
            continue            # after a successful serialisation: the atomic-replace idiom
        texts = {ast.unparse(h) for h in hit}
        known_absent = False
        for e, truth, _t in guard_atoms(an, save, n):
            if truth is False and isinstance(e, ast.Call) and isinstance(e.func, ast.Attribute) and e.func.attr in EXISTS:
                subject = e.args[0] if e.args else e.func.value
                if ast.unparse(subject) in texts:
                    known_absent = True
        ctx.ob("dest.untouched-on-failure", save, n.ast, known_absent,
               "runs only when the destination (the same path value) did not exist before" if known_absent else
               "%s(...) can act on the destination although serialisation has not completed, without a test that this very path did "
               "not exist: a failed save can remove or replace a previously saved configuration" % name, node=n)
    if nd == 0:
        ctx.ob("dest.untouched-on-failure", save, "no remove/rename of the destination", True, "save never removes or renames its destination", nontrivial=False)

    # C19.3 the write
    writers = []
    for f in an.reachable_fns([save]):
        if f in an.reachable_fns([dumps]):
            continue
        for n in an.cfg(f).nodes:
            if any(e[0] == "FILE_WRITE" for e in calls.direct(f, n)):
                writers.append((f, n))
    ctx.need(bool(writers), "Config.save never writes: vanished anchor")
    for f, n in writers:
        arg = n.ast.args[0] if n.ast.args else None
        ok, why = True, "the bytes written are exactly the value returned by self.dumps(...)"
        if arg is None:
            ok, why = False, "write without data"
        elif f is save:
            for kind, payload in value_sources(save, arg, n):
                good = kind == "expr" and isinstance(payload, ast.Call) and any(
                    c is dumps for nn in g.nodes_for(payload) for c in an.callees(save, nn))
                if not good:
                    ok, why = False, "data written is %s %s, not the value dumps returned" % (
                        kind, ast.unparse(payload)[:40] if isinstance(payload, ast.AST) else payload)
        else:
            # helper: the written value must be a parameter that save binds to the dumps result
            srcs = value_sources(f, arg, n)
            ok = all(k == "param" for k, _ in srcs)
            why = "helper writes its parameter" if ok else "helper writes a transformed value"
            if ok:
                for cf, cn in an.callers(f):
                    for t in an.targets(cf, cn):
                        if t.fn is f:
                            b = an.bind_args(t, cf, cn)
                            for _, pn in srcs:
                                a = b.get(pn)
                                if a is None:
                                    ok, why = False, "cannot bind the written parameter"
                                    continue
                                for kind, payload in value_sources(cf, a, cn):
                                    good = kind == "expr" and isinstance(payload, ast.Call) and any(
                                        c is dumps for nn in an.cfg(cf).nodes_for(payload) for c in an.callees(cf, nn))
                                    if not good:
                                        ok, why = False, "helper is handed a value that is not the dumps result"
        gf = an.cfg(f)
        in_loop = gf.path(n, lambda x: x is n, may_raise=lambda x: False, from_successors=True) is not None
        if in_loop:
            ok, why = False, "the write sits in a loop: content can be written more than once"
        ctx.ob("write.exact", f, n.ast, ok, why, node=n)
    if len(writers) > 1:
        ctx.ob("write.once", save, "number of write sites", False,
               "%d write sites reachable from save: bytes on disk are not exactly the serialised content" % len(writers))
    else:
        ctx.ob("write.once", save, "number of write sites", True, "exactly one write site")

    # C19.3b a save that returns has written: every path of `save` from entry to a normal return passes a write site (or the call of
    # the helper that holds it) -- a skip-the-write shortcut (unchanged-content cache, "file is newer" test) makes save report success
    # while the file holds other bytes than the serialisation
    from engine.flow import path_avoiding
    writer_fns = {f for f, _ in writers if f is not save}

    def writes_here(x):
        if any(f is save and x is n for f, n in writers):
            return True
        if x.kind == "call" and writer_fns:
            reach = an.reachable_fns([c for c in an.callees(save, x)]) if an.callees(save, x) else ()
            return any(w in reach for w in writer_fns)
        return False
    skip = path_avoiding(an, save, g.entry, lambda x: x is g.exit, writes_here)
    ctx.ob("write.on-every-success", save, "every normal return of save is preceded by the write", skip is None,
           "save cannot return normally without having written the serialised content" if skip is None else
           "save can return normally without writing (path: %s): it reports success while the file does not hold the serialisation"
           % " -> ".join("%s@%s" % (x.kind, x.lineno) for x in skip[:14]))

    # the counterpart: what load hands to the parser is exactly what it read
    load = model.method("Config", "load")
    loads = model.method("Config", "loads")
    gl = an.cfg(load)
    for n in gl.nodes:
        if n.kind == "call" and loads in an.callees(load, n) and n.ast.args:
            ok, why = True, "the bytes read from the file are handed to loads unchanged"
            for kind, payload in value_sources(load, n.ast.args[0], n):
                good = kind == "expr" and isinstance(payload, ast.Call) and any(e[0] == "FILE_READ" for nn in gl.nodes_for(payload) for e in calls.direct(load, nn)) \
                    and not payload.args
                if not good:
                    ok, why = False, "load passes %s to the parser instead of the bytes it read: a file written by save does not load back" % (
                        ast.unparse(payload)[:50] if isinstance(payload, ast.AST) else payload)
            ctx.ob("read.exact", load, n.ast, ok, why, node=n)

    # C19.4 filename does not reach dumps
    for n in dumps_nodes:
        call = n.ast
        # (the format *name* may be worked out from the file name -- it selects the formatter, it is not serialised)
        dparams = model.method("Config", "dumps").positional_params
        fmt_args = [a for i_, a in enumerate(call.args) if i_ + 1 < len(dparams) and dparams[i_ + 1] == "format"] + \
            [k.value for k in call.keywords if k.arg == "format"]
        bad = [a for a in list(call.args) + [k.value for k in call.keywords]
               if not isinstance(a, ast.Starred) and not any(a is fa for fa in fmt_args) and mentions_params(save, a, n, {fparam})]
        ctx.ob("flow.filename-not-serialised", save, call, not bad,
               "the destination path is not an argument of dumps" if not bad else
               "the destination path flows into dumps", node=n)
    # "an unusable key file" makes serialisation fail -- on every save, not only the first: shared with C07 (a malformed key
    # that stays in the slot after the failure lets the next save succeed with it and overwrite the previous configuration)
    from . import c07
    sub = type(ctx)(ctx.pid, ctx.an, ctx.tier)
    c07.check(sub)
    ctx.obligations.extend(o for o in sub.obligations if o.rule.split(".", 1)[1].startswith(("typestate.no-unvalidated-retained", "reject.")))
    # "a file written by a successful save loads back": what is written for a secret is encrypted with the key in force now
    from . import c03
    sub3 = type(ctx)(ctx.pid, ctx.an, ctx.tier)
    c03.check(sub3)
    ctx.obligations.extend(o for o in sub3.obligations if o.rule.split(".", 1)[1].startswith("encrypt.this-invocation"))
    # ... and loading it finds the same key file for every secret: sub-configurations created during the load are linked to
    # their parent before anything is loaded into them (shared with C03.5)
    from .links import check_links
    check_links(ctx, "link")
    from .paths import check_save_load_path
    check_save_load_path(ctx)
    from .xmlfmt import check_xml_output_validated
    check_xml_output_validated(ctx, an, model)
