"""C16 -- all ways of naming a field agree; command-line overrides touch only what's given."""
from __future__ import annotations

import ast

from engine.defuse import value_sources
from engine.flow import dominating_guards, reachable_from_entry, returns_of

META = {
    "explanation": (
        "Decided: every path constructor and path walker of the package (get_all_fields, the dotted-path walkers "
        "of Schema and Config, both _ref_path properties, ValidationError.ref_path, is_value_defined, "
        "reset_value) uses the same separator, splits off the first component for lookups and the last for "
        "defined/reset, and recurses on the remainder; get_all_fields prefixes nested paths with the nested "
        "schema's key; generate_argparse_parser passes dest=<enumerated path> on every add_argument, emits one "
        "option for str/int/float storage and an on/off pair for bool, and -- because cmdline_args_override "
        "treats `is not None` as 'supplied' -- every generated option's effective default (explicit default= or "
        "argparse's documented default for the action) is None; cmdline_args_override writes only through "
        "Config.__setitem__ under `key not in ignore and value is not None`."),
    "decided": ["C16.1 separator agreement across path constructors/walkers", "C16.2 dest = enumerated path; option count per storage type",
                "C16.3 default protocol between generated parser and override (AGREE)", "C16.4 override writes only via __setitem__ under the supplied/ignore guard"],
    "not_decided": ["equality of enumerated and reference paths for all schemas (value-level)"],
}

ARGPARSE_DEFAULTS = {"store": None, "store_const": None, "append": None, "append_const": None, "count": None,
                     "store_true": False, "store_false": True, None: None}


def check(ctx):
    an, model = ctx.an, ctx.model
    # ---------------------------------------------------------------- C16.1 separators
    fns = [model.function("support", "get_all_fields"), model.method("Schema", "__getitem__"), model.method("Schema", "__setitem__"),
           model.method("Config", "__getitem__"), model.method("Config", "__setitem__"), model.method("Config", "__contains__"),
           model.method("BaseField", "_ref_path"), model.method("Config", "_ref_path"), model.method("ValidationError", "ref_path"),
           model.function("support", "is_value_defined"), model.function("support", "reset_value")]
    seps = {}
    for f in fns:
        found = []
        for x in ast.walk(f.node):
            if isinstance(x, ast.Call) and isinstance(x.func, ast.Attribute) and x.func.attr in ("partition", "rpartition", "split", "rsplit") \
                    and x.args and isinstance(x.args[0], ast.Constant):
                found.append((x.func.attr, x.args[0].value))
            if isinstance(x, ast.Call) and isinstance(x.func, ast.Attribute) and x.func.attr == "join" and isinstance(x.func.value, ast.Constant):
                found.append(("join", x.func.value.value))
            if isinstance(x, ast.BinOp) and isinstance(x.op, ast.Add):
                for side in (x.left, x.right):
                    if isinstance(side, ast.Constant) and isinstance(side.value, str) and len(side.value) == 1 and not side.value.isalnum() \
                            and side.value not in "[]() ":
                        found.append(("concat", side.value))
            if isinstance(x, ast.JoinedStr):
                for part in x.values:
                    if isinstance(part, ast.Constant) and isinstance(part.value, str):
                        for ch in part.value:
                            if not ch.isalnum() and ch not in "[]() _-%:":
                                found.append(("fstring", ch))
            if isinstance(x, ast.BinOp) and isinstance(x.op, ast.Mod) and isinstance(x.left, ast.Constant) and isinstance(x.left.value, str):
                import re as _re
                for piece in _re.split(r"%[sdr]", x.left.value):
                    for ch in piece:
                        if not ch.isalnum() and ch not in "[]() _-%:":
                            found.append(("format", ch))
        seps[f.qualname] = found
        ok = bool(found) and all(s == "." for _, s in found)
        ctx.ob("separator", f, "%s uses %s" % (f.qualname, sorted(set(found))), ok,
               "path components are joined / split with '.'" if ok else
               ("%s no longer builds or splits dotted paths" % f.qualname if not found else
                "%s uses separator(s) %s while the rest of the package uses '.'" % (f.qualname, sorted({s for _, s in found}))))
    # walkers split the first component, defined/reset the last
    for f in fns:
        for x in ast.walk(f.node):
            if isinstance(x, ast.Call) and isinstance(x.func, ast.Attribute) and x.func.attr in ("partition", "rpartition"):
                want = "rpartition" if f.name in ("is_value_defined", "reset_value") else "partition"
                ctx.ob("separator.direction", f, x, x.func.attr == want,
                       "%s splits off the %s component" % (f.qualname, "last" if want == "rpartition" else "first") if x.func.attr == want else
                       "%s splits with %s: nested paths resolve to the wrong field" % (f.qualname, x.func.attr), node=x)
    # walkers recurse on the remainder with the same operation
    for cname, names in (("Schema", ("__getitem__", "__setitem__")), ("Config", ("__getitem__", "__setitem__", "__contains__"))):
        for nm in names:
            f = model.method(cname, nm)
            rec = [x for x in ast.walk(f.node) if isinstance(x, ast.Call) and isinstance(x.func, ast.Attribute) and x.func.attr == nm]
            okr = bool(rec) and all(x.args and isinstance(x.args[0], ast.Name) and "sub" in x.args[0].id for x in rec)
            ctx.ob("walker.recurses-on-remainder", f, "%s.%s(subkey, ...)" % (cname, nm), okr,
                   "the remainder of the path is resolved by the same operation on the nested object" if okr else
                   "%s.%s does not recurse with the remainder of the path" % (cname, nm))
    gaf = model.function("support", "get_all_fields")
    pref = [x for x in ast.walk(gaf.node) if isinstance(x, ast.BinOp) and isinstance(x.op, ast.Add) and isinstance(x.left, ast.Name) and "prefix" in x.left.id]
    keyed = any(isinstance(x, ast.Attribute) and x.attr == "_key" for x in ast.walk(gaf.node))
    ctx.ob("enumeration.prefix", gaf, "prefix + key / prefix + subkey", len(pref) >= 2 and keyed,
           "nested paths are prefixed with the nested schema's key" if len(pref) >= 2 and keyed else "get_all_fields does not prefix nested paths with the schema key")

    # ---------------------------------------------------------------- C16.2 / C16.3 parser
    gp = model.function("support", "generate_argparse_parser")
    g = an.cfg(gp)
    adds = [n for n in g.nodes if n.kind == "call" and isinstance(n.ast.func, ast.Attribute) and n.ast.func.attr == "add_argument"]
    ctx.need(len(adds) >= 2, "generate_argparse_parser no longer adds arguments")
    by_type = {}
    for n in adds:
        kws = {k.arg: k.value for k in n.ast.keywords}
        dest = kws.get("dest")
        okd = False
        if dest is not None:
            srcs = value_sources(gp, dest, n)
            okd = bool(srcs) and all(k == "iter" and pl[1] == 0 and isinstance(pl[0], ast.Call) and ast.unparse(pl[0].func) == "get_all_fields" for k, pl in srcs)
        ctx.ob("parser.dest-is-path", gp, n.ast, okd, "dest is the path reported by get_all_fields" if okd else
               "add_argument %s the enumerated path as dest: the parsed value cannot be routed back to its field" % ("does not pass" if dest is None else "passes something other than"),
               node=n)
        action = kws.get("action")
        act = action.value if isinstance(action, ast.Constant) else (None if action is None else "?")
        if "default" in kws:
            dv = kws["default"]
            eff = dv.value if isinstance(dv, ast.Constant) else "?"
        else:
            eff = ARGPARSE_DEFAULTS.get(act, "?")
        ctx.ob("parser.default-is-absent-sentinel", gp, n.ast, eff is None,
               "an option the user did not give parses to None, which cmdline_args_override treats as 'not supplied'" if eff is None else
               "action=%r parses to %r when the option is absent, but cmdline_args_override treats every non-None value as supplied: "
               "parse_args([]) followed by the override sets the field to %r" % (act, eff, eff), node=n)
        # which storage-type branch
        st = None
        for t, tr in dominating_guards(an, gp, n):
            if tr and "storage_type" in ast.unparse(t.ast):
                st = ast.unparse(t.ast)
        by_type.setdefault(st, []).append((n, act))
    scalar = [v for k, v in by_type.items() if k and "str" in k and "int" in k and "float" in k]
    boolean = [v for k, v in by_type.items() if k and "bool" in k]
    oks = len(scalar) == 1 and len(scalar[0]) == 1 and scalar[0][0][1] in ("store", None)
    ctx.ob("parser.one-option-per-scalar", gp, "storage_type in (str, float, int)", oks, "exactly one storing option for str/int/float fields" if oks else
           "scalar fields do not get exactly one storing option")
    okb = len(boolean) == 1 and sorted(a for _, a in boolean[0]) == ["store_false", "store_true"]
    ctx.ob("parser.on-off-for-bool", gp, "storage_type is bool", okb, "booleans get an on switch and an off switch" if okb else
           "boolean fields do not get exactly one on and one off switch")
    if boolean and len(boolean[0]) == 2:
        names = [n.ast.args[0] if n.ast.args else None for n, _ in boolean[0]]
        dif = len({ast.unparse(x) for x in names if x is not None}) == 2
        ctx.ob("parser.on-off-distinct", gp, "on/off option strings", dif, "the two switches have different option strings" if dif else "on and off switch share one option string")
    # only Fields, and the option string derives from the path
    for n in adds:
        a0 = n.ast.args[0] if n.ast.args else None
        okn = a0 is not None and any(k == "expr" and "name" in ast.unparse(pl) for k, pl in value_sources(gp, a0, n))
        ctx.ob("parser.option-from-path", gp, n.ast, okn, "the option string is derived from the path" if okn else "the option string is not derived from the path", node=n, nontrivial=False)

    # ---------------------------------------------------------------- C16.4 override
    ov = model.function("support", "cmdline_args_override")
    g = an.cfg(ov)
    setitem = model.method("Config", "__setitem__")
    writes = [n for n in g.nodes if n.kind in ("call", "assign") and an.callees(ov, n)]
    wn = [n for n in g.nodes if setitem in an.callees(ov, n)]
    ctx.need(bool(wn), "cmdline_args_override no longer writes through Config.__setitem__")
    from .common import STATE
    state = an.summary(STATE)
    for n in g.nodes:
        evs = [e for e in state.node_events(ov, n) if e[0] in ("W_DATA", "MARK", "UNMARK") and e[1] is not None]
        if evs and n not in wn:
            ctx.ob("override.only-via-setitem", ov, n.ast if n.ast is not None else n.stmt, False,
                   "cmdline_args_override changes configuration state without going through Config.__setitem__ (no validation)", node=n)
    for n in wn:
        dg = dominating_guards(an, ov, n)
        not_none = any(tr and isinstance(t.ast, ast.Compare) and isinstance(t.ast.ops[0], ast.IsNot) and isinstance(t.ast.comparators[0], ast.Constant)
                       and t.ast.comparators[0].value is None for t, tr in dg) or \
            any((not tr) and isinstance(t.ast, ast.Compare) and isinstance(t.ast.ops[0], ast.Is) and isinstance(t.ast.comparators[0], ast.Constant)
                and t.ast.comparators[0].value is None for t, tr in dg)
        truthy = any(tr and isinstance(t.ast, ast.Name) and any(k == "iter" for k, _ in value_sources(ov, t.ast, t)) for t, tr in dg)
        ignored = any(tr and isinstance(t.ast, ast.Compare) and isinstance(t.ast.ops[0], ast.NotIn) for t, tr in dg) or \
            any((not tr) and isinstance(t.ast, ast.Compare) and isinstance(t.ast.ops[0], ast.In) for t, tr in dg)
        ctx.ob("override.supplied-guard", ov, n.ast, not_none and not truthy,
               "an entry is applied iff its value is not None" if not_none and not truthy else
               ("the guard is truthiness: a supplied 0 / '' / False (e.g. --no-x) is dropped" if truthy else "entries are applied without an `is not None` test"), node=n)
        ctx.ob("override.ignore-guard", ov, n.ast, ignored, "ignored keys are never applied" if ignored else "the ignore list is not consulted", node=n)
        # key and value come from vars(args).items()
        a = n.ast.args if n.kind == "call" else []
        okv = len(a) == 2 and all(any(k == "iter" for k, _ in value_sources(ov, x, n)) for x in a)
        ctx.ob("override.key-value-from-args", ov, n.ast, okv, "writes the parsed (dest, value) pair unchanged" if okv else
               "the pair written is not the parsed (dest, value) pair", node=n)
    # ignore normalisation: a single string is one key
    norm = any(isinstance(x, ast.Assign) and isinstance(x.value, ast.List) and len(x.value.elts) == 1 for x in ast.walk(ov.node))
    ctx.ob("override.ignore-string", ov, "ignore = [ignore]", norm, "a single string is treated as one key" if norm else
           "a string ignore argument is treated as a sequence of characters", nontrivial=False)
    irp = model.function("support", "item_ref_path")
    okp = all(isinstance(r.ast.value, ast.Attribute) and r.ast.value.attr == "_ref_path" for r in returns_of(an, irp)) and bool(returns_of(an, irp))
    ctx.ob("ref-path.delegates", irp, "item_ref_path -> ._ref_path", okp, "reference paths come from the one _ref_path implementation" if okp else
           "item_ref_path no longer returns the item's _ref_path")
