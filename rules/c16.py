"""C16 -- all ways of naming a field agree; command-line overrides touch only what's given."""
from __future__ import annotations

import ast

from engine.defuse import value_sources
from engine.flow import expand_aliases, dominating_guards, reachable_from_entry, returns_of

META = {
    "explanation": (
        "Decided: every path constructor and path walker of the package (get_all_fields, the dotted-path walkers "
        "of Schema and Config, both _ref_path properties, ValidationError.ref_path, is_value_defined, "
        "reset_value) uses the same separator, splits off the first component for lookups and the last for "
        "defined/reset, and recurses on the remainder; get_all_fields prefixes nested paths with the nested "
        "schema's key; generate_argparse_parser passes dest=<enumerated path> on every add_argument, emits one "
        "option for str/int/float storage and an on/off pair for bool, and -- because cmdline_args_override "
        "treats `is not None` as 'supplied' -- every generated option's effective default (explicit default= or "
        "argparse's documented default for the action) is None; cmdline_args_override writes only through "
        "Config.__setitem__ under `key not in ignore and value is not None`."),
    "decided": ["C16.1 separator agreement across path constructors/walkers", "C16.2 dest = enumerated path; option count per storage type",
                "C16.3 default protocol between generated parser and override (AGREE)", "C16.4 override writes only via __setitem__ under the supplied/ignore guard"],
    "not_decided": ["equality of enumerated and reference paths for all schemas (value-level)"],
}

ARGPARSE_DEFAULTS = {"store": None, "store_const": None, "append": None, "append_const": None, "count": None,
                     "store_true": False, "store_false": True, None: None}


LOOKUPS = ("__getitem__", "__setitem__", "__contains__", "_get_field", "__iter__")


def TOLERATED_REFLECTION(model, call):
    """getattr(obj, <computed name>) inside the dotted-path lookups is reported by lookup.field-table-only below, not as
    an unmodelled construct"""
    fn = model.enclosing_function(call)
    return fn is not None and fn.cls is not None and fn.cls.name in ("Schema", "Config") and fn.name in LOOKUPS


def check_lookup_namespace(ctx):
    """Field keys and Python attribute names are two namespaces: the path lookups consult the field table, never the
    attribute protocol with a computed name (a field called like a method or an internal attribute would resolve to that)."""
    an, model = ctx.an, ctx.model
    n = 0
    for cname in ("Schema", "Config"):
        for mname in LOOKUPS:
            f = model.cls(cname).methods.get(mname)
            if f is None:
                continue
            n += 1
            bad = [x for x in ast.walk(f.node) if isinstance(x, ast.Call) and isinstance(x.func, ast.Name) and x.func.id in ("getattr", "hasattr", "setattr")
                   and len(x.args) >= 2 and not isinstance(x.args[1], ast.Constant)]
            ctx.ob("lookup.field-table-only", f, bad[0] if bad else "%s.%s" % (cname, mname), not bad,
                   "resolves keys through the field table" if not bad else
                   "%s resolves a key with %s(obj, <key>): a field named like an attribute or method of %s resolves to that attribute, "
                   "not to the field enumeration reports" % (f.qualname, bad[0].func.id, cname))
    ctx.need(n >= 4, "path lookup methods of Schema/Config not found")


def check_setkey_protocol(ctx):
    """A field's reference path is built from the _key / _schema that BaseField.__setkey__ records: every override hands the
    call on (or records both itself) on every normal path."""
    an, model = ctx.an, ctx.model
    from engine.flow import path_avoiding
    Base = model.cls("BaseField")
    base_impl = Base.methods.get("__setkey__")
    ctx.need(base_impl is not None, "BaseField.__setkey__ vanished")
    n = 0
    for c in Base.subclasses(strict=True):
        f = c.methods.get("__setkey__")
        if f is None:
            continue
        n += 1
        g = an.cfg(f)
        impls = {c2.methods.get("__setkey__") for c2 in Base.subclasses()} - {None}
        hands_on = {m for m in g.nodes if m.kind == "call" and any(t in impls and t is not f for t in an.callees(f, m))}

        def records(attr):
            return {m for m in g.nodes if m.kind == "assign" and isinstance(m.ast, ast.Assign) and any(
                isinstance(t, ast.Attribute) and t.attr == attr and isinstance(t.value, ast.Name) and t.value.id == f.self_name for t in m.ast.targets)}
        ok = True
        for needed in ("_key", "_schema"):
            through = hands_on | records(needed)
            p = path_avoiding(an, f, g.entry, lambda x: x is g.exit, lambda x: x in through)
            if p is not None:
                ok = False
        ctx.ob("ref-path.setkey-recorded", f, "%s.__setkey__" % c.name, ok,
               "every normal path records the key and the owning schema (directly or through super().__setkey__)" if ok else
               "%s can return without the key / owning schema being recorded: the field's reference path, enumeration entry and error "
               "messages no longer name it" % f.qualname)
    ctx.need(n >= 2, "fewer than 2 __setkey__ overrides found")
    # the base implementation records exactly what it is given: the key under which the field sits in the table is the key
    # every path (enumeration, reference path, lookup) is built from
    gb = an.cfg(base_impl)
    for attr, pi in (("_key", 2), ("_schema", 1)):
        pname = base_impl.positional_params[pi] if len(base_impl.positional_params) > pi else None
        sets = [m for m in gb.nodes if m.kind == "assign" and isinstance(m.ast, ast.Assign) and any(
            isinstance(t, ast.Attribute) and t.attr == attr and isinstance(t.value, ast.Name) and t.value.id == base_impl.self_name for t in m.ast.targets)]
        ok = bool(sets)
        for m in sets:
            srcs = value_sources(base_impl, m.ast.value, m)
            if not (srcs and all(k == "param" and p_ == pname for k, p_ in srcs)):
                ok = False
        ctx.ob("ref-path.setkey-verbatim", base_impl, "self.%s = %s" % (attr, pname), ok,
               "the field records the %s it is registered with" % ("key" if attr == "_key" else "schema") if ok else
               "BaseField.__setkey__ does not store the %s it is given as it is (%s): the table key and the field's own key can differ, so "
               "enumeration, reference paths and lookups disagree" % ("key" if attr == "_key" else "schema",
                                                                     "; ".join(ast.unparse(m.ast) for m in sets) or "no assignment"))


def check(ctx):
    check_lookup_namespace(ctx)
    check_setkey_protocol(ctx)
    # shared clause: the name a field is mounted under is the key it reports (every way of naming the field starts from it)
    from .c01 import check_key_lemma
    sub = type(ctx)(ctx.pid, ctx.an, ctx.tier)
    check_key_lemma(sub)
    ctx.obligations.extend(sub.obligations)
    an, model = ctx.an, ctx.model
    # ---------------------------------------------------------------- C16.1 separators
    fns = [model.function("support", "get_all_fields"), model.method("Schema", "__getitem__"), model.method("Schema", "__setitem__"),
           model.method("Config", "__getitem__"), model.method("Config", "__setitem__"), model.method("Config", "__contains__"),
           model.method("BaseField", "_ref_path"), model.method("Config", "_ref_path"), model.method("ValidationError", "ref_path"),
           model.function("support", "is_value_defined"), model.function("support", "reset_value")]
    seps = {}
    from engine.known_names import KNOWN_NAMES

    def with_helpers(f):
        """the function and the helpers it was split into (functions that are not part of the package's known surface)"""
        return [f] + [h for h in an.reachable_fns([f]) if h is not f and h.name not in KNOWN_NAMES and h.node is not None]
    for f in fns:
        found = []
        own_nodes = {id(y) for y in ast.walk(f.node)}
        for x in (y for h in with_helpers(f) for y in ast.walk(h.node)):
            if id(x) not in own_nodes and not (isinstance(x, ast.Call) and isinstance(x.func, ast.Attribute)
                                               and x.func.attr in ("partition", "rpartition", "split", "rsplit", "join")) \
                    and not (isinstance(x, ast.BinOp) and isinstance(x.op, ast.Add)):
                continue        # in helpers only the structural path operations count, not the text of messages
            if isinstance(x, ast.Call) and isinstance(x.func, ast.Attribute) and x.func.attr in ("partition", "rpartition", "split", "rsplit") \
                    and x.args and isinstance(x.args[0], ast.Constant):
                found.append((x.func.attr, x.args[0].value))
            if isinstance(x, ast.Call) and isinstance(x.func, ast.Attribute) and x.func.attr == "join" and isinstance(x.func.value, ast.Constant):
                found.append(("join", x.func.value.value))
            if isinstance(x, ast.BinOp) and isinstance(x.op, ast.Add):
                for side in (x.left, x.right):
                    if isinstance(side, ast.Constant) and isinstance(side.value, str) and len(side.value) == 1 and not side.value.isalnum() \
                            and side.value not in "[]() ":
                        found.append(("concat", side.value))
            if isinstance(x, ast.JoinedStr):
                for part in x.values:
                    if isinstance(part, ast.Constant) and isinstance(part.value, str):
                        for ch in part.value:
                            if not ch.isalnum() and ch not in "[]() _-%:":
                                found.append(("fstring", ch))
            if isinstance(x, ast.BinOp) and isinstance(x.op, ast.Mod) and isinstance(x.left, ast.Constant) and isinstance(x.left.value, str):
                import re as _re
                for piece in _re.split(r"%[sdr]", x.left.value):
                    for ch in piece:
                        if not ch.isalnum() and ch not in "[]() _-%:":
                            found.append(("format", ch))
        seps[f.qualname] = found
        ok = bool(found) and all(s == "." for _, s in found)
        ctx.ob("separator", f, "%s uses %s" % (f.qualname, sorted(set(found))), ok,
               "path components are joined / split with '.'" if ok else
               ("%s no longer builds or splits dotted paths" % f.qualname if not found else
                "%s uses separator(s) %s while the rest of the package uses '.'" % (f.qualname, sorted({s for _, s in found}))))
    # walkers split the first component, defined/reset the last
    for f in fns:
        for x in ast.walk(f.node):
            if isinstance(x, ast.Call) and isinstance(x.func, ast.Attribute) and x.func.attr in ("partition", "rpartition"):
                want = "rpartition" if f.name in ("is_value_defined", "reset_value") else "partition"
                ctx.ob("separator.direction", f, x, x.func.attr == want,
                       "%s splits off the %s component" % (f.qualname, "last" if want == "rpartition" else "first") if x.func.attr == want else
                       "%s splits with %s: nested paths resolve to the wrong field" % (f.qualname, x.func.attr), node=x)
    # walkers recurse on the remainder with the same operation
    for cname, names in (("Schema", ("__getitem__", "__setitem__")), ("Config", ("__getitem__", "__setitem__", "__contains__"))):
        for nm in names:
            f = model.method(cname, nm)
            # the recursive step: the same operation (method call, or the operator it implements) applied with the *remainder*
            # of the path, i.e. the third component of path.partition('.') -- under whatever local name
            pparam = f.positional_params[1]

            def is_remainder(e):
                if not isinstance(e, ast.Name):
                    return False
                srcs = value_sources(f, e, None)
                def from_path(pl):
                    call = pl[0]
                    return pl[1] == 2 and isinstance(call, ast.Call) and isinstance(call.func, ast.Attribute) and call.func.attr == "partition" \
                        and isinstance(call.func.value, ast.Name) and all(k2 == "param" and p2 == pparam for k2, p2 in value_sources(f, call.func.value, None) or [("?", 0)])
                return bool(srcs) and all(k == "unpack" and from_path(pl) for k, pl in srcs)
            rec = []
            for x in ast.walk(f.node):
                if isinstance(x, ast.Call) and isinstance(x.func, ast.Attribute) and x.func.attr == nm and x.args:
                    rec.append(x.args[0])
                elif nm in ("__getitem__", "__setitem__") and isinstance(x, ast.Subscript) and isinstance(x.slice, ast.Name) and is_remainder(x.slice) \
                        and isinstance(x.ctx, ast.Load if nm == "__getitem__" else ast.Store):
                    rec.append(x.slice)
                elif nm == "__contains__" and isinstance(x, ast.Compare) and len(x.ops) == 1 and isinstance(x.ops[0], ast.In) and is_remainder(x.left):
                    # `subkey in nested` is the same operation on the nested object; `subkey in nested._data` is a flat lookup in
                    # its value table (a remainder that still has dots is never a key there)
                    cont = x.comparators[0]
                    if isinstance(cont, ast.Attribute) and cont.attr in ("_data", "_fields", "__dict__"):
                        rec.append(ast.Constant(value="<flat lookup in %s>" % ast.unparse(cont)))
                    else:
                        rec.append(x.left)
            okr = bool(rec) and all(is_remainder(a) for a in rec)
            ctx.ob("walker.recurses-on-remainder", f, "%s.%s(subkey, ...)" % (cname, nm), okr,
                   "the remainder of the path is resolved by the same operation on the nested object" if okr else
                   "%s.%s does not recurse with the remainder of the path" % (cname, nm))
    gaf = model.function("support", "get_all_fields")
    # the enumerated path is <prefix> + key, where the prefix is built from the schema's own key and '.'; nested results are
    # prefixed as well -- either on the way back (`prefix + subkey`) or by handing the prefix down to the recursive call
    enum_fns = with_helpers(gaf)
    pref, handed, keyed = [], [], False
    for h in enum_fns:
        def is_prefix(e, h=h):
            if not isinstance(e, ast.Name):
                return False
            for k, pl in value_sources(h, e, None):
                if k == "expr" and isinstance(pl, ast.AST) and any(isinstance(y, ast.Attribute) and y.attr == "_key" for y in ast.walk(pl)) \
                        and any(isinstance(y, ast.Constant) and y.value == "." for y in ast.walk(pl)):
                    return True
            return False
        keyed = keyed or any(isinstance(x, ast.Attribute) and x.attr == "_key" for x in ast.walk(h.node))
        for x in ast.walk(h.node):
            if isinstance(x, ast.BinOp) and isinstance(x.op, ast.Add) and is_prefix(x.left):
                pref.append(x)
            if isinstance(x, ast.JoinedStr) and len(x.values) >= 2 and isinstance(x.values[0], ast.FormattedValue) and is_prefix(x.values[0].value) \
                    and isinstance(x.values[1], ast.FormattedValue):
                pref.append(x)          # f"{prefix}{key}"
            if isinstance(x, ast.BinOp) and isinstance(x.op, ast.Mod) and isinstance(x.left, ast.Constant) and x.left.value == "%s%s" \
                    and isinstance(x.right, ast.Tuple) and x.right.elts and is_prefix(x.right.elts[0]):
                pref.append(x)          # "%s%s" % (prefix, key)
            if isinstance(x, ast.Call) and isinstance(x.func, ast.Name) and x.func.id == h.name and any(is_prefix(a_) for a_ in x.args):
                handed.append(x)
    okp = keyed and (len(pref) >= 2 or (len(pref) >= 1 and bool(handed)))
    ctx.ob("enumeration.prefix", gaf, "prefix + key / prefix + subkey", okp,
           "nested paths are prefixed with the nested schema's key" if okp else "get_all_fields does not prefix nested paths with the schema key")

    # ---------------------------------------------------------------- C16.2 / C16.3 parser
    gp = model.function("support", "generate_argparse_parser")
    g = an.cfg(gp)
    adds = [n for n in g.nodes if n.kind == "call" and isinstance(n.ast.func, ast.Attribute) and n.ast.func.attr == "add_argument"]
    ctx.need(len(adds) >= 2, "generate_argparse_parser no longer adds arguments")
    by_type = {}
    for n in adds:
        kws = {k.arg: k.value for k in n.ast.keywords}
        dest = kws.get("dest")
        okd = False
        if dest is not None:
            srcs = value_sources(gp, dest, n)
            okd = bool(srcs) and all(k == "iter" and pl[1] == 0 and isinstance(pl[0], ast.Call) and ast.unparse(pl[0].func) == "get_all_fields" for k, pl in srcs)
        ctx.ob("parser.dest-is-path", gp, n.ast, okd, "dest is the path reported by get_all_fields" if okd else
               "add_argument %s the enumerated path as dest: the parsed value cannot be routed back to its field" % ("does not pass" if dest is None else "passes something other than"),
               node=n)
        action = kws.get("action")
        act = action.value if isinstance(action, ast.Constant) else (None if action is None else "?")
        if "default" in kws:
            dv = kws["default"]
            eff = dv.value if isinstance(dv, ast.Constant) else "?"
        else:
            eff = ARGPARSE_DEFAULTS.get(act, "?")
        ctx.ob("parser.default-is-absent-sentinel", gp, n.ast, eff is None,
               "an option the user did not give parses to None, which cmdline_args_override treats as 'not supplied'" if eff is None else
               "action=%r parses to %r when the option is absent, but cmdline_args_override treats every non-None value as supplied: "
               "parse_args([]) followed by the override sets the field to %r" % (act, eff, eff), node=n)
        # which storage-type branch
        st = None
        for t, tr in dominating_guards(an, gp, n):
            if tr and "storage_type" in ast.unparse(t.ast):
                st = ast.unparse(t.ast)
        by_type.setdefault(st, []).append((n, act))
    # the parser generator specialised per storage type: which add_argument calls remain
    from engine.specialize import Spec
    gpg = an.cfg(gp)

    def st_decider(stype):
        def names_of(e, node):
            e = expand_aliases(gp, e, node)
            if isinstance(e, ast.Name):
                srcs = value_sources(gp, e, node)
                if len(srcs) == 1 and srcs[0][0] == "expr" and isinstance(srcs[0][1], (ast.Tuple, ast.List, ast.Set)):
                    e = srcs[0][1]
            if isinstance(e, (ast.Name, ast.Attribute)):
                # a module-level table: _VALUE_STORAGE_TYPES = (str, float, int)
                try:
                    cv = model.const_eval(gp.module, e)
                except (ValueError, KeyError):
                    cv = None
                if isinstance(cv, (tuple, list)) and cv and all(hasattr(x, "kind") and hasattr(x, "name") for x in cv):
                    return [str(x.name).split(".")[-1] for x in cv]
            els = e.elts if isinstance(e, (ast.Tuple, ast.List, ast.Set)) else [e]
            return [x.id if isinstance(x, ast.Name) else None for x in els]

        def is_st(e, node):
            e2 = expand_aliases(gp, e, node)
            return isinstance(e2, ast.Attribute) and e2.attr == "storage_type"

        def decide(e, node):
            if isinstance(e, ast.Compare) and len(e.ops) == 1 and is_st(e.left, node):
                ns = names_of(e.comparators[0], node)
                if None in ns:
                    return None
                hit = stype in ns
                if isinstance(e.ops[0], (ast.In, ast.Is, ast.Eq)):
                    return hit
                if isinstance(e.ops[0], (ast.NotIn, ast.IsNot, ast.NotEq)):
                    return not hit
            if isinstance(e, ast.Call) and isinstance(e.func, ast.Name) and e.func.id == "isinstance" and len(e.args) == 2:
                spec = an.ft(gp).class_spec(e.args[1], {}) or []
                if spec == ["Field"]:
                    return True
            return None
        return decide
    per_type = {}
    for stype in ("str", "int", "float", "bool", "bytes"):
        sp = Spec(an, gp, st_decider(stype))
        per_type[stype] = [(n, act) for n, act in ((n, next((a for m, a in [(x, y) for v in by_type.values() for x, y in v] if m is n), None)) for n in adds)
                           if n in sp.normal]
    scalar_ok = all(len(per_type[t]) == 1 and per_type[t][0][1] in ("store", None) for t in ("str", "int", "float"))
    ctx.ob("parser.one-option-per-scalar", gp, "storage_type in (str, float, int)", scalar_ok, "exactly one storing option for str/int/float fields" if scalar_ok else
           "scalar fields do not get exactly one storing option (%s)" % {t: [a for _, a in per_type[t]] for t in ("str", "int", "float")})
    okb = sorted(str(a) for _, a in per_type["bool"]) == ["store_false", "store_true"]
    ctx.ob("parser.on-off-for-bool", gp, "storage_type is bool", okb, "booleans get an on switch and an off switch" if okb else
           "boolean fields do not get exactly one on and one off switch (%s)" % [a for _, a in per_type["bool"]])
    oko = not per_type["bytes"]
    ctx.ob("parser.no-option-for-others", gp, "any other storage type", oko, "fields of other kinds get no option" if oko else
           "a field that is neither scalar nor boolean gets a command-line option")
    if len(per_type["bool"]) == 2:
        names = [n.ast.args[0] if n.ast.args else None for n, _ in per_type["bool"]]
        dif = len({ast.unparse(x) for x in names if x is not None}) == 2
        ctx.ob("parser.on-off-distinct", gp, "on/off option strings", dif, "the two switches have different option strings" if dif else "on and off switch share one option string")
    # only Fields, and the option string derives from the path
    for n in adds:
        a0 = n.ast.args[0] if n.ast.args else None
        def from_path(e, at, depth=0):
            """does the expression mention (through locals) the path of the field enumerated by this iteration?"""
            if depth > 5:
                return False
            for x in ast.walk(e):
                if isinstance(x, ast.Name) and isinstance(x.ctx, ast.Load):
                    for k, pl in value_sources(gp, x, at):
                        if k == "iter":
                            return True
                        if k == "expr" and isinstance(pl, ast.AST) and pl is not x and from_path(pl, None, depth + 1):
                            return True
            return False
        okn = a0 is not None and from_path(a0, n)
        ctx.ob("parser.option-from-path", gp, n.ast, okn, "the option string is derived from the path" if okn else "the option string is not derived from the path", node=n, nontrivial=False)

    # ---------------------------------------------------------------- C16.4 override
    ov = model.function("support", "cmdline_args_override")
    g = an.cfg(ov)
    setitem = model.method("Config", "__setitem__")
    writes = [n for n in g.nodes if n.kind in ("call", "assign") and an.callees(ov, n)]
    wn = [n for n in g.nodes if setitem in an.callees(ov, n)]
    ctx.need(bool(wn), "cmdline_args_override no longer writes through Config.__setitem__")
    from .common import STATE
    state = an.summary(STATE)
    for n in g.nodes:
        evs = [e for e in state.node_events(ov, n) if e[0] in ("W_DATA", "MARK", "UNMARK") and e[1] is not None]
        if evs and n not in wn:
            ctx.ob("override.only-via-setitem", ov, n.ast if n.ast is not None else n.stmt, False,
                   "cmdline_args_override changes configuration state without going through Config.__setitem__ (no validation)", node=n)
    for n in wn:
        dg = dominating_guards(an, ov, n)
        not_none = any(tr and isinstance(t.ast, ast.Compare) and isinstance(t.ast.ops[0], ast.IsNot) and isinstance(t.ast.comparators[0], ast.Constant)
                       and t.ast.comparators[0].value is None for t, tr in dg) or \
            any((not tr) and isinstance(t.ast, ast.Compare) and isinstance(t.ast.ops[0], ast.Is) and isinstance(t.ast.comparators[0], ast.Constant)
                and t.ast.comparators[0].value is None for t, tr in dg)
        truthy = any(tr and isinstance(t.ast, ast.Name) and any(k == "iter" for k, _ in value_sources(ov, t.ast, t)) for t, tr in dg)
        ignored = any(tr and isinstance(t.ast, ast.Compare) and isinstance(t.ast.ops[0], ast.NotIn) for t, tr in dg) or \
            any((not tr) and isinstance(t.ast, ast.Compare) and isinstance(t.ast.ops[0], ast.In) for t, tr in dg)
        ctx.ob("override.supplied-guard", ov, n.ast, not_none and not truthy,
               "an entry is applied iff its value is not None" if not_none and not truthy else
               ("the guard is truthiness: a supplied 0 / '' / False (e.g. --no-x) is dropped" if truthy else "entries are applied without an `is not None` test"), node=n)
        ctx.ob("override.ignore-guard", ov, n.ast, ignored, "ignored keys are never applied" if ignored else "the ignore list is not consulted", node=n)
        # key and value come from vars(args).items()
        a = n.ast.args if n.kind == "call" else []
        if isinstance(n.ast, ast.Assign) and len(n.ast.targets) == 1 and isinstance(n.ast.targets[0], ast.Subscript):
            a = [n.ast.targets[0].slice, n.ast.value]          # config[key] = value
        okv = len(a) == 2 and all(any(k == "iter" for k, _ in value_sources(ov, x, n)) for x in a)
        ctx.ob("override.key-value-from-args", ov, n.ast, okv, "writes the parsed (dest, value) pair unchanged" if okv else
               "the pair written is not the parsed (dest, value) pair", node=n)
    # ignore normalisation: a single string is one key
    # decided by specialising on "ignore is a str": the collection the membership test consults is then [ignore]
    from engine.specialize import Spec
    iparam = ov.positional_params[2] if len(ov.positional_params) > 2 else None

    def is_ignore(e, node):
        if not isinstance(e, ast.Name):
            return False
        srcs = value_sources(ov, e, node)
        return bool(srcs) and all(k == "param" and p == iparam for k, p in srcs)

    def dec_str(e, node):
        if isinstance(e, ast.Call) and isinstance(e.func, ast.Name) and e.func.id == "isinstance" and len(e.args) == 2 and is_ignore(e.args[0], node):
            names = [x.id for x in ([e.args[1]] if isinstance(e.args[1], ast.Name) else getattr(e.args[1], "elts", [])) if isinstance(x, ast.Name)]
            return "str" in names
        return None
    sps = Spec(an, ov, dec_str)
    norm = False
    members = [t for t in g.nodes if t.kind == "test" and t in sps.nodes and isinstance(t.ast, ast.Compare) and len(t.ast.ops) == 1
               and isinstance(t.ast.ops[0], (ast.In, ast.NotIn))]
    for t in members:
        srcs = sps.sources(t.ast.comparators[0], t)
        if srcs and all(k == "expr" and isinstance(pl, (ast.List, ast.Tuple, ast.Set)) and len(pl.elts) == 1 and is_ignore(pl.elts[0], sps.where.get(id(pl)))
                        for k, pl in srcs):
            norm = True
    ctx.ob("override.ignore-string", ov, "ignore = [ignore]", norm, "a single string is treated as one key" if norm else
           "a string ignore argument is treated as a sequence of characters", nontrivial=False)
    irp = model.function("support", "item_ref_path")
    okp = all(isinstance(r.ast.value, ast.Attribute) and r.ast.value.attr == "_ref_path" for r in returns_of(an, irp)) and bool(returns_of(an, irp))
    ctx.ob("ref-path.delegates", irp, "item_ref_path -> ._ref_path", okp, "reference paths come from the one _ref_path implementation" if okp else
           "item_ref_path no longer returns the item's _ref_path")
