"""C14.5: the variable name a field / nested schema derives, decided as a table.

`__setkey__` of Field and of Schema is specialised for every combination of the owner's own setting (False, True, None,
an explicit string) and the parent schema's prefix (None, False, "", a non-empty string).  On the feasible paths the
value assigned to the setting is evaluated to a *template* -- a sequence of P (the parent prefix as given), K (the key
upper-cased), k (the key as given) and literals -- whatever way the string is put together (+, %, f-string, join,
format).  The rule is the comparison of that table with the documented one.
"""
from __future__ import annotations

import ast
import re

from engine.defuse import value_sources
from engine.specialize import Spec

OWN = ("false", "true", "none", "str")
PARENT = ("none", "false", "empty", "str")


def _decider(fn, attr, sparam, own, parent):
    def is_own(e, node):
        if isinstance(e, ast.Attribute) and e.attr == attr and isinstance(e.value, ast.Name) and e.value.id == fn.self_name:
            return True
        if isinstance(e, ast.Name):
            srcs = value_sources(fn, e, node)
            return bool(srcs) and all(k == "expr" and isinstance(p, ast.Attribute) and is_own(p, None) for k, p in srcs)
        return False

    def is_parent(e, node):
        if isinstance(e, ast.Attribute) and e.attr == "_env_prefix" and isinstance(e.value, ast.Name) and e.value.id == sparam:
            return True
        if isinstance(e, ast.Name):
            srcs = value_sources(fn, e, node)
            return bool(srcs) and all(k == "expr" and isinstance(p, ast.Attribute) and is_parent(p, None) for k, p in srcs)
        return False

    def const_cmp(state_true, op):
        if isinstance(op, (ast.Is, ast.Eq)):
            return state_true
        if isinstance(op, (ast.IsNot, ast.NotEq)):
            return not state_true
        return None

    def decide(e, node):
        if isinstance(e, ast.Compare) and len(e.ops) == 1 and isinstance(e.comparators[0], ast.Constant):
            c = e.comparators[0].value
            for who, state, table in ((is_own, own, {False: "false", True: "true", None: "none"}),
                                      (is_parent, parent, {False: "false", None: "none", "": "empty"})):
                if who(e.left, node) and (c is None or isinstance(c, (bool, str))) and (c in table or isinstance(c, str)):
                    if c in table and not (isinstance(c, str) and c != ""):
                        return const_cmp(state == table[c], e.ops[0])
        if isinstance(e, ast.Call) and isinstance(e.func, ast.Name) and e.func.id == "isinstance" and len(e.args) == 2:
            names = [x.id for x in ([e.args[1]] if isinstance(e.args[1], ast.Name) else getattr(e.args[1], "elts", [])) if isinstance(x, ast.Name)]
            if is_own(e.args[0], node) and names:
                return ("str" in names and own == "str") or ("bool" in names and own in ("true", "false"))
            if is_parent(e.args[0], node) and names:
                return ("str" in names and parent in ("empty", "str")) or ("bool" in names and parent == "false")
        if is_own(e, node):
            return own in ("true", "str")
        if is_parent(e, node):
            return parent == "str"
        return None
    return decide, is_own, is_parent


def _merge(parts):
    out = []
    for p in parts:
        if p[0] == "lit":
            if p[1] == "":
                continue
            if out and out[-1][0] == "lit":
                out[-1] = ("lit", out[-1][1] + p[1])
                continue
        out.append(p)
    return out


def template(sp, fn, e, node, is_parent, depth=0, is_own=None):
    """symbolic value of a string expression"""
    if depth > 8:
        return [("?", "depth")]
    rec = lambda x, at=None: template(sp, fn, x, at if at is not None else node, is_parent, depth + 1, is_own)
    if is_own is not None and is_own(e, node):
        return [("own",)]       # the setting as it is (storing it back changes nothing)
    if isinstance(e, ast.Constant):
        return [("lit", e.value)] if isinstance(e.value, str) else [("?", repr(e.value))]
    if is_parent(e, node):
        return [("P",)]
    if isinstance(e, ast.Attribute) and e.attr == "_key" and isinstance(e.value, ast.Name) and e.value.id == fn.self_name:
        return [("k",)]
    if isinstance(e, ast.Name):
        srcs = sp.sources(e, node)
        if len(srcs) == 1 and srcs[0][0] == "param" and srcs[0][1] in ("key",):
            return [("k",)]
        outs = []
        for k, p in srcs:
            if k != "expr" or p is e:
                return [("?", e.id)]
            outs.append(_merge(rec(p, sp.where.get(id(p)))))
        if outs and all(o == outs[0] for o in outs):
            return outs[0]
        return [("?", "%s has %d different values" % (e.id, len(outs)))]
    if isinstance(e, ast.IfExp):
        d = sp.decide(e.test, node)
        if d is True:
            return rec(e.body)
        if d is False:
            return rec(e.orelse)
        a, b = _merge(rec(e.body)), _merge(rec(e.orelse))
        return a if a == b else [("?", "undecided conditional")]
    if isinstance(e, ast.BinOp) and isinstance(e.op, ast.Add):
        return rec(e.left) + rec(e.right)
    if isinstance(e, ast.BinOp) and isinstance(e.op, ast.Mod) and isinstance(e.left, ast.Constant) and isinstance(e.left.value, str):
        args = list(e.right.elts) if isinstance(e.right, ast.Tuple) else [e.right]
        pieces = re.split(r"(%s)", e.left.value)
        out, i = [], 0
        for pc in pieces:
            if pc == "%s":
                if i >= len(args):
                    return [("?", "format arity")]
                out += rec(args[i])
                i += 1
            else:
                if "%" in pc:
                    return [("?", "format directive")]
                out.append(("lit", pc))
        return out
    if isinstance(e, ast.JoinedStr):
        out = []
        for v in e.values:
            if isinstance(v, ast.Constant):
                out.append(("lit", v.value))
            elif isinstance(v, ast.FormattedValue) and v.conversion == -1 and v.format_spec is None:
                out += rec(v.value)
            else:
                return [("?", "format spec")]
        return out
    if isinstance(e, ast.Call) and isinstance(e.func, ast.Attribute):
        m = e.func.attr
        if m in ("upper", "lower", "casefold", "title", "capitalize", "swapcase") and not e.args:
            inner = _merge(rec(e.func.value))
            out = []
            for p in inner:
                if p == ("k",) and m == "upper":
                    out.append(("K",))
                elif p[0] == "lit":
                    out.append(("lit", getattr(p[1], m)()))
                elif p == ("K",) and m == "upper":
                    out.append(p)
                else:
                    out.append(("?", "%s re-cased with .%s()" % ({"P": "the inherited prefix", "k": "the key", "K": "the key"}.get(p[0], p[0]), m)))
            return out
        if m == "join" and len(e.args) == 1 and isinstance(e.args[0], ast.Name):
            # a list built step by step: `parts = [prefix] if prefix else []; parts.append(key.upper()); "_".join(parts)`
            lst = e.args[0]
            srcs = sp.sources(lst, node)
            if len(srcs) == 1 and srcs[0][0] == "expr" and isinstance(srcs[0][1], (ast.List, ast.Tuple)):
                disp = srcs[0][1]
                elems = [(x, sp.where.get(id(disp))) for x in disp.elts]
                muts = []
                for mnode in sp.g.nodes:
                    if mnode in sp.normal and mnode.kind == "call" and isinstance(mnode.ast.func, ast.Attribute) \
                            and isinstance(mnode.ast.func.value, ast.Name) and mnode.ast.func.value.id == lst.id \
                            and any(k == "expr" and p_ is disp for k, p_ in sp.sources(mnode.ast.func.value, mnode)):
                        muts.append(mnode)
                muts.sort(key=lambda n_: (n_.lineno, getattr(n_.ast, "col_offset", 0)))
                okm = True
                for mnode in muts:
                    meth = mnode.ast.func.attr
                    if meth == "append" and len(mnode.ast.args) == 1:
                        elems.append((mnode.ast.args[0], mnode))
                    elif meth == "insert" and len(mnode.ast.args) == 2 and isinstance(mnode.ast.args[0], ast.Constant) and mnode.ast.args[0].value == 0:
                        elems.insert(0, (mnode.ast.args[1], mnode))
                    elif meth == "extend" and len(mnode.ast.args) == 1 and isinstance(mnode.ast.args[0], (ast.List, ast.Tuple)):
                        elems += [(x, mnode) for x in mnode.ast.args[0].elts]
                    else:
                        okm = False
                if okm:
                    sep = _merge(rec(e.func.value))
                    out = []
                    for i, (x, at_) in enumerate(elems):
                        if i:
                            out += sep
                        out += template(sp, fn, x, at_ if at_ is not None else node, is_parent, depth + 1)
                    return out
            return [("?", ast.unparse(e)[:40])]
        if m == "join" and len(e.args) == 1 and isinstance(e.args[0], (ast.Tuple, ast.List)):
            sep = _merge(rec(e.func.value))
            out = []
            for i, x in enumerate(e.args[0].elts):
                if i:
                    out += sep
                out += rec(x)
            return out
        if m == "format" and isinstance(e.func.value, ast.Constant) and isinstance(e.func.value.value, str) and not e.keywords:
            pieces = re.split(r"(\{\})", e.func.value.value)
            out, i = [], 0
            for pc in pieces:
                if pc == "{}":
                    if i >= len(e.args):
                        return [("?", "format arity")]
                    out += rec(e.args[i])
                    i += 1
                else:
                    if "{" in pc:
                        return [("?", "format field")]
                    out.append(("lit", pc))
            return out
    if isinstance(e, ast.Call) and isinstance(e.func, ast.Name) and e.func.id == "str" and len(e.args) == 1:
        return rec(e.args[0])
    return [("?", ast.unparse(e)[:40])]


def show(t):
    if t is None:
        return "left as it is"
    names = {"P": "<parent prefix>", "K": "KEY.upper()", "k": "key"}
    return " + ".join(names[p[0]] if p[0] in names else (repr(p[1]) if p[0] == "lit" else "?(%s)" % p[1]) for p in t) or "''"


def derive_table(an, fn, attr):
    """(own, parent) -> template or None (no assignment)"""
    sparam = fn.positional_params[1]
    g = an.cfg(fn)
    table = {}
    for own in OWN:
        for parent in PARENT:
            dec, is_own, is_parent = _decider(fn, attr, sparam, own, parent)
            sp = Spec(an, fn, dec)
            vals = []
            for n in g.nodes:
                if n.kind == "assign" and n in sp.normal and isinstance(n.ast, ast.Assign) and any(
                        isinstance(t, ast.Attribute) and t.attr == attr and isinstance(t.value, ast.Name) and t.value.id == fn.self_name for t in n.ast.targets):
                    if is_own(n.ast.value, n):
                        continue
                    tpl = _merge(template(sp, fn, n.ast.value, n, is_parent, 0, is_own))
                    if tpl == [("own",)]:
                        continue        # under this scenario the statement stores the setting back unchanged
                    leaf = [pl for k_, pl in sp.sources(n.ast.value, n) if k_ == "expr"] if isinstance(n.ast.value, (ast.IfExp, ast.Name, ast.BoolOp)) else [n.ast.value]
                    if leaf and all(isinstance(x, ast.Constant) and x.value is {"none": None, "false": False, "true": True}.get(own, Ellipsis) for x in leaf):
                        continue        # ... or stores the very constant the setting already is
                    vals.append((tpl, n))
            # can the function also finish without assigning?
            assigns = {n for _, n in vals}
            skip = g.path(g.entry, lambda x: x is g.exit, may_raise=lambda x: False, stop=lambda x: x in assigns, edge_filter=sp.edge_ok) is not None
            table[(own, parent)] = (vals, skip)
    return table


def expected(kind, own, parent):
    full = [("P",), ("lit", "_"), ("K",)]
    bare = [("K",)]
    if kind == "field":
        if own in ("false", "str"):
            return None
        if own == "true":
            return full if parent == "str" else bare
        if parent == "str":
            return full
        if parent == "empty":
            return bare
        return None
    # nested schema: inherits only when its own setting is None
    if own != "none":
        return None
    if parent == "str":
        return full
    if parent == "empty":
        return bare
    return None


def check_prefix_verbatim(ctx, an, model):
    """The prefix a schema is given is the prefix its variables carry: Schema.__init__ stores the `env` argument as it is
    (True stands for the empty prefix) -- a trimmed, re-cased or otherwise edited name binds the fields to variables the naming
    rule does not produce."""
    init = model.method("Schema", "__init__")
    g = an.cfg(init)
    if "env" not in init.positional_params and "env" not in [a.arg for a in init.params]:
        return
    n_stores = 0
    for n in g.nodes:
        if n.kind == "assign" and isinstance(n.ast, ast.Assign) and any(
                isinstance(t, ast.Attribute) and t.attr == "_env_prefix" and isinstance(t.value, ast.Name) and t.value.id == init.self_name for t in n.ast.targets):
            n_stores += 1
            bad = None
            for k, pl in value_sources(init, n.ast.value, n):
                if k == "param" and pl == "env":
                    continue
                if k == "expr" and isinstance(pl, ast.Constant) and pl.value in ("", None, False):
                    continue
                bad = pl if isinstance(pl, ast.AST) else None
                bad_txt = ast.unparse(pl)[:50] if isinstance(pl, ast.AST) else str(pl)
                break
            else:
                bad_txt = None
            ctx.ob("name.prefix-verbatim", init, n.ast, bad_txt is None,
                   "the prefix is the env argument itself ('' for True)" if bad_txt is None else
                   "the schema's prefix is %s, not the env argument as given: a named prefix is edited before it is used, the variables the "
                   "fields are bound to are not <prefix>_<KEY>" % bad_txt, node=n)
    ctx.need(n_stores >= 1, "Schema.__init__ no longer stores the environment prefix")


def check_names(ctx, an, model):
    check_prefix_verbatim(ctx, an, model)
    for kind, cname, attr in (("field", "Field", "env"), ("schema", "Schema", "_env_prefix")):
        fn = model.method(cname, "__setkey__")
        table = derive_table(an, fn, attr)
        n_assign = sum(len(v) for v, _ in table.values())
        ctx.need(n_assign > 0, "%s.__setkey__ no longer derives the variable %s" % (cname, "name" if kind == "field" else "prefix"))
        for (own, parent), (vals, skip) in sorted(table.items()):
            want = expected(kind, own, parent)
            what = "%s=%s, parent prefix %s" % ("env" if kind == "field" else "own prefix", {"false": "False", "true": "True", "none": "None", "str": "'NAME'"}[own],
                                                {"none": "None", "false": "False", "empty": "''", "str": "'P'"}[parent])
            if kind == "schema" and own == "true":
                continue        # Schema.__init__ turns env=True into the empty prefix: never seen by __setkey__
            if want is None:
                ok = not vals
                rule = "name.opt-out" if own == "false" else ("name.explicit-kept" if own == "str" else
                                                              ("name.nested-opt-out" if kind == "schema" else "name.no-prefix-no-name"))
                ctx.ob(rule, fn, what, ok, "the setting is left as it is" if ok else
                       ("a field that opted out (env=False) can still get a variable name: %s" % show(vals[0][0]) if own == "false" else
                        "with %s the setting is overwritten by %s" % (what, show(vals[0][0]))), node=vals[0][1] if vals else None)
                continue
            got = [v for v, _ in vals]
            ok = bool(got) and all(v == want for v in got) and not skip
            if ok:
                why = "the name is %s" % show(want)
            elif not got or skip:
                why = "with %s no name is derived%s (expected %s)" % (what, " on some path" if got else "", show(want))
            else:
                bad = [v for v in got if v != want][0]
                if any(p[0] == "?" and "re-cased" in p[1] for p in bad):
                    why = [p[1] for p in bad if p[0] == "?"][0] + ": a prefix given in lower case no longer names the variable"
                elif ("k",) in bad:
                    why = "the key part of the derived variable name is not upper-cased (%s)" % show(bad)
                elif ("lit", "_") not in bad and ("P",) in bad:
                    why = "the prefix joiner is no longer '_' (%s)" % show(bad)
                else:
                    why = "with %s the derived name is %s, not %s" % (what, show(bad), show(want))
            if kind == "schema":
                rule = "name.nested-prefix"
            elif not ok and got and any(("lit", "_") not in v and ("P",) in v for v in got):
                rule = "name.joiner"
            else:
                rule = "name.shape"
            ctx.ob(rule, fn, what, ok, why, node=vals[0][1] if vals else None)
