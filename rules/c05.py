"""C05 -- field validation is exact and idempotent; the on-disk encoding is invertible."""
from __future__ import annotations

import ast

from engine.defuse import value_sources
from engine.flow import dominating_guards, expand_aliases, reachable_from_entry, returns_of
from engine.model import AnalysisError
from . import c01, c02

META = {
    "explanation": (
        "Value-level exactness is not decidable statically; decided are the shapes exactness depends on: every "
        "optional numeric bound of a built-in field (discovered from Optional[int|float] constructor parameters "
        "that are compared in _validate) is guarded by `is not None` wherever 0 is a binding constraint "
        "(truthiness is accepted only for lower bounds on non-negative quantities), and rejects with a strict "
        "comparator, i.e. the bound itself is accepted; in StringField._validate stripping precedes every check "
        "and case folding precedes the length/pattern/choices checks; BytesField encodes and decodes each "
        "offered encoding with an inverse pair and rejects others; SecureField writes and reads the same keys; "
        "BoolField's token tables are disjoint and map to the right constants; NumberField rejects bool and "
        "returns the converted number; every validator accepts the type it returns (necessary for idempotence); "
        "typed containers decode what they encode (shared with C02); validators chain to their parent (shared "
        "with C01)."),
    "decided": ["C05.1 None-ness form of optional bound guards", "C05.2 inclusive bounds use strict rejecting comparators",
                "C05.3 normalise, then check (ORDER pairs in StringField._validate)", "C05.4 scalar codecs are inverse pairs over one table",
                "C05.5 container codecs symmetric (shared with C02.1)", "C05.6 validators return and chain (shared with C01.6)",
                "C05.7 validators accept their own result type; bool/number/bool-token structure"],
    "not_decided": ["value-level exactness for every option combination; idempotence in general; canonical address forms; "
                    "FilenameField against the file system; NaN against bounds"],
}


ZERO_LOST = []
TRANSFORMED = []


def optional_numeric_params(an, cls):
    """constructor parameters annotated Optional[int|float|Union[int,float]] stored as self.<attr>"""
    init = cls.methods.get("__init__")
    out = {}
    if init is None:
        return out
    for a in init.params:
        if a.annotation is None:
            continue
        t = an.types.ann(init.module, a.annotation)
        if t == "ANY" or "NoneType" not in t:
            continue
        rest = t - {"NoneType"}
        if rest and any(x in ("int", "float") for x in rest) and all(x in ("int", "float", "str") for x in rest):
            for x in ast.walk(init.node):
                if isinstance(x, ast.Assign) and isinstance(x.value, ast.Name) and x.value.id == a.arg:
                    for tg in x.targets:
                        if isinstance(tg, ast.Attribute) and isinstance(tg.value, ast.Name) and tg.value.id == init.self_name:
                            out[tg.attr] = a.arg
                # `self.bound = bound or <default>`: a bound of 0 is falsy and silently becomes the default
                if isinstance(x, ast.Assign) and isinstance(x.value, ast.BoolOp) and isinstance(x.value.op, ast.Or) \
                        and isinstance(x.value.values[0], ast.Name) and x.value.values[0].id == a.arg:
                    for tg in x.targets:
                        if isinstance(tg, ast.Attribute) and isinstance(tg.value, ast.Name) and tg.value.id == init.self_name:
                            out[tg.attr] = a.arg
                            ZERO_LOST.append((init, x, tg.attr, a.arg))
                # `self.bound = convert(bound)`: the bound that is enforced is not the one that was declared
                def derived(v):
                    """v is computed from the parameter (directly, or through locals of an expanded helper) without being it"""
                    if isinstance(v, ast.Name) and v.id != a.arg:
                        leaves = value_sources(init, v, None)
                        if leaves and all((k_ == "param" and p_ == a.arg) or (k_ == "expr" and isinstance(p_, ast.Constant) and p_.value is None) for k_, p_ in leaves):
                            return False        # a plain copy
                        for k_, p_ in leaves:
                            if k_ == "expr" and isinstance(p_, ast.AST) and not isinstance(p_, ast.Constant):
                                for y in ast.walk(p_):
                                    if isinstance(y, ast.Name) and (y.id == a.arg or any(k2 == "param" and p2 == a.arg for k2, p2 in value_sources(init, y, None))):
                                        return True
                        return False
                    return not isinstance(v, (ast.Name, ast.BoolOp)) and any(isinstance(y, ast.Name) and y.id == a.arg for y in ast.walk(v))
                if isinstance(x, ast.Assign) and derived(x.value):
                    for tg in x.targets:
                        if isinstance(tg, ast.Attribute) and isinstance(tg.value, ast.Name) and tg.value.id == init.self_name and tg.attr not in out:
                            out[tg.attr] = a.arg
                            if not any(e_[1] is x for e_ in TRANSFORMED):
                                TRANSFORMED.append((init, x, tg.attr, a.arg))
    return out


def nonneg_quantity(e) -> bool:
    """len(...) and .prefixlen are non-negative by construction"""
    if isinstance(e, ast.Call) and isinstance(e.func, ast.Name) and e.func.id == "len":
        return True
    if isinstance(e, ast.Attribute) and e.attr == "prefixlen":
        return True
    return False


def expanded(fn, t):
    """the test expression with local aliases of attribute chains (lower = self.min) written out"""
    return expand_aliases(fn, t.ast, t)


def check_bounds(ctx):
    an, model = ctx.an, ctx.model
    Field = model.cls("Field")
    ninst = 0
    for c in Field.subclasses(strict=True):
        bounds = optional_numeric_params(an, c)
        if not bounds:
            continue
        v = c.methods.get("_validate")
        if v is None:
            # declared here, compared in a parent's _validate: not the case today
            raise AnalysisError("optional numeric bounds %s of %s are not checked in its own _validate" % (sorted(bounds), c.name))
        g = an.cfg(v)
        reach = reachable_from_entry(an, v)
        # every ordering comparison of the function, wherever it is written: as the test itself or inside the definition of
        # a flag that is tested later (`too_small = lower is not None and num < lower` ... `if too_small:`)
        from engine.flow import guard_atoms
        sites = []          # (Compare, the CFG node it is evaluated at)
        for n_ in g.nodes:
            if n_ not in reach or n_.ast is None:
                continue
            if n_.kind == "test" and isinstance(n_.ast, ast.Compare):
                sites.append((n_.ast, n_))
            elif n_.kind == "assign" and isinstance(n_.ast, (ast.Assign, ast.AnnAssign)) and n_.ast.value is not None:
                sites += [(x, n_) for x in ast.walk(n_.ast.value) if isinstance(x, ast.Compare)]
        # what is known to hold where the function rejects: the outcome of each comparison on the way to a raise
        rejecting = {}
        presence = {}
        for r_ in [n_ for n_ in g.nodes if n_.kind == "raise" and n_ in reach]:
            atoms_ = guard_atoms(an, v, r_)
            for e_, truth_, t_ in atoms_:
                if isinstance(e_, ast.Compare):
                    rejecting.setdefault(id(e_), (truth_, atoms_, t_))
        for attr in sorted(bounds):
            cmps = []
            for cmp_, at_ in sites:
                if len(cmp_.ops) != 1:
                    continue
                tx = expand_aliases(v, cmp_, at_)
                sides = [tx.left, tx.comparators[0]]
                idx = [i for i, s in enumerate(sides) if isinstance(s, ast.Attribute) and s.attr == attr
                       and isinstance(s.value, ast.Name) and s.value.id == v.self_name]
                if idx and isinstance(tx.ops[0], (ast.Lt, ast.LtE, ast.Gt, ast.GtE)):
                    cmps.append(((cmp_, at_, tx), idx[0]))
            if not cmps:
                ctx.ob("bound.checked", v, "self.%s" % attr, False,
                       "the optional bound %s.%s is declared but never compared in _validate" % (c.name, attr))
                continue
            for (cmp_, t, tx), pos in cmps:
                ninst += 1
                q = tx.comparators[0] if pos == 0 else tx.left
                op = tx.ops[0]
                # normalise to  Q <op> bound
                if pos == 0:
                    op = {ast.Lt: ast.Gt, ast.Gt: ast.Lt, ast.LtE: ast.GtE, ast.GtE: ast.LtE}[type(op)]()
                kind = "lower" if "min" in attr else ("upper" if "max" in attr else None)
                if kind is None:
                    raise AnalysisError("cannot tell whether %s.%s is a lower or an upper bound" % (c.name, attr))
                # which edge rejects?
                rej = rejecting.get(id(cmp_), (None, [], None))[0]
                if rej is None:
                    ctx.ob("bound.rejects", v, cmp_, False, "the comparison with self.%s does not lead to a rejection" % attr, node=t)
                    continue
                eff = type(op)
                if rej is False:
                    eff = {ast.Lt: ast.GtE, ast.GtE: ast.Lt, ast.Gt: ast.LtE, ast.LtE: ast.Gt}[eff]
                want = ast.Lt if kind == "lower" else ast.Gt
                ctx.ob("bound.strict-comparator", v, cmp_, eff is want,
                       "rejects iff value %s self.%s: the bound itself is accepted (inclusive, as documented)" % ("<" if kind == "lower" else ">", attr)
                       if eff is want else
                       "rejects when value %s self.%s: the %s bound %s" % (
                           {ast.Lt: "<", ast.LtE: "<=", ast.Gt: ">", ast.GtE: ">="}[eff], attr, kind,
                           "itself is rejected (off by one)" if eff in (ast.LtE, ast.GtE) and ((eff is ast.LtE) == (kind == "lower")) else "is applied in the wrong direction"),
                       node=t)
                # presence guard
                form = None
                known = [(expand_aliases(v, e_, t_), tr_) for e_, tr_, t_ in rejecting[id(cmp_)][1] if e_ is not cmp_]
                for e, tr in known:
                    if isinstance(e, ast.Compare) and len(e.ops) == 1 and isinstance(e.left, ast.Attribute) and e.left.attr == attr \
                            and isinstance(e.comparators[0], ast.Constant) and e.comparators[0].value is None:
                        if (isinstance(e.ops[0], ast.IsNot) and tr) or (isinstance(e.ops[0], ast.Is) and not tr):
                            form = "is not None"
                    elif isinstance(e, ast.Attribute) and e.attr == attr and tr and form is None:
                        form = "truthiness"
                if form is None:
                    ctx.ob("bound.none-guard", v, cmp_, False, "self.%s is compared without a None test (TypeError when the bound is not given)" % attr, node=t)
                elif form == "is not None":
                    ctx.ob("bound.none-guard", v, cmp_, True, "guarded by `self.%s is not None`: a bound of 0 is honoured" % attr, node=t)
                else:
                    vac = kind == "lower" and nonneg_quantity(q)
                    ctx.ob("bound.none-guard", v, cmp_, vac,
                           "truthiness guard accepted: a lower bound of 0 on the non-negative quantity %s is vacuous" % ast.unparse(q) if vac else
                           "`if self.%s and ...` skips the check when the bound is 0: %s(%s=0) accepts every value" % (attr, c.name, bounds[attr]),
                           node=t)
    seen_z = set()
    for init, x, attr, arg in ZERO_LOST:
        if id(x) in seen_z:
            continue
        seen_z.add(id(x))
        ctx.ob("bound.none-guard", init, x, False,
               "`%s`: a bound of 0 is falsy and is replaced by the default when the field is built: %s(%s=0) does not enforce 0" % (
                   ast.unparse(x)[:60], init.cls.name if init.cls else "?", arg))
    del ZERO_LOST[:]
    for init, x, attr, arg in TRANSFORMED:
        ctx.ob("bounds.kept-as-given", init, x, False,
               "%s stores %s as self.%s instead of the %s it was given: the bound that is enforced (and shown) is not the declared one -- "
               "int(0.5) is 0, so a value below the declared minimum is accepted" % (init.qualname, ast.unparse(x.value)[:40], attr, arg), node=x)
    del TRANSFORMED[:]
    ctx.need(ninst >= 3, "fewer than 3 bound comparisons discovered (%d)" % ninst)
    # PortField defaults
    pf = model.cls("PortField").methods.get("__init__")
    ctx.need(pf is not None, "PortField.__init__ vanished")
    dflt = {}
    for x in ast.walk(pf.node):
        if isinstance(x, ast.Call) and isinstance(x.func, ast.Attribute) and x.func.attr == "setdefault" and len(x.args) == 2 \
                and isinstance(x.args[0], ast.Constant) and isinstance(x.args[1], ast.Constant):
            dflt[x.args[0].value] = x.args[1].value
    ctx.ob("port.range", pf, "PortField defaults", dflt.get("min") == 1 and dflt.get("max") == 65535,
           "ports default to 1..65535" if dflt.get("min") == 1 and dflt.get("max") == 65535 else "PortField range defaults are %s" % dflt)


def check_string_order(ctx):
    """Normalise first, check afterwards: in StringField._validate every constraint check (length, pattern, choices,
    required-but-empty) comes after every transform (strip, case) on every path, and what is returned is the transformed
    text.  The value is followed through local names (renamed locals, inlined helpers)."""
    an, model = ctx.an, ctx.model
    v = model.method("StringField", "_validate")
    g = an.cfg(v)
    reach = reachable_from_entry(an, v)
    vparam = v.positional_params[2]
    # names that carry (something derived from) the value
    tainted = {vparam}
    changed = True
    while changed:
        changed = False
        for n in g.nodes:
            if n.kind == "assign" and isinstance(n.ast, (ast.Assign, ast.AnnAssign)) and n.ast.value is not None:
                if any(isinstance(x, ast.Name) and x.id in tainted for x in ast.walk(n.ast.value)):
                    tg = n.ast.targets if isinstance(n.ast, ast.Assign) else [n.ast.target]
                    for t in tg:
                        for x in ast.walk(t):
                            if isinstance(x, ast.Name) and x.id not in tainted:
                                tainted.add(x.id)
                                changed = True
    mentions = lambda e: any(isinstance(x, ast.Name) and x.id in tainted for x in ast.walk(e))
    transforms = {}
    for n in g.nodes:
        if n.kind == "assign" and n in reach and isinstance(n.ast, (ast.Assign, ast.AnnAssign)) and n.ast.value is not None:
            for x in ast.walk(n.ast.value):
                if isinstance(x, ast.Call) and isinstance(x.func, ast.Attribute) and mentions(x.func.value):
                    if x.func.attr in ("strip", "lstrip", "rstrip"):
                        transforms.setdefault("strip", []).append(n)
                    elif x.func.attr in ("lower", "upper", "casefold", "title", "capitalize"):
                        transforms.setdefault("case", []).append(n)
    ctx.need("strip" in transforms and "case" in transforms, "StringField._validate no longer strips / folds case: vanished anchors")
    all_transforms = {n for ns in transforms.values() for n in ns}
    # checks: tests that mention the value and guard a raise
    checks = {}
    for t in g.nodes:
        if t.kind != "test" or t not in reach:
            continue
        tx = expand_aliases(v, t.ast, t)
        if not mentions(t.ast) and not mentions(tx):
            continue
        guards_raise = False
        for lbl in (True, False):
            for s_, l2 in t.succ:
                def blocks(n):
                    if n.kind == "return":
                        return True
                    if n.kind == "test" and (mentions(n.ast)):
                        return True
                    if n in all_transforms:
                        return True
                    return False
                if l2 is lbl and (s_.kind == "raise" or g.path(s_, lambda n: n.kind == "raise", may_raise=lambda n: False, stop=blocks)):
                    guards_raise = True
        if not guards_raise:
            continue
        txt = ast.unparse(tx)
        if "isinstance" in txt:
            continue
        if "min_len" in txt:
            checks.setdefault("min_len", []).append(t)
        elif "max_len" in txt:
            checks.setdefault("max_len", []).append(t)
        elif "regex" in txt or "match" in txt:
            checks.setdefault("regex", []).append(t)
        elif "choices" in txt:
            checks.setdefault("choices", []).append(t)
        elif isinstance(t.ast, ast.Name):
            checks.setdefault("required-empty", []).append(t)
        else:
            checks.setdefault("other:" + txt[:30], []).append(t)
    ctx.need(len(checks) >= 5, "fewer than 5 constraint checks found in StringField._validate: %s" % sorted(checks))
    # idempotence of the normalisation itself: stripping caller-given characters has to come after the case transform -- with
    # strip="X", case="upper" the value "xa" is stripped (nothing), upper-cased to "XA", and a second validation strips the X
    bad_ts = None
    for cn in transforms["case"]:
        for sn in transforms["strip"]:
            if g.path(sn, lambda n, cn=cn: n is cn, may_raise=lambda n: False, from_successors=True):
                bad_ts = (sn, cn)
    ctx.ob("order.case-before-strip", v, "case transform before strip", bad_ts is None,
           "the case transform precedes the strip: validating the result again changes nothing" if bad_ts is None else
           "the strip (line %s) runs before the case transform (line %s): characters that only match after the transform survive the first "
           "validation and are stripped by the second -- validation is not idempotent ('xa' -> 'XA' -> 'A' for strip='X', case='upper')"
           % (bad_ts[0].lineno, bad_ts[1].lineno))
    pairs = [("strip", k) for k in checks] + [("case", k) for k in checks if k != "required-empty"]
    for tr, ck in sorted(pairs):
        bad = None
        for c in checks[ck]:
            for tn in transforms[tr]:
                p = g.path(c, lambda n, tn=tn: n is tn, may_raise=lambda n: False, from_successors=True)
                if p:
                    bad = (c, tn)
        ctx.ob("order.normalise-then-check", v, "%s before %s" % (tr, ck), bad is None,
               "the %s transform precedes the %s check on every path" % (tr, ck) if bad is None else
               "the %s check (line %s) runs before the %s transform (line %s): the stored value may violate the constraint it was "
               "checked against, and re-validating it gives a different verdict" % (ck, bad[0].lineno, tr, bad[1].lineno))
    # what is returned is the transformed variable
    for r in returns_of(an, v):
        okr = isinstance(r.ast.value, ast.Name) and r.ast.value.id in tainted
        if okr:
            # ... and not a copy taken before the transforms: no transform may follow a definition that reaches the return
            from engine.defuse import reaching_defs
            rdv = reaching_defs(v)
            rname = r.ast.value.id
            redefs = {n for n in g.nodes if any(dd.name == rname for dd in rdv.defs_at.get(n, []))}
            for d in rdv.reaching(r, rname):
                start = d.node if d.node is not None else g.entry
                for tn in all_transforms:
                    if tn in redefs:
                        continue        # the transform re-binds the returned name itself: that is the normalised value
                    # a transform applied to *another* name while this definition stays live up to the return: a stale copy
                    stop = lambda n: n in redefs and n is not start
                    if g.path(start, lambda n, tn=tn: n is tn, may_raise=lambda n: False, from_successors=True, stop=stop) and \
                            g.path(tn, lambda n: n is r, may_raise=lambda n: False, from_successors=True, stop=stop):
                        # ... unless the transformed value flows back into the returned name later (then `d` would not reach)
                        okr = False
        ctx.ob("order.returns-normalised", v, r.ast, okr, "returns the normalised value" if okr else "does not return the normalised value", node=r)


def check_bytes_codec(ctx):
    an, model = ctx.an, ctx.model
    BF = model.cls("BytesField")
    encodings = model.const_eval(BF.module, BF.class_attrs["ENCODINGS"], BF)
    inverse = {"b64encode": "b64decode", "hex": "fromhex", "b32encode": "b32decode", "b16encode": "b16decode",
               "hexlify": "unhexlify", "urlsafe_b64encode": "urlsafe_b64decode", "standard_b64encode": "standard_b64decode",
               "b85encode": "b85decode", "a85encode": "a85decode"}
    # per encoding literal: the function specialised for `self.encoding == <literal>`; the codec calls on the feasible paths
    # (also behind a module-level dispatch table indexed by self.encoding) are that encoding's codec
    from engine.specialize import Spec
    CODEC_NAMES = set(inverse) | set(inverse.values())

    def enc_decider(f, lit):
        def is_enc(e):
            return isinstance(e, ast.Attribute) and e.attr == "encoding" and isinstance(e.value, ast.Name) and e.value.id == f.self_name

        def const_of(e):
            try:
                return model.const_eval(f.module, e, f.cls)
            except (ValueError, KeyError):
                return None

        vp_ = f.positional_params[2] if len(f.positional_params) > 2 else None

        def decide(e, node):
            e2 = expand_aliases(f, e, node)
            # a value is there and has the type the codec expects (the early exits for None / non-str are not the point here)
            if isinstance(e2, ast.Compare) and len(e2.ops) == 1 and isinstance(e2.left, ast.Name) and e2.left.id == vp_ \
                    and isinstance(e2.comparators[0], ast.Constant) and e2.comparators[0].value is None:
                return isinstance(e2.ops[0], (ast.IsNot, ast.NotEq))
            if isinstance(e2, ast.Call) and isinstance(e2.func, ast.Name) and e2.func.id == "isinstance" and len(e2.args) == 2 \
                    and isinstance(e2.args[0], ast.Name) and e2.args[0].id == vp_:
                return True
            if isinstance(e2, ast.Compare) and len(e2.ops) == 1:
                l, r, op = e2.left, e2.comparators[0], e2.ops[0]
                if is_enc(r) and not is_enc(l):
                    l, r = r, l
                if is_enc(l):
                    if isinstance(op, (ast.Eq, ast.NotEq)):
                        c = const_of(r)
                        if isinstance(c, str):
                            return (c == lit) if isinstance(op, ast.Eq) else (c != lit)
                    if isinstance(op, (ast.In, ast.NotIn)):
                        c = const_of(r)
                        if isinstance(c, (tuple, list, dict, set, frozenset)):
                            return (lit in c) if isinstance(op, ast.In) else (lit not in c)
            return None
        return decide, is_enc, const_of

    def codecs_in(fn_or_expr):
        out = set()
        for x in ast.walk(fn_or_expr):
            if isinstance(x, ast.Call):
                nm = ast.unparse(x.func).split(".")[-1]
                if nm in CODEC_NAMES:
                    out.add(nm)
            elif isinstance(x, ast.Attribute) and x.attr in CODEC_NAMES and not isinstance(getattr(x, "_parent", None), ast.Call):
                out.add(x.attr)
        return out

    def table_entry_codecs(f, entry_expr):
        """codec names behind a dispatch-table entry: a function of the package (scan its body), an external callable
        (base64.b64decode, bytes.fromhex), or a tuple of such"""
        out = set()
        els = entry_expr.elts if isinstance(entry_expr, (ast.Tuple, ast.List)) else [entry_expr]
        for x in els:
            nm = ast.unparse(x).split(".")[-1] if isinstance(x, (ast.Name, ast.Attribute)) else None
            if nm in CODEC_NAMES:
                out.add(nm)
            elif isinstance(x, ast.Name):
                r = model.resolve_name(f.module, x.id)
                if r is not None and r[0] == "func":
                    out |= codecs_in(r[1].node)
        return out
    maps = {}
    for name in ("to_basic", "to_python"):
        f = model.method("BytesField", name)
        g = an.cfg(f)
        m = {}
        for lit in list(encodings) + ["<unknown>"]:
            dec, is_enc, const_of = enc_decider(f, lit)
            sp = Spec(an, f, dec)
            names = set()
            for n in g.nodes:
                if n not in sp.normal or n.ast is None:
                    continue
                if n.kind == "call":
                    nm = ast.unparse(n.ast.func).split(".")[-1]
                    if nm in CODEC_NAMES:
                        names.add(nm)
                    elif isinstance(n.ast.func, ast.Name):
                        # the codec applied through a local: encoder, _ = (lambda data: b64encode(data).decode(), b64decode)
                        for k_, pl_ in sp.sources(n.ast.func, n):
                            if k_ == "expr" and isinstance(pl_, ast.Lambda):
                                names |= codecs_in(pl_.body)
                            elif k_ == "expr" and isinstance(pl_, (ast.Attribute, ast.Name)):
                                nm2 = ast.unparse(pl_).split(".")[-1]
                                if nm2 in CODEC_NAMES:
                                    names.add(nm2)
                                elif isinstance(pl_, ast.Name):
                                    r_ = model.resolve_name(f.module, pl_.id)
                                    if r_ is not None and r_[0] == "func":
                                        names |= codecs_in(r_[1].node)
                # TABLE[self.encoding] / TABLE.get(self.encoding)
                for x in ([n.ast] if isinstance(n.ast, (ast.Subscript, ast.Call)) else []):
                    tbl, key = None, None
                    if isinstance(x, ast.Subscript) and isinstance(x.value, ast.Name):
                        tbl, key = x.value, x.slice
                    elif isinstance(x, ast.Call) and isinstance(x.func, ast.Attribute) and x.func.attr == "get" and isinstance(x.func.value, ast.Name) and x.args:
                        tbl, key = x.func.value, x.args[0]
                    if tbl is None or not is_enc(expand_aliases(f, key, n)):
                        continue
                    r = model.resolve_name(f.module, tbl.id)
                    if r is None or r[0] != "const":
                        continue
                    stmts = r[1].assigns.get(r[2]) or []
                    tnode = getattr(stmts[-1], "value", None) if stmts else None
                    if isinstance(tnode, ast.Dict):
                        for k_, v_ in zip(tnode.keys, tnode.values):
                            if k_ is not None and const_of(k_) == lit:
                                names |= table_entry_codecs(f, v_)
            if lit == "<unknown>":
                rejecting = not sp.normal_returns() and not sp.falls_off() and bool(sp.raises())
                # a table lookup that misses (`TABLE.get(enc)` is None / `enc not in TABLE`) counts when it leads to the raise:
                if not rejecting:
                    # decide membership tests against dispatch tables as "not a member" and `x is None` after .get as None
                    def dec2(e, node, dec=dec, f=f):
                        d = dec(e, node)
                        if d is not None:
                            return d
                        e2 = expand_aliases(f, e, node)
                        if isinstance(e2, ast.Compare) and len(e2.ops) == 1 and is_enc(e2.left) and isinstance(e2.ops[0], (ast.In, ast.NotIn)) \
                                and isinstance(e2.comparators[0], ast.Name):
                            return isinstance(e2.ops[0], ast.NotIn)
                        if isinstance(e2, ast.Compare) and len(e2.ops) == 1 and isinstance(e2.left, ast.Name) and isinstance(e2.comparators[0], ast.Constant) \
                                and e2.comparators[0].value is None and isinstance(e2.ops[0], (ast.Is, ast.IsNot)):
                            srcs = value_sources(f, e2.left, node)
                            if srcs and all(k == "expr" and isinstance(pl, ast.Call) and isinstance(pl.func, ast.Attribute) and pl.func.attr == "get"
                                            and pl.args and is_enc(pl.args[0]) for k, pl in srcs):
                                return isinstance(e2.ops[0], ast.Is)
                        return None
                    sp2 = Spec(an, f, dec2)
                    rejecting = not sp2.normal_returns() and not sp2.falls_off() and bool(sp2.raises())
                ctx.ob("codec.bytes.rejecting", f, "unknown encoding -> raise", rejecting, "an unknown encoding ends in raise" if rejecting else
                       "BytesField.%s falls through for an unknown encoding" % name)
            elif names:
                m[lit] = names
        maps[name] = m
    ctx.ob("codec.bytes.table", BF, "ENCODINGS", set(maps["to_basic"]) == set(maps["to_python"]) == set(encodings),
           "both directions dispatch over exactly %s" % (sorted(encodings),) if set(maps["to_basic"]) == set(maps["to_python"]) == set(encodings) else
           "ENCODINGS=%s, to_basic handles %s, to_python handles %s" % (encodings, sorted(maps["to_basic"]), sorted(maps["to_python"])))
    for lit in sorted(set(maps["to_basic"]) | set(maps["to_python"])):
        e, d = maps["to_basic"].get(lit, set()), maps["to_python"].get(lit, set())
        ok = len(e) == 1 and len(d) == 1 and inverse.get(next(iter(e))) == next(iter(d))
        ctx.ob("codec.bytes.inverse-pair", BF, "encoding %r" % lit, ok,
               "%s <-> %s" % (next(iter(e)), next(iter(d))) if ok else "encoding %r is written with %s but read with %s" % (lit, sorted(e), sorted(d)))
    # the value itself (un-encoded) is handed back only when it is None: an empty byte string is data and goes through the codec
    from engine.flow import guard_atoms
    tbf = model.method("BytesField", "to_basic")
    vpb = tbf.positional_params[2]
    for r in returns_of(an, tbf):
        if r.ast.value is None:
            continue
        srcs = value_sources(tbf, r.ast.value, r)
        if not any(k == "param" and pl == vpb for k, pl in srcs):
            continue
        is_none = False
        for e, truth, _t in guard_atoms(an, tbf, r):
            if isinstance(e, ast.Compare) and len(e.ops) == 1 and isinstance(e.left, ast.Name) and e.left.id == vpb \
                    and isinstance(e.comparators[0], ast.Constant) and e.comparators[0].value is None:
                if (isinstance(e.ops[0], ast.Is) and truth) or (isinstance(e.ops[0], ast.IsNot) and not truth):
                    is_none = True
        ctx.ob("codec.bytes.raw-only-for-none", tbf, r.ast, is_none,
               "the value is handed back un-encoded only when it is None" if is_none else
               "BytesField.to_basic can return the value itself for a value that is not None (an empty byte string): bytes reach the tree, "
               "which is no longer plain data -- JSON/XML dumps fail, other formats do not load back", node=r)
    init = model.method("BytesField", "__init__")
    rej = any(n.kind == "raise" for n in an.cfg(init).nodes)
    ctx.ob("codec.bytes.ctor-rejects", init, "encoding not in ENCODINGS -> raise", rej, "unknown encodings are rejected at construction" if rej else
           "BytesField accepts unknown encodings")
    # SecureField key sets
    tb, tp = model.method("SecureField", "to_basic"), model.method("SecureField", "to_python")
    wk = set()
    for r in returns_of(an, tb):
        cands = [r.ast.value] if isinstance(r.ast.value, ast.Dict) else [
            pl for k, pl in (value_sources(tb, r.ast.value, r) if isinstance(r.ast.value, ast.Name) else []) if k == "expr"]
        for dv_ in cands:
            if isinstance(dv_, ast.Dict):
                wk |= {k.value for k in dv_.keys if isinstance(k, ast.Constant)}
    rk = set()
    for x in ast.walk(tp.node):
        if isinstance(x, ast.Call) and isinstance(x.func, ast.Attribute) and x.func.attr == "get" and x.args and isinstance(x.args[0], ast.Constant):
            rk.add(x.args[0].value)
        if isinstance(x, ast.Subscript) and isinstance(x.slice, ast.Constant) and isinstance(x.slice.value, str):
            rk.add(x.slice.value)
    ctx.ob("codec.secure.key-sets", tp, "keys written == keys read", wk == rk and bool(wk), "both sides use %s" % sorted(wk) if wk == rk and wk else
           "to_basic writes %s, to_python reads %s" % (sorted(wk), sorted(rk)))
    encs = {ast.unparse(x.func).split(".")[-1] for x in ast.walk(tb.node) if isinstance(x, ast.Call) and ast.unparse(x.func).split(".")[-1] in inverse}
    decs = {ast.unparse(x.func).split(".")[-1] for x in ast.walk(tp.node) if isinstance(x, ast.Call) and ast.unparse(x.func).split(".")[-1] in inverse.values()}
    okp = len(encs) == 1 and decs == {inverse[next(iter(encs))]}
    ctx.ob("codec.secure.inverse-pair", tp, "%s <-> %s" % (sorted(encs), sorted(decs)), okp, "ciphertext is written and read with an inverse pair" if okp else
           "ciphertext is written with %s but read with %s" % (sorted(encs), sorted(decs)))


def check_bool_number(ctx):
    an, model = ctx.an, ctx.model
    BF = model.cls("BoolField")
    T = model.const_eval(BF.module, BF.class_attrs["TRUE_VALUES"], BF)
    F = model.const_eval(BF.module, BF.class_attrs["FALSE_VALUES"], BF)
    ok = not (set(T) & set(F)) and all(isinstance(x, str) and x == x.lower() for x in list(T) + list(F))
    ctx.ob("bool.tables-disjoint", BF, "TRUE_VALUES / FALSE_VALUES", ok, "token tables are disjoint and lower-case" if ok else
           "token tables overlap or contain non-lower-case tokens: %s" % sorted(set(T) & set(F)))
    v = model.method("BoolField", "_validate")
    g = an.cfg(v)
    from engine.specialize import Spec
    from .xmlfmt import writer_decider
    vp = v.positional_params[2]

    def is_value(sp, e, node):
        srcs = sp.sources(e, node)
        return bool(srcs) and all(k == "param" and p == vp for k, p in srcs)
    for kind in ("bool", "int", "float", "str", "other"):
        sp = Spec(an, v, writer_decider(an, v, vp, kind))
        rets = sp.normal_returns()
        if kind == "other":
            ok = not rets and not sp.falls_off() and bool(sp.raises())
            ctx.ob("bool.kinds", v, "value of another type", ok, "values that are neither bool, number nor str are rejected" if ok else
                   "a value that is neither bool, number nor str can be accepted")
            continue
        if kind in ("bool", "int", "float"):
            ok = bool(rets) and not sp.raises()
            why = "%s values are accepted and converted with bool()" % kind
            for r in rets:
                for k, p in (sp.sources(r.ast.value, r) if r.ast.value is not None else [("none", None)]):
                    if k == "param" and p == vp and kind == "bool":
                        continue
                    if k == "expr" and isinstance(p, ast.Call) and isinstance(p.func, ast.Name) and p.func.id == "bool" and len(p.args) == 1 \
                            and is_value(sp, p.args[0], sp.where.get(id(p))):
                        continue
                    ok, why = False, "a %s value is turned into %s" % (kind, ast.unparse(p)[:40] if isinstance(p, ast.AST) else k)
            if not rets or sp.raises():
                why = "%s values are rejected" % kind
            ctx.ob("bool.kinds", v, "%s value" % kind, ok, why)
            continue
        # strings: the two token tables, case-insensitively; anything else is rejected
        def tbl_attr(e, node=None):
            """TRUE_VALUES / FALSE_VALUES named by the expression: self.TRUE_VALUES, or a local that only holds it"""
            if isinstance(e, ast.Attribute):
                return e.attr
            if isinstance(e, ast.Name):
                srcs = value_sources(v, e, node)
                attrs = {pl.attr if k == "expr" and isinstance(pl, ast.Attribute) else None for k, pl in srcs}
                if len(attrs) == 1 and None not in attrs:
                    return attrs.pop()
            return None

        def table_decider(outcomes):
            base = writer_decider(an, v, vp, "str")

            def decide(e, node):
                if isinstance(e, ast.Compare) and len(e.ops) == 1 and isinstance(e.ops[0], (ast.In, ast.NotIn)) and \
                        tbl_attr(e.comparators[0], node) in outcomes:
                    r = outcomes[tbl_attr(e.comparators[0], node)]
                    return r if isinstance(e.ops[0], ast.In) else (not r)
                return base(e, node)
            return decide
        for tbl, const, outcomes in (("TRUE_VALUES", True, {"TRUE_VALUES": True}), ("FALSE_VALUES", False, {"TRUE_VALUES": False, "FALSE_VALUES": True})):
            spt = Spec(an, v, table_decider(outcomes))
            tests = [t for t in g.nodes if t.kind == "test" and t in spt.normal and isinstance(t.ast, ast.Compare) and isinstance(t.ast.ops[0], (ast.In, ast.NotIn))
                     and tbl_attr(t.ast.comparators[0], t) == tbl]
            lowered = bool(tests) and all(
                all(k == "expr" and isinstance(p, ast.Call) and isinstance(p.func, ast.Attribute) and p.func.attr in ("lower", "casefold")
                    and is_value(spt, p.func.value, spt.where.get(id(p))) for k, p in spt.sources(t.ast.left, t)) for t in tests)
            consts = set()
            for r in spt.normal_returns():
                if r.ast.value is None:
                    consts.add("None")
                    continue
                for k, p in spt.sources(r.ast.value, r):
                    consts.add(p.value if k == "expr" and isinstance(p, ast.Constant) else "?")
            found = lowered and len(consts) == 1 and next(iter(consts)) is const and not spt.raises()
            ctx.ob("bool.token-maps", v, "token in %s -> %s" % (tbl, const), found, "case-insensitive tokens of %s give %s" % (tbl, const) if found else
                   "tokens of %s are not mapped (case-insensitively) to %s (results: %s%s)" % (
                       tbl, const, sorted(map(str, consts)), "" if lowered else "; the comparison is case-sensitive"))
        # a string outside both tables is rejected
        both_false = Spec(an, v, (lambda base: lambda e, node: False if (isinstance(e, ast.Compare) and isinstance(e.ops[0], ast.In)
                                  and tbl_attr(e.comparators[0], node) in ("TRUE_VALUES", "FALSE_VALUES"))
                                  else base(e, node))(writer_decider(an, v, vp, "str")))
        ok = not both_false.normal_returns() and not both_false.falls_off() and bool(both_false.raises())
        ctx.ob("bool.kinds", v, "str outside the token tables", ok, "strings that are no boolean token are rejected" if ok else
               "a string that is no boolean token can be accepted")
    nv = model.method("NumberField", "_validate")
    g = an.cfg(nv)
    vparam = nv.positional_params[2]
    # specialised for "the value is True/False": bool is an int, so isinstance(value, int / (.., int, ..)) holds as well;
    # no normal return may remain
    def spec_names(e):
        els = e.elts if isinstance(e, (ast.Tuple, ast.List)) else [e]
        out = []
        for x in els:
            if isinstance(x, ast.Name):
                out.append(x.id)
            elif isinstance(x, (ast.Tuple, ast.List)):
                out += spec_names(x)
            else:
                out.append(None)
        return out

    def decide_bool(e, node):
        if isinstance(e, ast.Call) and isinstance(e.func, ast.Name) and e.func.id == "isinstance" and len(e.args) == 2 \
                and isinstance(e.args[0], ast.Name) and all(k == "param" and p_ == vparam for k, p_ in (value_sources(nv, e.args[0], node) or [("?", None)])):
            spec_e = e.args[1]
            if isinstance(spec_e, ast.Name) and spec_e.id not in ("bool", "int", "float", "str", "object", "complex"):
                srcs = value_sources(nv, spec_e, node)
                if len(srcs) == 1 and srcs[0][0] == "expr" and isinstance(srcs[0][1], (ast.Tuple, ast.List)):
                    spec_e = srcs[0][1]
            names = spec_names(spec_e)
            if any(n_ in ("bool", "int", "object") for n_ in names):
                return True
            if all(n_ is not None for n_ in names):
                return False
        return None
    spb_ = Spec(an, nv, decide_bool)
    rej_bool = not spb_.normal_returns() and not spb_.falls_off() and bool(spb_.raises())
    # NaN compares false with every bound (`nan < min` and `nan > max` are both False): a bounded number field has to refuse it on
    # its own -- `num != num`, math.isnan(num) -- or "0 <= value <= 1" holds a value that is neither
    from engine.flow import guard_atoms as _ga
    nan_rej = False
    for r_ in [n for n in g.nodes if n.kind == "raise"]:
        for e_, truth_, _t in _ga(an, nv, r_):
            if isinstance(e_, ast.Compare) and len(e_.ops) == 1 and isinstance(e_.left, ast.Name) and isinstance(e_.comparators[0], ast.Name) \
                    and e_.left.id == e_.comparators[0].id and ((isinstance(e_.ops[0], ast.NotEq) and truth_) or (isinstance(e_.ops[0], ast.Eq) and not truth_)):
                nan_rej = True
            if isinstance(e_, ast.Call) and ast.unparse(e_.func).split(".")[-1] in ("isnan", "isfinite"):
                nan_rej = nan_rej or (truth_ if ast.unparse(e_.func).endswith("isnan") else not truth_)
    ctx.ob("number.rejects-nan", nv, "NaN is refused", nan_rej, "NaN is refused before the bounds are compared" if nan_rej else
           "NumberField._validate never refuses NaN: FloatField(min=0, max=1) accepts 'nan' (both bound comparisons are False for it) and holds a "
           "value outside its bounds")
    ctx.ob("number.rejects-bool", nv, "isinstance(value, bool) -> raise", rej_bool, "True/False are not accepted as numbers" if rej_bool else
           "NumberField accepts bool values as numbers")
    from .common import called_attr
    conv = [n for n in g.nodes if n.kind == "call" and called_attr(nv, n.ast, n) == "type_cls"]
    okr = bool(conv)
    for r in returns_of(an, nv):
        srcs = value_sources(nv, r.ast.value, r)
        okr = okr and all(k == "expr" and isinstance(pl, ast.Call) and called_attr(nv, pl) == "type_cls" for k, pl in srcs)
    ctx.ob("number.returns-converted", nv, "return type_cls(value)", okr, "returns the converted number (the bounds are checked on it)" if okr else
           "NumberField does not return the converted number")
    cmp_sites = []
    for t in g.nodes:
        if t.kind == "test" and isinstance(t.ast, ast.Compare):
            cmp_sites.append((t.ast, t))
        elif t.kind == "assign" and isinstance(t.ast, (ast.Assign, ast.AnnAssign)) and t.ast.value is not None:
            cmp_sites += [(x, t) for x in ast.walk(t.ast.value) if isinstance(x, ast.Compare)]
    for cmp_, t in cmp_sites:
        tx = expand_aliases(nv, cmp_, t)
        if len(cmp_.ops) == 1 and any(isinstance(x, ast.Attribute) and x.attr in ("min", "max") for x in ast.walk(tx)) \
                and isinstance(tx.ops[0], (ast.Lt, ast.Gt, ast.LtE, ast.GtE)):
            qi = 0 if not isinstance(tx.left, ast.Attribute) else 1
            q = cmp_.left if qi == 0 else cmp_.comparators[0]
            okq = isinstance(q, ast.Name) and all(k == "expr" and isinstance(pl, ast.Call) and called_attr(nv, pl) == "type_cls"
                                                  for k, pl in value_sources(nv, q, t))
            ctx.ob("number.bounds-on-converted", nv, cmp_, okq, "bounds are compared with the converted number" if okq else
                   "bounds are compared with the unconverted input (a numeric string escapes the bound)", node=t)


def check_regex_anchors(ctx):
    r"""A pattern that is meant to describe the whole value and is applied with `.match()` in a validator has to end in `\Z` (or be
    applied with `.fullmatch()`): `$` also matches before a trailing newline, so 'ab\n' passes a pattern written for 'ab'."""
    import re as _re
    try:
        from re import _parser as _sre_parse, _constants as _sre_c
    except ImportError:         # Python < 3.11
        import sre_parse as _sre_parse, sre_constants as _sre_c
    an, model = ctx.an, ctx.model
    npat = 0
    for c in model.classes.values():
        if c.node is None:
            continue
        for name, val in c.class_attrs.items():
            if not (isinstance(val, ast.Call) and ast.unparse(val.func) in ("re.compile", "compile") and val.args and isinstance(val.args[0], ast.Constant)
                    and isinstance(val.args[0].value, str)):
                continue
            pat = val.args[0].value
            try:
                parsed = list(_sre_parse.parse(pat))
            except Exception:
                continue
            if not parsed:
                continue
            npat += 1
            last = parsed[-1]
            loose_end = last[0] == _sre_c.AT and last[1] == _sre_c.AT_END          # `$` (AT_END_STRING is `\Z`)
            anchored_start = parsed[0][0] == _sre_c.AT
            uses = [x for f in an.fns() if f.node is not None and f.name in ("_validate", "validate") for x in ast.walk(f.node)
                    if isinstance(x, ast.Call) and isinstance(x.func, ast.Attribute) and x.func.attr in ("match", "search", "fullmatch")
                    and isinstance(x.func.value, ast.Attribute) and x.func.value.attr == name]
            bad = [x for x in uses if x.func.attr != "fullmatch"] if (loose_end and anchored_start) else []
            ctx.ob("regex.whole-value", c, "%s.%s = %r" % (c.name, name, pat[:40]), not bad,
                   "the pattern cannot match a value with something after it" if not bad else
                   "%s.%s ends in `$` and is applied with .%s(): a value with a trailing newline ('ab\\n') passes although the pattern describes "
                   "'ab' -- use \\Z or fullmatch()" % (c.name, name, bad[0].func.attr), nontrivial=bool(uses))
    ctx.need(npat >= 2, "the compiled patterns of the network fields were not found")


def check_accepts_own_result(ctx):
    an, model = ctx.an, ctx.model
    Field = model.cls("Field")
    for c in Field.subclasses(strict=True):
        v = c.methods.get("_validate")
        if v is None or len(v.positional_params) < 3:
            continue
        g = an.cfg(v)
        ft = an.ft(v)
        vparam = v.positional_params[2]
        gate = None
        unknown = False
        rejected = []
        for t in g.nodes:
            if t.kind == "test" and isinstance(t.ast, ast.Call) and ast.unparse(t.ast.func) == "isinstance" and len(t.ast.args) == 2 \
                    and isinstance(t.ast.args[0], ast.Name) and t.ast.args[0].id == vparam:
                spec = ft.class_spec(t.ast.args[1], ft.env_in.get(t) or {})
                if not spec:
                    unknown = True
                    continue
                true_raises = any(lbl is True and (s.kind == "raise" or (s.kind == "call" and any(x.kind == "raise" for x, _ in s.succ)))
                                  for s, lbl in t.succ)
                def is_vtest(x):
                    return x.kind == "test" and isinstance(x.ast, ast.Call) and ast.unparse(x.ast.func) == "isinstance" and len(x.ast.args) == 2 \
                        and isinstance(x.ast.args[0], ast.Name) and x.ast.args[0].id == vparam

                def rejecting(x, depth=0):
                    """the other types are turned away: the False outcome raises, directly or at the end of an elif chain of such tests"""
                    if depth > 8:
                        return False
                    for s_, lbl_ in x.succ:
                        if lbl_ is False:
                            # straight down from the False outcome: the nodes that evaluate a raise's message or the next
                            # `elif isinstance(...)`, then the raise / that test
                            cur, steps = s_, 0
                            while cur is not None and steps < 12:
                                if cur.kind == "raise":
                                    return True
                                if is_vtest(cur):
                                    return rejecting(cur, depth + 1)
                                if cur.kind == "test":
                                    break
                                nxt = [y for y, l_ in cur.succ]
                                if len(nxt) != 1:
                                    break
                                cur, steps = nxt[0], steps + 1
                    return False
                false_raises = rejecting(t)
                if true_raises:
                    rejected += spec
                elif false_raises:
                    gate = (gate or []) + spec      # a gate turns the other types away; `if isinstance(v, str): v = convert(v)` does not
        if unknown:
            continue
        if not gate:
            continue
        for r in returns_of(an, v):
            t = ft.type_at(r, r.ast.value)
            if t == "ANY" or not t:
                continue
            bases = [a if isinstance(a, str) else a[0] for a in t if isinstance(a, (str, tuple))]
            ok = all(any(an.types.is_sub(b, gcls) for gcls in gate) and not any(an.types.is_sub(b, rc) for rc in rejected)
                     for b in bases if b not in ("NoneType",))
            ctx.ob("idempotence.accepts-own-result", v, r.ast, ok,
                   "the result type %s is accepted by the validator's own type gate %s" % (sorted(bases), sorted(set(gate))) if ok else
                   "returns %s, which the validator's own type gate %s rejects: validating an accepted result again fails" % (sorted(bases), sorted(set(gate))),
                   node=r)


def check(ctx):
    check_bounds(ctx)
    check_string_order(ctx)
    check_bytes_codec(ctx)
    check_bool_number(ctx)
    check_regex_anchors(ctx)
    check_accepts_own_result(ctx)
    from .paths import check_filename_resolution
    check_filename_resolution(ctx)
    # shared clauses
    sub = type(ctx)(ctx.pid, ctx.an, ctx.tier)
    c02_check_container(sub)
    from .c02 import check_container_items_encoded
    check_container_items_encoded(sub)
    c01.check_validators(sub)
    c01.check_validate_chain(sub)
    c01.check_taint(sub)      # typed containers accept exactly the items their item field accepts
    ctx.obligations.extend(sub.obligations)


def c02_check_container(ctx):
    """C02.1 re-evaluated under this property id (same rule, same sites)."""
    from .c02 import codec_attrs
    an, model = ctx.an, ctx.model
    for cname in ("ListField", "DictField"):
        tb = model.method(cname, "to_basic")
        tp = model.method(cname, "to_python")
        enc = codec_attrs(an, tb, "to_basic")
        dec = codec_attrs(an, tp, "to_python")
        ctx.need(bool(enc), "%s.to_basic no longer encodes items through the item field" % cname)
        for attr in sorted(set(enc) | set(dec)):
            ok = attr in enc and attr in dec and dec.get(attr) and enc.get(attr)
            ctx.ob("agree.container-codec", tp, "%s: self.%s.to_basic <-> self.%s.to_python" % (cname, attr, attr), bool(ok),
                   "elements are encoded with self.%s.to_basic and decoded with self.%s.to_python" % (attr, attr) if ok else
                   "self.%s codec is applied on one side only: to_python(to_basic(v)) != v for items with a non-trivial on-disk form" % attr)
