"""Path handling rules shared by C02/C05/C18/C19: how a file name travels from a parameter to open()."""
from __future__ import annotations

import ast

from engine.defuse import value_sources
from engine.flow import same_name_value
from engine.specialize import Spec
from .common import open_path_expr

IDENTITY = {"expanduser", "fspath", "str", "Path", "PurePath", "expandvars"}
COLLAPSING = {"normpath": "collapses `x/..` textually (wrong when x is a symbolic link)",
              "abspath": "collapses `x/..` textually (wrong when x is a symbolic link) and pins the current directory",
              "basename": "drops the directory", "relpath": "re-anchors the path", "lower": "changes case", "strip": "strips characters",
              "rstrip": "strips characters", "lstrip": "strips characters", "replace": "rewrites characters", "normcase": "changes case on some platforms"}
ABSOLUTE = {"abspath", "realpath", "resolve", "absolute"}
KEEPS_ABSOLUTE = {"normpath", "normcase", "replace", "str", "fspath", "expanduser"}


def _fname(call: ast.Call) -> str:
    f = call.func
    return f.attr if isinstance(f, ast.Attribute) else (f.id if isinstance(f, ast.Name) else "?")


def transformation_chain(fn, expr, node, pname, depth=0):
    """names of the functions applied between parameter *pname* and *expr* (None when expr does not come from it)"""
    out = []
    if depth > 8:
        return None
    for k, p in value_sources(fn, expr, node):
        if k == "param":
            if p != pname:
                return None
            continue
        if k == "expr" and isinstance(p, ast.Call):
            inner = None
            cands = list(p.args[:1])
            if isinstance(p.func, ast.Attribute) and not (isinstance(p.func.value, ast.Name) and p.func.value.id in ("os", "pathlib")) \
                    and not (isinstance(p.func.value, ast.Attribute) and p.func.value.attr == "path"):
                cands = [p.func.value] + cands       # method on the path object
            for c in cands:
                inner = transformation_chain(fn, c, None, pname, depth + 1)
                if inner is not None:
                    break
            if inner is None:
                return None
            out += inner + [_fname(p)]
            continue
        return None
    return out


def check_save_load_path(ctx):
    """Config.save and Config.load open the file the caller named: the same transformations on both sides, none that rewrites the path."""
    an, model = ctx.an, ctx.model
    chains = {}
    for mname in ("save", "load"):
        f = model.method("Config", mname)
        pname = f.positional_params[1]
        g = an.cfg(f)
        opens = [n for n in g.nodes if n.kind == "call" and (
            (isinstance(n.ast.func, ast.Name) and n.ast.func.id == "open") or
            (isinstance(n.ast.func, ast.Attribute) and n.ast.func.attr in ("write_bytes", "read_bytes", "open")))]
        ctx.need(bool(opens), "Config.%s no longer opens a file: vanished anchor" % mname)
        for n in opens:
            pe = open_path_expr(n.ast)
            ch = transformation_chain(f, pe, n, pname) if pe is not None else None
            if ch is None and isinstance(pe, ast.Name):
                # written under a temporary name and moved onto the destination afterwards
                for m in g.nodes:
                    if m.kind == "call" and _fname(m.ast) in ("replace", "rename", "move") and len(m.ast.args) == 2 \
                            and isinstance(m.ast.args[0], ast.Name) and same_name_value(f, m.ast.args[0], m, pe, n):
                        ch = transformation_chain(f, m.ast.args[1], m, pname)
            ok = ch is not None
            ctx.ob("path.names-the-given-file", f, n.ast, ok,
                   "the file opened is the `%s` argument (through %s)" % (pname, ch or "nothing") if ok else
                   "the file opened by Config.%s is not derived from its `%s` argument" % (mname, pname), node=n)
            if ch is None:
                continue
            chains.setdefault(mname, set()).add(tuple(sorted(set(ch) - {"str", "fspath", "Path"})))
            bad = [c for c in ch if c in COLLAPSING]
            ctx.ob("path.not-rewritten", f, n.ast, not bad,
                   "the destination path is used as given (only ~ is expanded)" if not bad else
                   "Config.%s rewrites the path with %s, which %s: the bytes go to / come from another file than the one named" % (
                       mname, bad[0], COLLAPSING[bad[0]]), node=n)
    if "save" in chains and "load" in chains:
        ok = chains["save"] == chains["load"]
        ctx.ob("path.save-load-agree", model.method("Config", "save"), "path transformations of save and load", ok,
               "save and load resolve a file name the same way (%s)" % sorted(chains["save"]) if ok else
               "save resolves the file name through %s, load through %s: a saved file is not the one loaded back" % (
                   sorted(chains["save"]), sorted(chains["load"])))


def check_filename_resolution(ctx):
    """FilenameField._validate: a relative name is anchored at startdir and made absolute; the decision relative/absolute is
    taken on the name as given."""
    an, model = ctx.an, ctx.model
    v = model.method("FilenameField", "_validate")
    g = an.cfg(v)
    vp = v.positional_params[2]

    def is_isabs(e):
        return isinstance(e, ast.Call) and _fname(e) in ("isabs", "is_absolute")

    def is_startdir(e):
        return isinstance(e, ast.Attribute) and e.attr == "startdir"
    tests = [t for t in g.nodes if t.kind == "test" and is_isabs(t.ast)]
    ctx.need(bool(tests), "FilenameField._validate no longer tests os.path.isabs: vanished anchor")
    for t in tests:
        arg = t.ast.args[0] if t.ast.args else (t.ast.func.value if isinstance(t.ast.func, ast.Attribute) else None)
        bad = None
        if arg is not None:
            todo, seen = [(arg, t)], set()
            while todo:
                e, at = todo.pop()
                for k, p in value_sources(v, e, at):
                    if k == "expr" and isinstance(p, ast.Call) and id(p) not in seen:
                        seen.add(id(p))
                        if _fname(p) in ("expanduser", "expandvars"):
                            bad = _fname(p)
                        elif _fname(p) not in ("_validate",):
                            for a in p.args[:1]:
                                todo.append((a, None))
        ctx.ob("path.isabs-on-given-name", v, t.ast, bad is None,
               "relative/absolute is decided on the name as configured" if bad is None else
               "the name is passed through %s before the relative/absolute decision: `~/x` no longer resolves against the start directory" % bad, node=t)

    def decide(e, node):
        if is_isabs(e):
            return False
        if is_startdir(e):
            return True
        if isinstance(e, ast.Compare) and len(e.ops) == 1 and is_startdir(e.left) and isinstance(e.comparators[0], ast.Constant) \
                and e.comparators[0].value is None:
            return isinstance(e.ops[0], (ast.IsNot, ast.NotEq))
        if isinstance(e, ast.Name) and e.id == vp:
            # `if not value: return value` -- a non-empty relative name is being resolved
            return True
        return None
    sp = Spec(an, v, decide)

    def absolute(expr, node, depth=0):
        if depth > 8:
            return False
        srcs = sp.sources(expr, node)
        if not srcs:
            return False
        for k, p in srcs:
            if k != "expr" or not isinstance(p, ast.Call):
                return False
            nm = _fname(p)
            if nm in ABSOLUTE:
                continue
            if nm in KEEPS_ABSOLUTE:
                inner = p.func.value if (isinstance(p.func, ast.Attribute) and nm in ("replace",)) else (p.args[0] if p.args else None)
                if inner is not None and absolute(inner, sp.where.get(id(p)), depth + 1):
                    continue
            return False
        return True
    rets = sp.normal_returns()
    ctx.need(bool(rets), "FilenameField._validate: no return reachable for a relative name with a start directory")
    for r in rets:
        ok = r.ast.value is not None and absolute(r.ast.value, r)
        ctx.ob("path.relative-made-absolute", v, r.ast, ok,
               "a relative name with a start directory is stored as an absolute path (validating it again changes nothing)" if ok else
               "a relative name anchored at startdir is not made absolute: validating the stored value again anchors it a second time", node=r)
    # anchored at startdir: os.path.join(self.startdir, value)
    joins = [n for n in g.nodes if n.kind == "call" and n in sp.normal and _fname(n.ast) in ("join", "joinpath")]
    okj = False
    for n in joins:
        a = n.ast.args
        if len(a) >= 2 and is_startdir(a[0]) and all(k == "expr" and isinstance(p, ast.Call) and _fname(p) == "_validate" or k == "param"
                                                       for k, p in sp.sources(a[1], n)):
            okj = True
    ctx.ob("path.anchored-at-startdir", v, "os.path.join(self.startdir, value)", okj,
           "relative names are resolved against the start directory" if okj else
           "a relative name is not joined onto self.startdir (start directory first, name second)")
